#!/bin/bash
# usage: check.sh <Cxx> [quick|thorough]
# Loads /repo's current working tree, evaluates the property's static rules, writes evidence/<Cxx>.json.
set -u
cd "$(dirname "$0")"
export PATH=/opt/veriftools/go1.26.8/bin:$PATH
export GOFLAGS=-mod=mod GOPROXY=off GOSUMDB=off GOTOOLCHAIN=local GOWORK=off
PROP="$1"; TIER="${2:-quick}"
if [ ! -x bin/cometlint ] || [ -n "$(find checker -name '*.go' -newer bin/cometlint 2>/dev/null | head -1)" ]; then
  ./setup.sh >/dev/null || { echo "setup failed"; exit 2; }
fi
if [ "$TIER" = thorough ]; then
  exec ./thorough.sh "$PROP"
fi
exec ./bin/cometlint -prop "$PROP" -tier quick -repo "${VERIF_REPO:-/repo}" -verif "$(pwd)"

#!/bin/bash
# usage: tools_combo.sh  — seeded defect on top of a behaviour-preserving refactoring of the same file(s): the own-property
# check must still report the defect (the normal form must not hide it). Prints MISS lines; summary at the end.
set -u
cd /verif
n=0; miss=0; skipped=0
for sd in seeded/C*-*/; do
  id=$(basename $sd); prop=${id%%-*}
  files=$(grep '^+++ b/' $sd/patch.diff | sed 's|+++ b/||')
  cnt=0
  for rf in $(grep -l -F "$(echo "$files" | head -1)" refactors/R*/*.diff 2>/dev/null | sort -R --random-source=<(yes) | head -6); do
    [ $cnt -ge 2 ] && break
    S=$(mktemp -d /tmp/comboXXXXXX)
    rsync -a --exclude .git /repo/ $S/repo/
    mkdir -p $S/verif; cp KNOWN_FINDINGS.jsonl $S/verif/
    if (cd $S/repo && patch -p1 -s --no-backup-if-mismatch < /verif/$rf >/dev/null 2>&1 && patch -p1 -s --no-backup-if-mismatch < /verif/$sd/patch.diff >/dev/null 2>&1) && (cd $S/repo && GOFLAGS=-mod=mod GOPROXY=off go build ./... >/dev/null 2>&1); then
      cnt=$((cnt+1)); n=$((n+1))
      if ./bin/cometlint -prop $prop -repo $S/repo -verif $S/verif > $S/out.txt 2>&1; then
        miss=$((miss+1)); echo "MISS seed=$id on top of $rf"
      fi
    else
      skipped=$((skipped+1))
    fi
    rm -rf $S
  done
done
echo "combo: $n seed-on-refactoring combinations, $miss not reported, $skipped did not apply together"

// mutgen — generator of single-site source mutants of the comet package, for the self-validation sweep described in
// DESIGN.md (section 11.11). It is tooling: no check depends on it.
//
//	mutgen -repo /repo -list                 prints one line per mutation site: id file:line operator detail
//	mutgen -repo /repo -apply ID -out DIR    writes the mutated file into DIR (a copy of the repo)
package main

import (
	"bytes"
	"flag"
	"fmt"
	"go/ast"
	"go/format"
	"go/parser"
	"go/token"
	"os"
	"path/filepath"
	"sort"
	"strings"
)

type site struct {
	file   string
	line   int
	op     string
	detail string
	apply  func()
	undo   func()
}

func main() {
	repo := flag.String("repo", "/repo", "repository root")
	list := flag.Bool("list", false, "list mutation sites")
	apply := flag.Int("apply", -1, "site id to apply")
	out := flag.String("out", "", "directory (copy of the repo) that receives the mutated file")
	flag.Parse()
	files, _ := filepath.Glob(filepath.Join(*repo, "*.go"))
	sort.Strings(files)
	fset := token.NewFileSet()
	var sites []site
	parsed := map[string]*ast.File{}
	for _, f := range files {
		if strings.HasSuffix(f, "_test.go") || strings.HasSuffix(f, "doc.go") {
			continue
		}
		af, err := parser.ParseFile(fset, f, nil, parser.ParseComments)
		if err != nil {
			fmt.Fprintln(os.Stderr, err)
			os.Exit(2)
		}
		parsed[f] = af
		sites = append(sites, sitesOf(fset, f, af)...)
	}
	if *list {
		for i, s := range sites {
			fmt.Printf("%d %s:%d %s %s\n", i, filepath.Base(s.file), s.line, s.op, s.detail)
		}
		return
	}
	if *apply < 0 || *apply >= len(sites) || *out == "" {
		fmt.Fprintln(os.Stderr, "nothing to do")
		os.Exit(2)
	}
	s := sites[*apply]
	s.apply()
	var buf bytes.Buffer
	if err := format.Node(&buf, fset, parsed[s.file]); err != nil {
		fmt.Fprintln(os.Stderr, err)
		os.Exit(2)
	}
	if err := os.WriteFile(filepath.Join(*out, filepath.Base(s.file)), buf.Bytes(), 0o644); err != nil {
		fmt.Fprintln(os.Stderr, err)
		os.Exit(2)
	}
	fmt.Printf("%d %s:%d %s %s\n", *apply, filepath.Base(s.file), s.line, s.op, s.detail)
}

var relSwap = map[token.Token]token.Token{token.LSS: token.LEQ, token.LEQ: token.LSS, token.GTR: token.GEQ, token.GEQ: token.GTR, token.EQL: token.NEQ, token.NEQ: token.EQL}
var relFlip = map[token.Token]token.Token{token.LSS: token.GTR, token.GTR: token.LSS, token.LEQ: token.GEQ, token.GEQ: token.LEQ}
var arith = map[token.Token]token.Token{token.ADD: token.SUB, token.SUB: token.ADD, token.MUL: token.QUO, token.QUO: token.MUL, token.LAND: token.LOR, token.LOR: token.LAND}

func sitesOf(fset *token.FileSet, file string, af *ast.File) []site {
	var out []site
	add := func(n ast.Node, op, detail string, apply func()) {
		out = append(out, site{file: file, line: fset.Position(n.Pos()).Line, op: op, detail: detail, apply: apply})
	}
	// statement deletion needs the containing list
	var visitList func(list []ast.Stmt, set func(i int, s ast.Stmt))
	visitList = func(list []ast.Stmt, set func(i int, s ast.Stmt)) {
		for i, st := range list {
			i, st := i, st
			switch x := st.(type) {
			case *ast.ExprStmt:
				if call, ok := x.X.(*ast.CallExpr); ok {
					add(st, "del-call", exprShort(fset, call.Fun), func() { set(i, &ast.EmptyStmt{Semicolon: st.Pos(), Implicit: false}) })
				}
			case *ast.AssignStmt:
				if x.Tok != token.DEFINE {
					add(st, "del-assign", exprShort(fset, x.Lhs[0]), func() { set(i, &ast.EmptyStmt{Semicolon: st.Pos()}) })
				}
			case *ast.IncDecStmt:
				add(st, "del-incdec", exprShort(fset, x.X), func() { set(i, &ast.EmptyStmt{Semicolon: st.Pos()}) })
			case *ast.DeferStmt:
				add(st, "del-defer", exprShort(fset, x.Call.Fun), func() { set(i, &ast.EmptyStmt{Semicolon: st.Pos()}) })
			case *ast.BranchStmt:
				if x.Label == nil && x.Tok == token.CONTINUE {
					add(st, "continue->break", "", func() { x.Tok = token.BREAK })
				}
				if x.Label == nil && x.Tok == token.BREAK {
					add(st, "break->continue", "", func() { x.Tok = token.CONTINUE })
				}
			}
		}
	}
	ast.Inspect(af, func(n ast.Node) bool {
		switch x := n.(type) {
		case *ast.GenDecl:
			if x.Tok == token.IMPORT {
				return false
			}
		case *ast.BlockStmt:
			visitList(x.List, func(i int, s ast.Stmt) { x.List[i] = s })
		case *ast.CaseClause:
			visitList(x.Body, func(i int, s ast.Stmt) { x.Body[i] = s })
		case *ast.CommClause:
			visitList(x.Body, func(i int, s ast.Stmt) { x.Body[i] = s })
		case *ast.BinaryExpr:
			if t, ok := relSwap[x.Op]; ok {
				old := x.Op
				add(x, "rel", old.String()+"->"+t.String(), func() { x.Op = t })
			}
			if t, ok := relFlip[x.Op]; ok {
				old := x.Op
				add(x, "relflip", old.String()+"->"+t.String(), func() { x.Op = t })
			}
			if t, ok := arith[x.Op]; ok {
				// string concatenation in messages is not interesting
				if bl, isLit := x.X.(*ast.BasicLit); isLit && bl.Kind == token.STRING {
					return true
				}
				if bl, isLit := x.Y.(*ast.BasicLit); isLit && bl.Kind == token.STRING {
					return true
				}
				old := x.Op
				add(x, "arith", old.String()+"->"+t.String(), func() { x.Op = t })
			}
		case *ast.IfStmt:
			add(x, "negate-if", exprShort(fset, x.Cond), func() { x.Cond = &ast.UnaryExpr{Op: token.NOT, X: &ast.ParenExpr{X: x.Cond}} })
		case *ast.BasicLit:
			if x.Kind == token.INT {
				switch x.Value {
				case "0":
					add(x, "lit", "0->1", func() { x.Value = "1" })
				case "1":
					add(x, "lit", "1->0", func() { x.Value = "0" })
					add(x, "lit", "1->2", func() { x.Value = "2" })
				}
			}
		case *ast.AssignStmt:
			switch x.Tok {
			case token.ADD_ASSIGN:
				add(x, "opassign", "+=->-=", func() { x.Tok = token.SUB_ASSIGN })
			case token.SUB_ASSIGN:
				add(x, "opassign", "-=->+=", func() { x.Tok = token.ADD_ASSIGN })
			}
		case *ast.UnaryExpr:
			if x.Op == token.NOT {
				add(x, "drop-not", exprShort(fset, x.X), func() { x.Op = token.ADD; *x = ast.UnaryExpr{OpPos: x.OpPos, Op: token.NOT, X: &ast.UnaryExpr{Op: token.NOT, X: x.X}} })
			}
		case *ast.ReturnStmt:
			// return …, nil  →  unchanged; return …, err → return …, nil  (swallowed error)
			if len(x.Results) >= 1 {
				last := x.Results[len(x.Results)-1]
				if id, ok := last.(*ast.Ident); ok && id.Name == "err" {
					add(x, "swallow-err", "", func() { x.Results[len(x.Results)-1] = ast.NewIdent("nil") })
				}
			}
		}
		return true
	})
	return out
}

func exprShort(fset *token.FileSet, e ast.Expr) string {
	var b bytes.Buffer
	format.Node(&b, fset, e)
	s := strings.Join(strings.Fields(b.String()), " ")
	if len(s) > 60 {
		s = s[:60]
	}
	return s
}

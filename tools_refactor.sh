#!/bin/bash
# usage: tools_refactor.sh <dir-with-N.diff>  — applies each behaviour-preserving refactoring to a scratch copy and runs ALL checks; any alarm is a false alarm
set -u
for f in $(ls "$1"/*.diff | sort -V); do
  S=$(mktemp -d /tmp/refrunXXXXXX)
  rsync -a --exclude .git /repo/ $S/repo/
  mkdir -p $S/verif; cp /verif/KNOWN_FINDINGS.jsonl $S/verif/
  if ! (cd $S/repo && patch -p1 -s --no-backup-if-mismatch < "$f" >/dev/null 2>&1); then echo "$(basename $f): PATCH DOES NOT APPLY"; rm -rf $S; continue; fi
  /verif/bin/cometlint -prop all -repo $S/repo -verif $S/verif > $S/out.txt 2>&1
  n=$(grep -cE "^(VIOLATION|UNDECIDED|UNRESOLVED|FLOOR) C" $S/out.txt)
  echo "$(basename $(dirname $f))/$(basename $f): $n alarms"
  grep -E "^(VIOLATION|UNDECIDED|UNRESOLVED|FLOOR|LOAD-FAILURE) " $S/out.txt | grep -v "^VIOLATION property" | cut -c1-260 | sort -u | head -8
  rm -rf $S
done

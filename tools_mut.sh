#!/bin/bash
# usage: tools_mut.sh <props> <file> <perl-substitution> [more file/subst pairs]
# Applies a textual mutation to a scratch copy of /repo, checks it compiles, runs the checker on the copy.
set -u
PROPS="$1"; shift
S=$(mktemp -d /tmp/mutXXXXXX)
rsync -a --exclude .git /repo/ $S/repo/
mkdir -p $S/verif
cp /verif/KNOWN_FINDINGS.jsonl $S/verif/ 2>/dev/null
while [ $# -ge 2 ]; do
  f="$1"; e="$2"; shift 2
  before=$(md5sum $S/repo/$f)
  perl -0pi -e "$e" $S/repo/$f
  after=$(md5sum $S/repo/$f)
  if [ "$before" = "$after" ]; then echo "MUTATION DID NOT APPLY: $f $e"; rm -rf $S; exit 3; fi
done
( cd $S/repo && diff -ru /repo . -x .git | grep -E '^[+-]' | grep -vE '^(\+\+\+|---)' | head -20 )
( cd $S/repo && GOFLAGS=-mod=mod GOPROXY=off go build ./... 2>&1 | head -5 ) 
/verif/bin/cometlint -prop "$PROPS" -repo $S/repo -verif $S/verif 2>&1 | grep -vE "^VIOLATION property" | cut -c1-300
rm -rf $S

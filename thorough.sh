#!/bin/bash
# thorough tier: the property's rules on the default build, then again under -tags verif and GOARCH=386
# (covers build-tagged files), then the seeded-mutant self-validation for the property (selftest.sh).
set -u
cd "$(dirname "$0")"
export PATH=/opt/veriftools/go1.26.8/bin:$PATH
export GOFLAGS=-mod=mod GOPROXY=off GOSUMDB=off GOTOOLCHAIN=local GOWORK=off
PROP="$1"
REPO="${VERIF_REPO:-/repo}"
rc=0
# extra configurations first (their evidence is overwritten by the final default-configuration run)
GOARCH=386 ./bin/cometlint -prop "$PROP" -tier thorough -repo "$REPO" -verif "$(pwd)" > /tmp/cometlint.$$.386 2>&1 || rc=1
grep -E "^(VIOLATION|KNOWN-FINDING|UNDECIDED|UNRESOLVED|FLOOR)" /tmp/cometlint.$$.386 | sed 's/^/[GOARCH=386] /'
./bin/cometlint -prop "$PROP" -tier thorough -tags verif -repo "$REPO" -verif "$(pwd)" > /tmp/cometlint.$$.tags 2>&1 || rc=1
grep -E "^(VIOLATION|KNOWN-FINDING|UNDECIDED|UNRESOLVED|FLOOR)" /tmp/cometlint.$$.tags | sed 's/^/[tags=verif] /'
rm -f /tmp/cometlint.$$.386 /tmp/cometlint.$$.tags
if [ -x ./selftest.sh ]; then
  # informational: the outcome is recorded in the evidence (seeded_selftest); it never decides the property, because on a
  # tree that was edited since the seeds were archived a seed may apply and mean something else
  ./selftest.sh "$PROP" > /tmp/selftest.$$ 2>&1 || true
  cat /tmp/selftest.$$
  export VERIF_SELFTEST_SUMMARY="$(tail -1 /tmp/selftest.$$)"
  rm -f /tmp/selftest.$$
fi
./bin/cometlint -prop "$PROP" -tier thorough -repo "$REPO" -verif "$(pwd)" || rc=1
exit $rc

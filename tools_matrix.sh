#!/bin/bash
# Runs every property check against every archived seeded defect (scratch copies of /repo) and writes seeded/MATRIX.json:
# seed -> list of properties whose check reports a violation that is not a known finding.
set -u
cd /verif
OUT=/verif/seeded/MATRIX.json
WORKERS=${WORKERS:-8}
RES=$(mktemp -d /tmp/matrixresXXXXXX)
one() {
  d=$1; RES=$2
  id=$(basename $d)
  S=$(mktemp -d /tmp/matrixXXXXXX)
  rsync -a --exclude .git /repo/ $S/repo/
  mkdir -p $S/verif; cp /verif/KNOWN_FINDINGS.jsonl $S/verif/
  if ! (cd $S/repo && patch -p1 -s --no-backup-if-mismatch < /verif/$d/patch.diff >/dev/null 2>&1); then
    res='"PATCH-DOES-NOT-APPLY"'
  else
    /verif/bin/cometlint -prop all -repo $S/repo -verif $S/verif > $S/out.txt 2>&1
    props=$(grep -oE "^VIOLATION property=C[0-9]+" $S/out.txt | sed 's/VIOLATION property=//' | sort -u | paste -sd, | sed 's/\([^,]*\)/"\1"/g')
    rules=$(grep -E "^(VIOLATION|UNDECIDED|UNRESOLVED|FLOOR) C" $S/out.txt | awk '{print $2}' | cut -d: -f1 | sort -u | paste -sd, | sed 's/\([^,]*\)/"\1"/g')
    res="{\"properties\":[${props}],\"rules\":[${rules}]}"
  fi
  printf ' "%s": %s' "$id" "$res" > $RES/$id
  rm -rf $S
}
export -f one
ls -d seeded/C*-*/ | xargs -P $WORKERS -I{} bash -c 'one {} '$RES
echo "{" > $OUT.tmp
first=1
for f in $(ls $RES | sort -V); do
  [ $first -eq 1 ] || echo "," >> $OUT.tmp
  first=0
  cat $RES/$f >> $OUT.tmp
done
rm -rf $RES
echo "" >> $OUT.tmp; echo "}" >> $OUT.tmp
mv $OUT.tmp $OUT
python3 - <<'PY'
import json
m=json.load(open('/verif/seeded/MATRIX.json'))
miss=[k for k,v in m.items() if isinstance(v,dict) and k.split('-')[0] not in v['properties']]
na=[k for k,v in m.items() if not isinstance(v,dict)]
print(len(m),"seeds;", "own-property check misses:", miss, "; not applicable:", na)
PY

// Copyright 2023 The Go Authors. All rights reserved.
// Use of this source code is governed by a BSD-style
// license that can be found in the LICENSE file.

// Package moremaps contains more functions for working with maps.
package moremaps

import (
	"cmp"
	"iter"
	"maps"
	"slices"
)

// Arbitrary returns an arbitrary (key, value) entry from the map and ok is true, if
// the map is not empty. Otherwise, it returns zero values for K and V, and false.
func Arbitrary[K comparable, V any](m map[K]V) (_ K, _ V, ok bool) {
	for k, v := range m {
		return k, v, true
	}
	return
}

// Group returns a new non-nil map containing the elements of s grouped by the
// keys returned from the key func.
func Group[K comparable, V any](s []V, key func(V) K) map[K][]V {
	m := make(map[K][]V)
	for _, v := range s {
		k := key(v)
		m[k] = append(m[k], v)
	}
	return m
}

// KeySlice returns the keys of the map M, like slices.Collect(maps.Keys(m)).
func KeySlice[M ~map[K]V, K comparable, V any](m M) []K {
	r := make([]K, 0, len(m))
	for k := range m {
		r = append(r, k)
	}
	return r
}

// ValueSlice returns the values of the map M, like slices.Collect(maps.Values(m)).
func ValueSlice[M ~map[K]V, K comparable, V any](m M) []V {
	r := make([]V, 0, len(m))
	for _, v := range m {
		r = append(r, v)
	}
	return r
}

// SameKeys reports whether x and y have equal sets of keys.
func SameKeys[K comparable, V1, V2 any](x map[K]V1, y map[K]V2) bool {
	ignoreValues := func(V1, V2) bool { return true }
	return maps.EqualFunc(x, y, ignoreValues)
}

// Sorted returns an iterator over the entries of m in key order.
func Sorted[M ~map[K]V, K cmp.Ordered, V any](m M) iter.Seq2[K, V] {
	// TODO(adonovan): use maps.Sorted if proposal #68598 is accepted.
	return func(yield func(K, V) bool) {
		keys := KeySlice(m)
		slices.Sort(keys)
		for _, k := range keys {
			if !yield(k, m[k]) {
				break
			}
		}
	}
}

// SortedFunc returns an iterator over the entries of m in the key order determined by cmp.
func SortedFunc[M ~map[K]V, K comparable, V any](m M, cmp func(x, y K) int) iter.Seq2[K, V] {
	// TODO(adonovan): use maps.SortedFunc if proposal #68598 is accepted.
	return func(yield func(K, V) bool) {
		keys := KeySlice(m)
		slices.SortFunc(keys, cmp)
		for _, k := range keys {
			if !yield(k, m[k]) {
				break
			}
		}
	}
}

// Delete is like delete(m, k) but reports whether deletion occurred.
func Delete[M ~map[K]V, K comparable, V any](m M, k K) bool {
	pre := len(m)
	delete(m, k)
	return pre != len(m)
}

// Entry is a key-value pair obtained from a map.
type Entry[K comparable, V any] struct {
	Key   K
	Value V
}

// Entries returns a new unordered array of the entries of a map.
func Entries[M ~map[K]V, K comparable, V any](m M) []Entry[K, V] {
	entries := make([]Entry[K, V], 0, len(m))
	for k, v := range m {
		entries = append(entries, Entry[K, V]{k, v})
	}
	return entries
}

// FromEntries returns a new map into which the entries have been inserted in order.
func FromEntries[K comparable, V any](entries []Entry[K, V]) map[K]V {
	m := make(map[K]V, len(entries))
	for _, e := range entries {
		m[e.Key] = e.Value
	}
	return m
}

// Copyright 2025 The Go Authors. All rights reserved.
// Use of this source code is governed by a BSD-style
// license that can be found in the LICENSE file.

package refactor

// This file defines operations for computing deletion edits.

import (
	"fmt"
	"go/ast"
	"go/token"
	"go/types"
	"slices"

	"golang.org/x/tools/go/ast/edge"
	"golang.org/x/tools/go/ast/inspector"
	"cometlint/xt/astutil"
	"cometlint/xt/typesinternal"
	"cometlint/xt/typesinternal/typeindex"
)

// DeleteVar returns edits to delete the declaration of a variable or
// constant whose defining identifier is curId.
//
// It handles variants including:
// - GenDecl > ValueSpec versus AssignStmt;
// - RHS expression has effects, or not;
// - entire statement/declaration may be eliminated;
// and removes associated comments.
//
// If it cannot make the necessary edits, such as for a function
// parameter or result, it returns nil.
func DeleteVar(tokFile *token.File, info *types.Info, curId inspector.Cursor) []Edit {
	switch curId.ParentEdgeKind() {
	case edge.ValueSpec_Names:
		return deleteVarFromValueSpec(tokFile, info, curId)

	case edge.AssignStmt_Lhs:
		return deleteVarFromAssignStmt(tokFile, info, curId)
	}

	// e.g. function receiver, parameter, or result,
	// or "switch v := expr.(T) {}" (which has no object).
	return nil
}

// deleteVarFromValueSpec returns edits to delete the declaration of a
// variable or constant within a ValueSpec.
//
// Precondition: curId is Ident beneath ValueSpec.Names beneath GenDecl.
//
// See also [deleteVarFromAssignStmt], which has parallel structure.
func deleteVarFromValueSpec(tokFile *token.File, info *types.Info, curIdent inspector.Cursor) []Edit {
	var (
		id      = curIdent.Node().(*ast.Ident)
		curSpec = curIdent.Parent()
		spec    = curSpec.Node().(*ast.ValueSpec)
	)

	declaresOtherNames := slices.ContainsFunc(spec.Names, func(name *ast.Ident) bool {
		return name != id && name.Name != "_"
	})
	noRHSEffects := !slices.ContainsFunc(spec.Values, func(rhs ast.Expr) bool {
		return !typesinternal.NoEffects(info, rhs)
	})
	if !declaresOtherNames && noRHSEffects {
		// The spec is no longer needed, either to declare
		// other variables, or for its side effects.
		return DeleteSpec(tokFile, curSpec)
	}

	// The spec is still needed, either for
	// at least one LHS, or for effects on RHS.
	// Blank out or delete just one LHS.

	index := curIdent.ParentEdgeIndex() // index of LHS within ValueSpec.Names

	// If there is no RHS, we can delete the LHS.
	if len(spec.Values) == 0 {
		var pos, end token.Pos
		if index == len(spec.Names)-1 {
			// Delete final name.
			//
			// var _, lhs1 T
			//      ------
			pos = spec.Names[index-1].End()
			end = spec.Names[index].End()
		} else {
			// Delete non-final name.
			//
			// var lhs0, _ T
			//     ------
			pos = spec.Names[index].Pos()
			end = spec.Names[index+1].Pos()
		}
		return []Edit{{
			Pos: pos,
			End: end,
		}}
	}

	// If the assignment is n:n and the RHS has no effects,
	// we can delete the LHS and its corresponding RHS.
	if len(spec.Names) == len(spec.Values) &&
		typesinternal.NoEffects(info, spec.Values[index]) {

		if index == len(spec.Names)-1 {
			// Delete final items.
			//
			// var _, lhs1 = rhs0, rhs1
			//      ------       ------
			return []Edit{
				{
					Pos: spec.Names[index-1].End(),
					End: spec.Names[index].End(),
				},
				{
					Pos: spec.Values[index-1].End(),
					End: spec.Values[index].End(),
				},
			}
		} else {
			// Delete non-final items.
			//
			// var lhs0, _ = rhs0, rhs1
			//     ------    ------
			return []Edit{
				{
					Pos: spec.Names[index].Pos(),
					End: spec.Names[index+1].Pos(),
				},
				{
					Pos: spec.Values[index].Pos(),
					End: spec.Values[index+1].Pos(),
				},
			}
		}
	}

	// We cannot delete the RHS.
	// Blank out the LHS.
	return []Edit{{
		Pos:     id.Pos(),
		End:     id.End(),
		NewText: []byte("_"),
	}}
}

// Precondition: curId is Ident beneath AssignStmt.Lhs.
//
// See also [deleteVarFromValueSpec], which has parallel structure.
func deleteVarFromAssignStmt(tokFile *token.File, info *types.Info, curIdent inspector.Cursor) []Edit {
	var (
		id      = curIdent.Node().(*ast.Ident)
		curStmt = curIdent.Parent()
		assign  = curStmt.Node().(*ast.AssignStmt)
	)

	declaresOtherNames := slices.ContainsFunc(assign.Lhs, func(lhs ast.Expr) bool {
		lhsId, ok := lhs.(*ast.Ident)
		return ok && lhsId != id && lhsId.Name != "_"
	})
	noRHSEffects := !slices.ContainsFunc(assign.Rhs, func(rhs ast.Expr) bool {
		return !typesinternal.NoEffects(info, rhs)
	})
	if !declaresOtherNames && noRHSEffects {
		// The assignment is no longer needed, either to
		// declare other variables, or for its side effects.
		if edits := DeleteStmt(tokFile, curStmt); edits != nil {
			return edits
		}
		// Statement could not not be deleted in this context.
		// Fall back to conservative deletion.
	}

	// The assign is still needed, either for
	// at least one LHS, or for effects on RHS,
	// or because it cannot deleted because of its context.
	// Blank out or delete just one LHS.

	// If the assignment is 1:1 and the RHS has no effects,
	// we can delete the LHS and its corresponding RHS.
	index := curIdent.ParentEdgeIndex()
	if len(assign.Lhs) > 1 &&
		len(assign.Lhs) == len(assign.Rhs) &&
		typesinternal.NoEffects(info, assign.Rhs[index]) {

		if index == len(assign.Lhs)-1 {
			// Delete final items.
			//
			// _, lhs1 := rhs0, rhs1
			//  ------        ------
			return []Edit{
				{
					Pos: assign.Lhs[index-1].End(),
					End: assign.Lhs[index].End(),
				},
				{
					Pos: assign.Rhs[index-1].End(),
					End: assign.Rhs[index].End(),
				},
			}
		} else {
			// Delete non-final items.
			//
			// lhs0, _ := rhs0, rhs1
			// ------     ------
			return []Edit{
				{
					Pos: assign.Lhs[index].Pos(),
					End: assign.Lhs[index+1].Pos(),
				},
				{
					Pos: assign.Rhs[index].Pos(),
					End: assign.Rhs[index+1].Pos(),
				},
			}
		}
	}

	// We cannot delete the RHS.
	// Blank out the LHS.
	edits := []Edit{{
		Pos:     id.Pos(),
		End:     id.End(),
		NewText: []byte("_"),
	}}

	// If this eliminates the final variable declared by
	// an := statement, we need to turn it into an =
	// assignment to avoid a "no new variables on left
	// side of :=" error.
	if !declaresOtherNames {
		edits = append(edits, Edit{
			Pos:     assign.TokPos,
			End:     assign.TokPos + token.Pos(len(":=")),
			NewText: []byte("="),
		})
	}

	return edits
}

// DeleteSpec returns edits to delete the {Type,Value}Spec identified by curSpec.
//
// TODO(adonovan): add test suite. Test for consts as well.
func DeleteSpec(tokFile *token.File, curSpec inspector.Cursor) []Edit {
	var (
		spec    = curSpec.Node().(ast.Spec)
		curDecl = curSpec.Parent()
		decl    = curDecl.Node().(*ast.GenDecl)
	)

	// If it is the sole spec in the decl,
	// delete the entire decl.
	if len(decl.Specs) == 1 {
		return DeleteDecl(tokFile, curDecl)
	}

	// Delete the spec and its comments.
	index := curSpec.ParentEdgeIndex() // index of ValueSpec within GenDecl.Specs
	pos, end := spec.Pos(), spec.End()
	if doc := astutil.DocComment(spec); doc != nil {
		pos = doc.Pos() // leading comment
	}
	if index == len(decl.Specs)-1 {
		// Delete final spec.
		if c := eolComment(spec); c != nil {
			//  var (v int // comment \n)
			end = c.End()
		}
	} else {
		// Delete non-final spec.
		//   var ( a T; b T )
		//         -----
		end = decl.Specs[index+1].Pos()
	}
	return []Edit{{
		Pos: pos,
		End: end,
	}}
}

// DeleteDecl returns edits to delete the ast.Decl identified by curDecl.
//
// TODO(adonovan): add test suite.
func DeleteDecl(tokFile *token.File, curDecl inspector.Cursor) []Edit {
	decl := curDecl.Node().(ast.Decl)

	ek := curDecl.ParentEdgeKind()
	switch ek {
	case edge.DeclStmt_Decl:
		return DeleteStmt(tokFile, curDecl.Parent())

	case edge.File_Decls:
		pos, end := decl.Pos(), decl.End()
		if doc := astutil.DocComment(decl); doc != nil {
			pos = doc.Pos()
		}

		// Delete free-floating comments on same line as rparen.
		//    var (...) // comment
		var (
			file        = curDecl.Parent().Node().(*ast.File)
			lineOf      = tokFile.Line
			declEndLine = lineOf(decl.End())
		)
		for _, cg := range file.Comments {
			for _, c := range cg.List {
				if c.Pos() < end {
					continue // too early
				}
				commentEndLine := lineOf(c.End())
				if commentEndLine > declEndLine {
					break // too late
				} else if lineOf(c.Pos()) == declEndLine && commentEndLine == declEndLine {
					end = c.End()
				}
			}
		}

		return []Edit{{
			Pos: pos,
			End: end,
		}}

	default:
		panic(fmt.Sprintf("Decl parent is %v, want DeclStmt or File", ek))
	}
}

// find leftmost Pos bigger than start and rightmost less than end
func filterPos(nds []*ast.Comment, start, end token.Pos) (token.Pos, token.Pos, bool) {
	l, r := end, token.NoPos
	ok := false
	for _, n := range nds {
		if n.Pos() > start && n.Pos() < l {
			l = n.Pos()
			ok = true
		}
		if n.End() <= end && n.End() > r {
			r = n.End()
			ok = true
		}
	}
	return l, r, ok
}

// DeleteStmt returns the edits to remove the [ast.Stmt] identified by
// curStmt if it recognizes the context. It returns nil otherwise.
// TODO(pjw, adonovan): it should not return nil, it should return an error
//
// DeleteStmt is called with just the AST so it has trouble deciding if
// a comment is associated with the statement to be deleted. For instance,
//
//	for /*A*/ init()/*B*/;/*C/cond()/*D/;/*E*/post() /*F*/ { /*G*/}
//
// comment B and C are indistinguishable, as are D and E. That is, as the
// AST does not say where the semicolons are, B and C could go either
// with the init() or the cond(), so cannot be removed safely. The same
// is true for D, E, and the post(). (And there are other similar cases.)
// But the other comments can be removed as they are unambiguously
// associated with the statement being deleted. In particular,
// it removes whole lines like
//
//	stmt // comment
func DeleteStmt(file *token.File, curStmt inspector.Cursor) []Edit {
	// if the stmt is on a line by itself, or a range of lines, delete the whole thing
	// including comments. Except for the heads of switches, type
	// switches, and for-statements that's the usual case. Complexity occurs where
	// there are multiple statements on the same line, and adjacent comments.

	// In that case we remove some adjacent comments:
	// In me()/*A*/;b(), comment A cannot be removed, because the ast
	// is indistinguishable from me();/*A*/b()
	// and the same for cases like switch me()/*A*/; x.(type) {

	// this would be more precise with the file contents, or if the ast
	// contained the location of semicolons
	var (
		stmt          = curStmt.Node().(ast.Stmt)
		tokFile       = file
		lineOf        = tokFile.Line
		stmtStartLine = lineOf(stmt.Pos())
		stmtEndLine   = lineOf(stmt.End())

		leftSyntax, rightSyntax     token.Pos      // pieces of parent node on stmt{Start,End}Line
		leftComments, rightComments []*ast.Comment // comments before/after stmt on the same line
	)

	// remember the Pos that are on the same line as stmt
	use := func(left, right token.Pos) {
		if lineOf(left) == stmtStartLine {
			leftSyntax = left
		}
		if lineOf(right) == stmtEndLine {
			rightSyntax = right
		}
	}

	// find the comments, if any, on the same line
Big:
	for _, cg := range astutil.EnclosingFile(curStmt).Comments {
		for _, co := range cg.List {
			if lineOf(co.End()) < stmtStartLine {
				continue
			} else if lineOf(co.Pos()) > stmtEndLine {
				break Big // no more are possible
			}
			if lineOf(co.End()) == stmtStartLine && co.End() <= stmt.Pos() {
				// comment is before the statement
				leftComments = append(leftComments, co)
			} else if lineOf(co.Pos()) == stmtEndLine && co.Pos() >= stmt.End() {
				// comment is after the statement
				rightComments = append(rightComments, co)
			}
		}
	}

	// find any other syntax on the same line
	var (
		leftStmt, rightStmt token.Pos // end/start positions of sibling statements in a []Stmt list
		inStmtList          = false
		curParent           = curStmt.Parent()
	)
	switch parent := curParent.Node().(type) {
	case *ast.BlockStmt:
		use(parent.Lbrace, parent.Rbrace)
		inStmtList = true
	case *ast.CaseClause:
		use(parent.Colon, curStmt.Parent().Parent().Node().(*ast.BlockStmt).Rbrace)
		inStmtList = true
	case *ast.CommClause:
		if parent.Comm == stmt {
			return nil // maybe the user meant to remove the entire CommClause?
		}
		use(parent.Colon, curStmt.Parent().Parent().Node().(*ast.BlockStmt).Rbrace)
		inStmtList = true
	case *ast.ForStmt:
		use(parent.For, parent.Body.Lbrace)
		// special handling, as init;cond;post BlockStmt is not a statement list
		if parent.Init != nil && parent.Cond != nil && stmt == parent.Init && lineOf(parent.Cond.Pos()) == lineOf(stmt.End()) {
			rightStmt = parent.Cond.Pos()
		} else if parent.Post != nil && parent.Cond != nil && stmt == parent.Post && lineOf(parent.Cond.End()) == lineOf(stmt.Pos()) {
			leftStmt = parent.Cond.End()
		}
	case *ast.IfStmt:
		switch stmt {
		case parent.Init:
			use(parent.If, parent.Body.Lbrace)
		case parent.Else:
			// stmt is the {...} in "if cond {} else {...}" and removing
			// it would require removing the 'else' keyword, but the ast
			// does not contain its position.
			return nil
		}
	case *ast.SwitchStmt:
		use(parent.Switch, parent.Body.Lbrace)
	case *ast.TypeSwitchStmt:
		if stmt == parent.Assign {
			return nil // don't remove .(type)
		}
		use(parent.Switch, parent.Body.Lbrace)
	default:
		return nil // not one of ours
	}

	if inStmtList {
		// find the siblings, if any, on the same line
		if prev, found := curStmt.PrevSibling(); found && lineOf(prev.Node().End()) == stmtStartLine {
			if _, ok := prev.Node().(ast.Stmt); ok {
				leftStmt = prev.Node().End() // preceding statement ends on same line
			}
		}
		if next, found := curStmt.NextSibling(); found && lineOf(next.Node().Pos()) == stmtEndLine {
			rightStmt = next.Node().Pos() // following statement begins on same line
		}
	}

	// compute the left and right limits of the edit
	var leftEdit, rightEdit token.Pos
	if leftStmt.IsValid() {
		leftEdit = stmt.Pos() // can't remove preceding comments: a()/*A*/; me()
	} else if leftSyntax.IsValid() {
		// remove intervening leftComments
		if a, _, ok := filterPos(leftComments, leftSyntax, stmt.Pos()); ok {
			leftEdit = a
		} else {
			leftEdit = stmt.Pos()
		}
	} else { // remove whole line
		for leftEdit = stmt.Pos(); lineOf(leftEdit) == stmtStartLine; leftEdit-- {
		}
		if leftEdit < stmt.Pos() {
			leftEdit++ // beginning of line
		}
	}
	if rightStmt.IsValid() {
		rightEdit = stmt.End() // can't remove following comments
	} else if rightSyntax.IsValid() {
		// remove intervening rightComments
		if _, b, ok := filterPos(rightComments, stmt.End(), rightSyntax); ok {
			rightEdit = b
		} else {
			rightEdit = stmt.End()
		}
	} else { // remove whole line
		fend := token.Pos(file.Base()) + token.Pos(file.Size())
		for rightEdit = stmt.End(); fend >= rightEdit && lineOf(rightEdit) == stmtEndLine; rightEdit++ {
		}
		// don't remove \n if there was other stuff earlier
		if leftSyntax.IsValid() || leftStmt.IsValid() {
			rightEdit--
		}
	}

	return []Edit{{Pos: leftEdit, End: rightEdit}}
}

// DeleteUnusedVars computes the edits required to delete the
// declarations of any local variables whose last uses are in the
// curDelend subtree, which is about to be deleted.
func DeleteUnusedVars(index *typeindex.Index, info *types.Info, tokFile *token.File, curDelend inspector.Cursor) []Edit {
	// TODO(adonovan): we might want to generalize this by
	// splitting the two phases below, so that we can gather
	// across a whole sequence of deletions then finally compute the
	// set of variables that are no longer wanted.

	// Count number of deletions of each var.
	delcount := make(map[*types.Var]int)
	for curId := range curDelend.Preorder((*ast.Ident)(nil)) {
		id := curId.Node().(*ast.Ident)
		if v, ok := info.Uses[id].(*types.Var); ok &&
			typesinternal.GetVarKind(v) == typesinternal.LocalVar { // always false before go1.25
			delcount[v]++
		}
	}

	// Delete declaration of each var that became unused.
	var edits []Edit
	for v, count := range delcount {
		if len(slices.Collect(index.Uses(v))) == count {
			if curDefId, ok := index.Def(v); ok {
				edits = append(edits, DeleteVar(tokFile, info, curDefId)...)
			}
		}
	}
	return edits
}

func eolComment(n ast.Node) *ast.CommentGroup {
	// TODO(adonovan): support:
	//    func f() {...} // comment
	switch n := n.(type) {
	case *ast.GenDecl:
		if !n.TokPos.IsValid() && len(n.Specs) == 1 {
			return eolComment(n.Specs[0])
		}
	case *ast.ValueSpec:
		return n.Comment
	case *ast.TypeSpec:
		return n.Comment
	}
	return nil
}

// Copyright 2025 The Go Authors. All rights reserved.
// Use of this source code is governed by a BSD-style
// license that can be found in the LICENSE file.p

package refactor

// This is the only file in this package that should import analysis.
//
// TODO(adonovan): consider unaliasing the type to break the
// dependency. (The ergonomics of slice append are unfortunate.)

import "golang.org/x/tools/go/analysis"

// An Edit describes a deletion and/or an insertion.
type Edit = analysis.TextEdit

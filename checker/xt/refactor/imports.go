// Copyright 2025 The Go Authors. All rights reserved.
// Use of this source code is governed by a BSD-style
// license that can be found in the LICENSE file.

package refactor

// This file defines operations for computing edits to imports.

import (
	"go/ast"
	"go/token"
	"go/types"
	pathpkg "path"
	"strconv"

	"cometlint/xt/packagepath"
)

// AddImport returns the prefix (either "pkg." or "") that should be
// used to qualify references to the desired symbol (member) imported
// from the specified package, plus any necessary edits to the file's
// import declaration to add a new import.
//
// If the import already exists, and is accessible at pos, AddImport
// returns the existing name and no edits. (If the existing import is
// a dot import, the prefix is "".)
//
// Otherwise, it adds a new import, using a local name derived from
// the preferred name. To request a blank import, use a preferredName
// of "_", and discard the prefix result; member is ignored in this
// case.
//
// AddImport accepts the caller's implicit claim that the imported
// package declares member.
//
// AddImport does not mutate its arguments.
func AddImport(info *types.Info, file *ast.File, preferredName, pkgpath, member string, pos token.Pos) (prefix string, edits []Edit) {
	// Find innermost enclosing lexical block.
	scope := info.Scopes[file].Innermost(pos)
	if scope == nil {
		panic("no enclosing lexical block")
	}

	// Is there an existing import of this package?
	// If so, are we in its scope? (not shadowed)
	for _, spec := range file.Imports {
		pkgname := info.PkgNameOf(spec)
		if pkgname != nil && pkgname.Imported().Path() == pkgpath {
			name := pkgname.Name()
			if preferredName == "_" {
				// Request for blank import; any existing import will do.
				return "", nil
			}
			if name == "." {
				// The scope of ident must be the file scope.
				if s, _ := scope.LookupParent(member, pos); s == info.Scopes[file] {
					return "", nil
				}
			} else if _, obj := scope.LookupParent(name, pos); obj == pkgname {
				return name + ".", nil
			}
		}
	}

	// We must add a new import.

	// Ensure we have a fresh name.
	newName := preferredName
	if preferredName != "_" {
		newName = FreshName(scope, pos, preferredName)
		prefix = newName + "."
	}

	// Use a renaming import whenever the preferred name is not
	// available, or the chosen name does not match the last
	// segment of its path.
	if newName == preferredName && newName == pathpkg.Base(pkgpath) {
		newName = ""
	}

	return prefix, AddImportEdits(file, newName, pkgpath)
}

// AddImportEdits returns the edits to add an import of the specified
// package, without any analysis of whether this is necessary or safe.
// If name is nonempty, it is used as an explicit [ImportSpec.Name].
//
// A sequence of calls to AddImportEdits that each add the file's
// first import (or in a file that does not have a grouped import) may
// result in multiple import declarations, rather than a single one
// with multiple ImportSpecs. However, a subsequent run of
// x/tools/cmd/goimports ([imports.Process]) will combine them.
//
// AddImportEdits does not mutate the AST.
func AddImportEdits(file *ast.File, name, pkgpath string) []Edit {
	newText := strconv.Quote(pkgpath)
	if name != "" {
		newText = name + " " + newText
	}

	// Create a new import declaration either before the first existing
	// declaration (if it exists), including its comments; or at the end of the
	// file (if there are no decls); or inside the declaration, if it is an
	// import group.
	var (
		before token.Pos
		decl0  ast.Decl
	)
	if len(file.Decls) > 0 {
		decl0 = file.Decls[0]
		before = decl0.Pos()
		switch decl0 := decl0.(type) {
		case *ast.GenDecl:
			if decl0.Doc != nil {
				before = decl0.Doc.Pos()
			}
		case *ast.FuncDecl:
			if decl0.Doc != nil {
				before = decl0.Doc.Pos()
			}
		}
	} else {
		before = file.FileEnd
	}
	var pos token.Pos
	if gd, ok := decl0.(*ast.GenDecl); ok && gd.Tok == token.IMPORT && gd.Rparen.IsValid() {
		// Have existing grouped import ( ... ) decl.
		if packagepath.MaybeStdPackage(pkgpath) && len(gd.Specs) > 0 {
			// Add spec for a std package before
			// first existing spec, followed by
			// a blank line if the next one is non-std.
			first := gd.Specs[0].(*ast.ImportSpec)
			pos = first.Pos()
			if !packagepath.MaybeStdPackage(first.Path.Value) {
				newText += "\n"
			}
			newText += "\n\t"
		} else {
			// Add spec at end of group.
			pos = gd.Rparen
			newText = "\t" + newText + "\n"
		}
	} else {
		// No import decl, or non-grouped import.
		// Add a new import decl before first decl.
		// (gofmt will merge multiple import decls.)
		//
		// TODO(adonovan): do better here; plunder the
		// mergeImports logic from [imports.Process].
		pos = before
		newText = "import " + newText + "\n\n"
	}
	return []Edit{{
		Pos:     pos,
		End:     pos,
		NewText: []byte(newText),
	}}
}

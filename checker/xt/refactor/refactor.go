// Copyright 2025 The Go Authors. All rights reserved.
// Use of this source code is governed by a BSD-style
// license that can be found in the LICENSE file.

// Package refactor provides operators to compute common textual edits
// for refactoring tools.
//
// This package should not use features of the analysis API other than [Edit].
package refactor

import (
	"fmt"
	"go/token"
	"go/types"
)

// FreshName returns the name of an identifier that is undefined
// at the specified position, based on the preferred name.
//
// export/use freshName in go/analysis/passes/modernize/modernize.go if you want
// to generate a fresh name only when necessary (i.e., there is both an existing
// declaration and some free reference to the name within a narrower scope)
func FreshName(scope *types.Scope, pos token.Pos, preferred string) string {
	newName := preferred
	for i := 0; ; i++ {
		if _, obj := scope.LookupParent(newName, pos); obj == nil {
			break // fresh
		}
		newName = fmt.Sprintf("%s%d", preferred, i)
	}
	return newName
}

// Copyright 2023 The Go Authors. All rights reserved.
// Use of this source code is governed by a BSD-style
// license that can be found in the LICENSE file.

package inline

import (
	"bytes"
	"fmt"
	"go/ast"
	"go/constant"
	"go/format"
	"go/parser"
	"go/token"
	"go/types"
	"maps"
	pathpkg "path"
	"reflect"
	"slices"
	"strings"

	"golang.org/x/tools/go/ast/astutil"
	"golang.org/x/tools/go/types/typeutil"
	internalastutil "cometlint/xt/astutil"
	"cometlint/xt/astutil/free"
	"cometlint/xt/packagepath"
	"cometlint/xt/refactor"
	"cometlint/xt/typeparams"
	"cometlint/xt/typesinternal"
	"cometlint/xt/versions"
)

// A Caller describes the function call and its enclosing context.
//
// The client is responsible for populating this struct and passing it to Inline.
type Caller struct {
	Fset  *token.FileSet
	Types *types.Package
	Info  *types.Info
	File  *ast.File
	Call  *ast.CallExpr

	// CountUses is an optional optimized computation of
	// the number of times pkgname appears in Info.Uses.
	CountUses func(pkgname *types.PkgName) int

	path          []ast.Node    // path from call to root of file syntax tree
	enclosingFunc *ast.FuncDecl // top-level function/method enclosing the call, if any
}

type logger = func(string, ...any)

// Options specifies parameters affecting the inliner algorithm.
// All fields are optional.
type Options struct {
	Logf          logger // log output function, records decision-making process
	IgnoreEffects bool   // ignore potential side effects of arguments (unsound)
	Recover       bool   // catch panics from inliner and report as errors (for ill-typed ASTs)
}

// Result holds the result of code transformation.
type Result struct {
	Edits       []refactor.Edit // edits around CallExpr and imports
	Literalized bool            // chosen strategy replaced callee() with func(){...}()
	BindingDecl bool            // transformation added "var params = args" declaration
}

// Inline inlines the called function (callee) into the function call (caller)
// and returns the updated, formatted content of the caller source file.
//
// Inline does not mutate any public fields of Caller or Callee.
func Inline(caller *Caller, callee *Callee, opts *Options) (res *Result, err error) {
	if opts == nil {
		opts = new(Options)
	} else {
		opts = new(*opts)
	}
	// Set default options.
	if opts.Logf == nil {
		opts.Logf = func(string, ...any) {}
	}
	if opts.Recover {
		defer func() {
			if x := recover(); x != nil {
				err = fmt.Errorf("inlining failed (%q), likely because inputs were ill-typed", x)
			}
		}()
	}

	st := &state{
		caller: caller,
		callee: callee,
		opts:   opts,
	}
	return st.inline()
}

// state holds the working state of the inliner.
type state struct {
	caller *Caller
	callee *Callee
	opts   *Options
}

func (st *state) inline() (*Result, error) {
	logf, caller, callee := st.opts.Logf, st.caller, st.callee

	logf("inline %s @ %v",
		debugFormatNode(caller.Fset, caller.Call),
		caller.Fset.PositionFor(caller.Call.Lparen, false))

	if ast.IsGenerated(caller.File) {
		return nil, fmt.Errorf("cannot inline calls from generated files")
	}

	res, err := st.inlineCall()
	if err != nil {
		return nil, err
	}

	// Replace the call (or some node that encloses it) by new syntax.
	assert(res.old != nil, "old is nil")
	assert(res.new != nil, "new is nil")

	// A single return operand inlined to a unary
	// expression context may need parens. Otherwise:
	//    func two() int { return 1+1 }
	//    print(-two())  =>  print(-1+1) // oops!
	//
	// Usually it is not necessary to insert ParenExprs
	// as the formatter is smart enough to insert them as
	// needed by the context. But the res.{old,new}
	// substitution is done by formatting res.new in isolation
	// and then splicing its text over res.old, so the
	// formatter doesn't see the parent node and cannot do
	// the right thing. (One solution would be to always
	// format the enclosing node of old, but that requires
	// non-lossy comment handling, #20744.)
	//
	// So, we must analyze the call's context
	// to see whether ambiguity is possible.
	// For example, if the context is x[y:z], then
	// the x subtree is subject to precedence ambiguity
	// (replacing x by p+q would give p+q[y:z] which is wrong)
	// but the y and z subtrees are safe.
	if new, ok := res.new.(ast.Expr); ok {
		parent := caller.path[slices.Index(caller.path, res.old)+1]
		res.new = internalastutil.MaybeParenthesize(parent, res.old.(ast.Expr), new)
	}

	// Some reduction strategies return a new block holding the
	// callee's statements. The block's braces may be elided when
	// there is no conflict between names declared in the block
	// with those declared by the parent block, and no risk of
	// a caller's goto jumping forward across a declaration.
	//
	// This elision is only safe when the ExprStmt is beneath a
	// BlockStmt, CaseClause.Body, or CommClause.Body;
	// (see "statement theory").
	//
	// The inlining analysis may have already determined that eliding braces is
	// safe. Otherwise, we analyze its safety here.
	elideBraces := res.elideBraces
	if !elideBraces {
		if newBlock, ok := res.new.(*ast.BlockStmt); ok {
			i := slices.Index(caller.path, res.old)
			parent := caller.path[i+1]
			var body []ast.Stmt
			switch parent := parent.(type) {
			case *ast.BlockStmt:
				body = parent.List
			case *ast.CommClause:
				body = parent.Body
			case *ast.CaseClause:
				body = parent.Body
			}
			if body != nil {
				callerNames := declares(body)

				// If BlockStmt is a function body,
				// include its receiver, params, and results.
				addFieldNames := func(fields *ast.FieldList) {
					if fields != nil {
						for _, field := range fields.List {
							for _, id := range field.Names {
								callerNames[id.Name] = true
							}
						}
					}
				}
				switch f := caller.path[i+2].(type) {
				case *ast.FuncDecl:
					addFieldNames(f.Recv)
					addFieldNames(f.Type.Params)
					addFieldNames(f.Type.Results)
				case *ast.FuncLit:
					addFieldNames(f.Type.Params)
					addFieldNames(f.Type.Results)
				}

				if len(callerLabels(caller.path)) > 0 {
					// TODO(adonovan): be more precise and reject
					// only forward gotos across the inlined block.
					logf("keeping block braces: caller uses control labels")
				} else if intersects(declares(newBlock.List), callerNames) {
					logf("keeping block braces: avoids name conflict")
				} else {
					elideBraces = true
				}
			}
		}
	}

	var edits []refactor.Edit

	// Format the cloned callee.
	{
		// TODO(adonovan): might it make more sense to use
		// callee.Fset when formatting res.new?
		// The new tree is a mix of (cloned) caller nodes for
		// the argument expressions and callee nodes for the
		// function body. In essence the question is: which
		// is more likely to have comments?
		// Usually the callee body will be larger and more
		// statement-heavy than the arguments, but a
		// strategy may widen the scope of the replacement
		// (res.old) from CallExpr to, say, its enclosing
		// block, so the caller nodes dominate.
		// Precise comment handling would make this a
		// non-issue. Formatting wouldn't really need a
		// FileSet at all.

		var out bytes.Buffer
		if elideBraces {
			for i, stmt := range res.new.(*ast.BlockStmt).List {
				if i > 0 {
					out.WriteByte('\n')
				}
				if err := format.Node(&out, caller.Fset, stmt); err != nil {
					return nil, err
				}
			}
		} else {
			if err := format.Node(&out, caller.Fset, res.new); err != nil {
				return nil, err
			}
		}

		edits = append(edits, refactor.Edit{
			Pos:     res.old.Pos(),
			End:     res.old.End(),
			NewText: out.Bytes(),
		})
	}

	// Add new imports.
	//
	// It's possible that not all are needed (e.g. for type names
	// that melted away), but we'll let the client (such as an
	// analysis driver) clean it up since it must remove unused
	// imports anyway.
	for _, imp := range res.newImports {
		// Check that the new imports are accessible.
		if !packagepath.CanImport(caller.Types.Path(), imp.path) {
			return nil, fmt.Errorf("can't inline function %v as its body refers to inaccessible package %q", callee, imp.path)
		}

		// We've already validated the import, so we call
		// AddImportEdits directly to compute the edit.
		name := ""
		if imp.explicit {
			name = imp.name
		}
		edits = append(edits, refactor.AddImportEdits(caller.File, name, imp.path)...)
	}

	literalized := false
	if call, ok := res.new.(*ast.CallExpr); ok && is[*ast.FuncLit](call.Fun) {
		literalized = true
	}

	// Delete imports referenced only by caller.Call.Fun.
	//
	// It's ambiguous to let the client (e.g. analysis driver)
	// remove unneeded imports in this case because it is common
	// to inlining a call from "dir1/a".F to "dir2/a".F, which
	// leaves two imports of packages named 'a', both providing a.F.
	//
	// However, the only two import deletion tools at our disposal
	// are astutil.DeleteNamedImport, which mutates the AST, and
	// refactor.Delete{Spec,Decl}, which need a Cursor. So we need
	// to reinvent the wheel here.
	for _, oldImport := range res.oldImports {
		spec := oldImport.spec

		// Include adjacent comments.
		pos := spec.Pos()
		if doc := spec.Doc; doc != nil {
			pos = doc.Pos()
		}
		end := spec.End()
		if doc := spec.Comment; doc != nil {
			end = doc.End()
		}

		// Find the enclosing import decl.
		// If it's paren-less, we must delete it too.
		for _, decl := range caller.File.Decls {
			decl, ok := decl.(*ast.GenDecl)
			if !(ok && decl.Tok == token.IMPORT) {
				break // stop at first non-import decl
			}
			if internalastutil.NodeContainsPos(decl, spec.Pos()) && !decl.Rparen.IsValid() {
				// Include adjacent comments.
				pos = decl.Pos()
				if doc := decl.Doc; doc != nil {
					pos = doc.Pos()
				}
				end = decl.End()
				break
			}
		}

		edits = append(edits, refactor.Edit{
			Pos: pos,
			End: end,
		})
	}

	return &Result{
		Edits:       edits,
		Literalized: literalized,
		BindingDecl: res.bindingDecl,
	}, nil
}

// An oldImport is an import that will be deleted from the caller file.
type oldImport struct {
	pkgName *types.PkgName
	spec    *ast.ImportSpec
}

// A newImport is an import that will be added to the caller file.
type newImport struct {
	name     string
	path     string
	explicit bool // use name as ImportSpec.Name
}

// importState tracks information about imports.
type importState struct {
	logf       func(string, ...any)
	caller     *Caller
	importMap  map[string][]string // from package paths in the caller's file to local names
	newImports []newImport         // for references to free names in callee; to be added to the file
	oldImports []oldImport         // referenced only by caller.Call.Fun; to be removed from the file
}

// newImportState returns an importState with initial information about the caller's imports.
func newImportState(logf func(string, ...any), caller *Caller, callee *gobCallee) *importState {
	// For simplicity we ignore existing dot imports, so that a qualified
	// identifier (QI) in the callee is always represented by a QI in the caller,
	// allowing us to treat a QI like a selection on a package name.
	ist := &importState{
		logf:      logf,
		caller:    caller,
		importMap: make(map[string][]string),
	}

	// Provide an inefficient default implementation of CountUses.
	// (Ideally clients amortize this for the entire package.)
	countUses := caller.CountUses
	if countUses == nil {
		uses := make(map[*types.PkgName]int)
		for _, obj := range caller.Info.Uses {
			if pkgname, ok := obj.(*types.PkgName); ok {
				uses[pkgname]++
			}
		}
		countUses = func(pkgname *types.PkgName) int {
			return uses[pkgname]
		}
	}

	for _, imp := range caller.File.Imports {
		if pkgName, ok := importedPkgName(caller.Info, imp); ok &&
			pkgName.Name() != "." &&
			pkgName.Name() != "_" {

			// If the import's sole use is in caller.Call.Fun of the form p.F(...),
			// where p.F is a qualified identifier, the p import may not be
			// necessary.
			//
			// Only the qualified identifier case matters, as other references to
			// imported package names in the Call.Fun expression (e.g.
			// x.after(3*time.Second).f() or time.Second.String()) will remain after
			// inlining, as arguments.
			//
			// If that is the case, proactively check if any of the callee FreeObjs
			// need this import. Doing so eagerly simplifies the resulting logic.
			needed := true
			if sel, ok := ast.Unparen(caller.Call.Fun).(*ast.SelectorExpr); ok &&
				is[*ast.Ident](sel.X) &&
				caller.Info.Uses[sel.X.(*ast.Ident)] == pkgName &&
				countUses(pkgName) == 1 {
				needed = false // no longer needed by caller
				// Check to see if any of the inlined free objects need this package.
				for _, obj := range callee.FreeObjs {
					if obj.PkgPath == pkgName.Imported().Path() && obj.Shadow[pkgName.Name()] == 0 {
						needed = true // needed by callee
						break
					}
				}
			}

			// Exclude imports not needed by the caller or callee after inlining; the second
			// return value holds these.
			if needed {
				path := pkgName.Imported().Path()
				ist.importMap[path] = append(ist.importMap[path], pkgName.Name())
			} else {
				ist.oldImports = append(ist.oldImports, oldImport{pkgName: pkgName, spec: imp})
			}
		}
	}
	return ist
}

// importName finds an existing import name to use in a particular shadowing
// context. It is used to determine the set of new imports in
// localName, and is also used for writing out names in inlining
// strategies below.
func (i *importState) importName(pkgPath string, shadow shadowMap) string {
	for _, name := range i.importMap[pkgPath] {
		// Check that either the import preexisted, or that it was newly added
		// (no PkgName) but is not shadowed, either in the callee (shadows) or
		// caller (caller.lookup).
		if shadow[name] == 0 {
			found := i.caller.lookup(name)
			if is[*types.PkgName](found) || found == nil {
				return name
			}
		}
	}
	return ""
}

// findNewLocalName returns a new local package name to use in a particular shadowing context.
// It considers the existing local name used by the callee, or construct a new local name
// based on the package name.
func (i *importState) findNewLocalName(pkgName, calleePkgName string, shadow shadowMap) string {
	newlyAdded := func(name string) bool {
		return slices.ContainsFunc(i.newImports, func(n newImport) bool { return n.name == name })
	}

	// shadowedInCaller reports whether a candidate package name
	// already refers to a declaration in the caller.
	shadowedInCaller := func(name string) bool {
		obj := i.caller.lookup(name)
		if obj == nil {
			return false
		}
		// If obj will be removed, the name is available.
		return !slices.ContainsFunc(i.oldImports, func(o oldImport) bool { return o.pkgName == obj })
	}

	// import added by callee
	//
	// Try to preserve the local package name used by the callee first.
	//
	// If that is shadowed, choose a local package name based on last segment of
	// package path plus, if needed, a numeric suffix to ensure uniqueness.
	//
	// "init" is not a legal PkgName.
	if shadow[calleePkgName] == 0 && !shadowedInCaller(calleePkgName) && !newlyAdded(calleePkgName) && calleePkgName != "init" {
		return calleePkgName
	}

	base := pkgName
	name := base
	for n := 0; shadow[name] != 0 || shadowedInCaller(name) || newlyAdded(name) || name == "init"; n++ {
		name = fmt.Sprintf("%s%d", base, n)
	}

	return name
}

// localName returns the local name for a given imported package path,
// adding one if it doesn't exists.
func (i *importState) localName(pkgPath, pkgName, calleePkgName string, shadow shadowMap) string {
	// Does an import already exist that works in this shadowing context?
	if name := i.importName(pkgPath, shadow); name != "" {
		return name
	}

	name := i.findNewLocalName(pkgName, calleePkgName, shadow)
	i.logf("adding import %s %q", name, pkgPath)
	// Use explicit pkgname (out of necessity) when it differs from the declared name,
	// or (for good style) when it differs from base(pkgpath).
	i.newImports = append(i.newImports, newImport{
		name:     name,
		path:     pkgPath,
		explicit: name != pkgName || name != pathpkg.Base(pkgPath),
	})
	i.importMap[pkgPath] = append(i.importMap[pkgPath], name)
	return name
}

type inlineCallResult struct {
	newImports []newImport // to add
	oldImports []oldImport // to remove

	// If elideBraces is set, old is an ast.Stmt and new is an ast.BlockStmt to
	// be spliced in. This allows the inlining analysis to assert that inlining
	// the block is OK; if elideBraces is unset and old is an ast.Stmt and new is
	// an ast.BlockStmt, braces may still be elided if the post-processing
	// analysis determines that it is safe to do so.
	//
	// Ideally, it would not be necessary for the inlining analysis to "reach
	// through" to the post-processing pass in this way. Instead, inlining could
	// just set old to be an ast.BlockStmt and rewrite the entire BlockStmt, but
	// unfortunately in order to preserve comments, it is important that inlining
	// replace as little syntax as possible.
	elideBraces bool
	bindingDecl bool     // transformation inserted "var params = args" declaration
	old, new    ast.Node // e.g. replace call expr by callee function body expression
}

// inlineCall returns a pair of an old node (the call, or something
// enclosing it) and a new node (its replacement, which may be a
// combination of caller, callee, and new nodes), along with the set
// of new imports needed.
//
// TODO(adonovan): rethink the 'result' interface. The assumption of a
// one-to-one replacement seems fragile. One can easily imagine the
// transformation replacing the call and adding new variable
// declarations, for example, or replacing a call statement by zero or
// many statements.)
// NOTE(rfindley): we've sort-of done this, with the 'elideBraces' flag that
// allows inlining a statement list. However, due to loss of comments, more
// sophisticated rewrites are challenging.
//
// TODO(rfindley): see if we can reduce the amount of comment lossiness by
// using printer.CommentedNode, which has been useful elsewhere.
//
// TODO(rfindley): inlineCall is getting very long, and very stateful, making
// it very hard to read. The following refactoring may improve readability and
// maintainability:
//   - Rename 'state' to 'callsite', since that is what it encapsulates.
//   - Add results of pre-processing analysis into the callsite struct, such as
//     the effective importMap, new/old imports, arguments, etc. Essentially
//     anything that resulted from initial analysis of the call site, and which
//     may be useful to inlining strategies.
//   - Delegate this call site analysis to a constructor or initializer, such
//     as 'analyzeCallsite', so that it does not consume bandwidth in the
//     'inlineCall' logical flow.
//   - Once analyzeCallsite returns, the callsite is immutable, much in the
//     same way as the Callee and Caller are immutable.
//   - Decide on a standard interface for strategies (and substrategies), such
//     that they may be delegated to a separate method on callsite.
//
// In this way, the logical flow of inline call will clearly follow the
// following structure:
//  1. Analyze the call site.
//  2. Try strategies, in order, until one succeeds.
//  3. Process the results.
//
// If any expensive analysis may be avoided by earlier strategies, it can be
// encapsulated in its own type and passed to subsequent strategies.
func (st *state) inlineCall() (*inlineCallResult, error) {
	logf, caller, callee := st.opts.Logf, st.caller, &st.callee.impl

	checkInfoFields(caller.Info)

	// Inlining of dynamic calls is not currently supported,
	// even for local closure calls. (This would be a lot of work.)
	calleeSymbol := typeutil.StaticCallee(caller.Info, caller.Call)
	if calleeSymbol == nil {
		// e.g. interface method
		return nil, fmt.Errorf("cannot inline: not a static function call")
	}

	// Reject cross-package inlining if callee has
	// free references to unexported symbols.
	samePkg := caller.Types.Path() == callee.PkgPath
	if !samePkg && len(callee.Unexported) > 0 {
		return nil, fmt.Errorf("cannot inline call to %s because body refers to non-exported %s",
			callee.Name, callee.Unexported[0])
	}

	// Reject cross-file inlining if callee requires a newer dialect of Go (#75726).
	// (Versions default to types.Config.GoVersion, which is unset in many tests,
	// though should be populated by an analysis driver.)
	callerGoVersion := caller.Info.FileVersions[caller.File]
	if callerGoVersion != "" && callee.GoVersion != "" && versions.Before(callerGoVersion, callee.GoVersion) {
		return nil, fmt.Errorf("cannot inline call to %s (declared using %s) into a file using %s",
			callee.Name, callee.GoVersion, callerGoVersion)
	}

	// -- analyze callee's free references in caller context --

	// Compute syntax path enclosing Call, innermost first (Path[0]=Call),
	// and outermost enclosing function, if any.
	caller.path, _ = astutil.PathEnclosingInterval(caller.File, caller.Call.Pos(), caller.Call.End())
	for _, n := range caller.path {
		if decl, ok := n.(*ast.FuncDecl); ok {
			caller.enclosingFunc = decl
			break
		}
	}

	// If call is within a function, analyze all its
	// local vars for the "single assignment" property.
	// (Taking the address &v counts as a potential assignment.)
	var assign1 func(v *types.Var) bool // reports whether v a single-assignment local var
	{
		updatedLocals := make(map[*types.Var]bool)
		if caller.enclosingFunc != nil {
			escape(caller.Info, caller.enclosingFunc, func(v *types.Var, _ bool) {
				updatedLocals[v] = true
			})
			logf("multiple-assignment vars: %v", updatedLocals)
		}
		assign1 = func(v *types.Var) bool { return !updatedLocals[v] }
	}

	// Extract information about the caller's imports.
	istate := newImportState(logf, caller, callee)

	// Compute the renaming of the callee's free identifiers.
	objRenames, err := st.renameFreeObjs(istate)
	if err != nil {
		return nil, err
	}

	res := &inlineCallResult{
		newImports: istate.newImports,
		oldImports: istate.oldImports,
	}

	// Parse callee function declaration.
	calleeFset, calleeDecl, err := parseCompact(callee.Content)
	if err != nil {
		return nil, err // "can't happen"
	}

	// replaceCalleeID replaces an identifier in the callee. See [replacer] for
	// more detailed semantics.
	replaceCalleeID := func(offset int, repl ast.Expr, unpackVariadic bool) {
		path, id := findIdent(calleeDecl, calleeDecl.Pos()+token.Pos(offset))
		logf("- replace id %q @ #%d to %q", id.Name, offset, debugFormatNode(calleeFset, repl))
		// Replace f([]T{a, b, c}...) with f(a, b, c).
		if lit, ok := repl.(*ast.CompositeLit); ok && unpackVariadic && len(path) > 0 {
			if call, ok := last(path).(*ast.CallExpr); ok &&
				call.Ellipsis.IsValid() &&
				id == last(call.Args) {

				call.Args = append(call.Args[:len(call.Args)-1], lit.Elts...)
				call.Ellipsis = token.NoPos
				return
			}
		}
		if len(path) > 0 {
			repl = internalastutil.MaybeParenthesize(last(path), id, repl)
		}
		replaceNode(calleeDecl, id, repl)
	}

	// Generate replacements for each free identifier.
	// (The same tree may be spliced in multiple times, resulting in a DAG.)
	for _, ref := range callee.FreeRefs {
		if repl := objRenames[ref.Object]; repl != nil {
			replaceCalleeID(ref.Offset, repl, false)
		}
	}

	// Gather the effective call arguments, including the receiver.
	// Later, elements will be eliminated (=> nil) by parameter substitution.
	args, err := st.arguments(caller, calleeDecl, assign1)
	if err != nil {
		return nil, err // e.g. implicit field selection cannot be made explicit
	}

	// Gather effective parameter tuple, including the receiver if any.
	// Simplify variadic parameters to slices (in all cases but one).
	var params []*parameter // including receiver; nil => parameter substituted
	{
		sig := calleeSymbol.Type().(*types.Signature)
		if sig.Recv() != nil {
			params = append(params, &parameter{
				obj:       sig.Recv(),
				fieldType: calleeDecl.Recv.List[0].Type,
				info:      callee.Params[0],
			})
		}

		// Flatten the list of syntactic types.
		var types []ast.Expr
		for _, field := range calleeDecl.Type.Params.List {
			if field.Names == nil {
				types = append(types, field.Type)
			} else {
				for range field.Names {
					types = append(types, field.Type)
				}
			}
		}

		for i := 0; i < sig.Params().Len(); i++ {
			params = append(params, &parameter{
				obj:       sig.Params().At(i),
				fieldType: types[i],
				info:      callee.Params[len(params)],
			})
		}

		// Variadic function?
		//
		// There are three possible types of call:
		// - ordinary f(a1, ..., aN)
		// - ellipsis f(a1, ..., slice...)
		// - spread   f(recv?, g()) where g() is a tuple.
		// The first two are desugared to non-variadic calls
		// with an ordinary slice parameter;
		// the third is tricky and cannot be reduced, and (if
		// a receiver is present) cannot even be literalized.
		// Fortunately it is vanishingly rare.
		//
		// TODO(adonovan): extract this to a function.
		if sig.Variadic() {
			lastParam := last(params)
			if len(args) > 0 && last(args).spread {
				// spread call to variadic: tricky
				lastParam.variadic = true
			} else {
				// ordinary/ellipsis call to variadic

				// simplify decl: func(T...) -> func([]T)
				var lastParamFieldType ast.Expr
				if len(calleeDecl.Type.Params.List) > 0 {
					lastParamField := last(calleeDecl.Type.Params.List)
					if ellipsis, ok := lastParamField.Type.(*ast.Ellipsis); ok {
						lastParamField.Type = &ast.ArrayType{
							Elt: ellipsis.Elt,
						}
					}
					lastParamFieldType = lastParamField.Type
				}

				if caller.Call.Ellipsis.IsValid() {
					// ellipsis call: f(slice...) -> f(slice)
					// nop
				} else {
					// ordinary call: f(a1, ... aN) -> f([]T{a1, ..., aN})
					//
					// Substitution of []T{...} in the callee body may lead to
					// g([]T{a1, ..., aN}...), which we simplify to g(a1, ..., an)
					// later; see replaceCalleeID.
					n := len(params) - 1
					ordinary, extra := args[:n], args[n:]
					var elts []ast.Expr
					freevars := make(map[string]bool)
					pure, effects := true, false
					for _, arg := range extra {
						elts = append(elts, arg.expr)
						pure = pure && arg.pure
						effects = effects || arg.effects
						maps.Copy(freevars, arg.freevars)
					}
					args = append(ordinary, &argument{
						expr: &ast.CompositeLit{
							Type: lastParamFieldType,
							Elts: elts,
						},
						typ:        lastParam.obj.Type(),
						constant:   nil,
						pure:       pure,
						effects:    effects,
						duplicable: false,
						freevars:   freevars,
						variadic:   true,
					})
				}
			}
		}
	}

	// Substitute type parameters in calleeDecl AST with type arguments from the
	// call, and synchronize the parameter metadata.
	{
		typeArgs := st.typeArguments(caller.Call)
		if len(typeArgs) != len(callee.TypeParams) {
			return nil, fmt.Errorf("cannot inline: type parameter inference is not yet supported")
		}
		if err := substituteTypeParams(logf, callee.TypeParams, typeArgs, replaceCalleeID); err != nil {
			return nil, err
		}
		// Synchronize the parameters' type pointers with the mutated calleeDecl.
		syncParamFieldTypes(calleeDecl, params)
	}

	// Log effective arguments.
	for i, arg := range args {
		logf("arg #%d: %s pure=%t effects=%t duplicable=%t free=%v type=%v",
			i, debugFormatNode(caller.Fset, arg.expr),
			arg.pure, arg.effects, arg.duplicable, arg.freevars, arg.typ)
	}

	// Note: computation below should be expressed in terms of
	// the args and params slices, not the raw material.

	// Perform parameter substitution.
	// May eliminate some elements of params/args.
	substitute(logf, caller, params, args, callee.Effects, callee.Falcon, replaceCalleeID)

	// Update the callee's signature syntax.
	updateCalleeParams(calleeDecl, params)

	// Create a var (param = arg; ...) decl for use by some strategies.
	bindingDecl := createBindingDecl(logf, caller, args, calleeDecl, callee.Results)

	var remainingArgs []ast.Expr
	for _, arg := range args {
		if arg != nil {
			remainingArgs = append(remainingArgs, arg.expr)
		}
	}

	// -- let the inlining strategies begin --
	//
	// When we commit to a strategy, we log a message of the form:
	//
	//   "strategy: reduce expr-context call to { return expr }"
	//
	// This is a terse way of saying:
	//
	//    we plan to reduce a call
	//    that appears in expression context
	//    to a function whose body is of the form { return expr }

	// TODO(adonovan): split this huge function into a sequence of
	// function calls with an error sentinel that means "try the
	// next strategy", and make sure each strategy writes to the
	// log the reason it didn't match.

	// Special case: eliminate a call to a function whose body is empty.
	// (=> callee has no results and caller is a statement.)
	//
	//    func f(params) {}
	//    f(args)
	//    => _, _ = args
	//
	if len(calleeDecl.Body.List) == 0 {
		logf("strategy: reduce call to empty body")

		// Evaluate the arguments for effects and delete the call entirely.
		// Note(golang/go#71486): stmt can be nil if the call is in a go or defer
		// statement.
		// TODO: discard go or defer statements as well.
		if stmt := callStmt(caller.path, false); stmt != nil {
			res.old = stmt
			if nargs := len(remainingArgs); nargs > 0 {
				// Emit "_, _ = args" to discard results.

				// TODO(adonovan): if args is the []T{a1, ..., an}
				// literal synthesized during variadic simplification,
				// consider unwrapping it to its (pure) elements.
				// Perhaps there's no harm doing this for any slice literal.

				// Make correction for spread calls
				// f(g()) or recv.f(g()) where g() is a tuple.
				if last := last(args); last != nil && last.spread {
					nspread := last.typ.(*types.Tuple).Len()
					if len(args) > 1 { // [recv, g()]
						// A single AssignStmt cannot discard both, so use a 2-spec var decl.
						res.new = &ast.GenDecl{
							Tok: token.VAR,
							Specs: []ast.Spec{
								&ast.ValueSpec{
									Names:  []*ast.Ident{makeIdent("_")},
									Values: []ast.Expr{args[0].expr},
								},
								&ast.ValueSpec{
									Names:  blanks[*ast.Ident](nspread),
									Values: []ast.Expr{args[1].expr},
								},
							},
						}
						return res, nil
					}

					// Sole argument is spread call.
					nargs = nspread
				}

				res.new = &ast.AssignStmt{
					Lhs: blanks[ast.Expr](nargs),
					Tok: token.ASSIGN,
					Rhs: remainingArgs,
				}

			} else {
				// No remaining arguments: delete call statement entirely
				res.new = &ast.EmptyStmt{}
			}
			return res, nil
		}
	}

	// If all parameters have been substituted and no result
	// variable is referenced, we don't need a binding decl.
	// This may enable better reduction strategies.
	allResultsUnreferenced := forall(callee.Results, func(i int, r *paramInfo) bool { return len(r.Refs) == 0 })
	needBindingDecl := !allResultsUnreferenced ||
		exists(params, func(i int, p *parameter) bool { return p != nil })

	// The two strategies below overlap for a tail call of {return exprs}:
	// The expr-context reduction is nice because it keeps the
	// caller's return stmt and merely switches its operand,
	// without introducing a new block, but it doesn't work with
	// implicit return conversions.
	//
	// TODO(adonovan): unify these cases more cleanly, allowing return-
	// operand replacement and implicit conversions, by adding
	// conversions around each return operand (if not a spread return).

	// Special case: call to { return exprs }.
	//
	// Reduces to:
	//	    { var (bindings); _, _ = exprs }
	//     or   _, _ = exprs
	//     or   expr
	//
	// If:
	// - the body is just "return expr" with trivial implicit conversions,
	//   or the caller's return type matches the callee's,
	// - all parameters and result vars can be eliminated
	//   or replaced by a binding decl,
	// then the call expression can be replaced by the
	// callee's body expression, suitably substituted.
	if len(calleeDecl.Body.List) == 1 &&
		is[*ast.ReturnStmt](calleeDecl.Body.List[0]) &&
		len(calleeDecl.Body.List[0].(*ast.ReturnStmt).Results) > 0 { // not a bare return
		results := calleeDecl.Body.List[0].(*ast.ReturnStmt).Results

		parent, grandparent := callContext(caller.path)

		// statement context
		if stmt, ok := parent.(*ast.ExprStmt); ok &&
			(!needBindingDecl || bindingDecl != nil) {
			logf("strategy: reduce stmt-context call to { return exprs }")
			clearPositions(calleeDecl.Body)

			if callee.ValidForCallStmt {
				logf("callee body is valid as statement")
				// Inv: len(results) == 1
				if !needBindingDecl {
					// Reduces to: expr
					res.old = caller.Call
					res.new = results[0]
				} else {
					// Reduces to: { var (bindings); expr }
					res.bindingDecl = true
					res.old = stmt
					res.new = &ast.BlockStmt{
						List: []ast.Stmt{
							bindingDecl.stmt,
							&ast.ExprStmt{X: results[0]},
						},
					}
				}
			} else {
				logf("callee body is not valid as statement")
				// The call is a standalone statement, but the
				// callee body is not suitable as a standalone statement
				// (f() or <-ch), explicitly discard the results:
				// Reduces to: _, _ = exprs
				discard := &ast.AssignStmt{
					Lhs: blanks[ast.Expr](callee.NumResults),
					Tok: token.ASSIGN,
					Rhs: results,
				}
				res.old = stmt
				if !needBindingDecl {
					// Reduces to: _, _ = exprs
					res.new = discard
				} else {
					// Reduces to: { var (bindings); _, _ = exprs }
					res.bindingDecl = true
					res.new = &ast.BlockStmt{
						List: []ast.Stmt{
							bindingDecl.stmt,
							discard,
						},
					}
				}
			}
			return res, nil
		}

		// Assignment context.
		//
		// If there is no binding decl, or if the binding decl declares no names,
		// an assignment a, b := f() can be reduced to a, b := x, y.
		if stmt, ok := parent.(*ast.AssignStmt); ok &&
			is[*ast.BlockStmt](grandparent) &&
			(!needBindingDecl || (bindingDecl != nil && len(bindingDecl.names) == 0)) {

			// Reduces to: { var (bindings); lhs... := rhs... }
			if newStmts, ok := st.assignStmts(stmt, results, istate.importName); ok {
				logf("strategy: reduce assign-context call to { return exprs }")

				clearPositions(calleeDecl.Body)

				block := &ast.BlockStmt{
					List: newStmts,
				}
				if needBindingDecl {
					res.bindingDecl = true
					block.List = prepend(bindingDecl.stmt, block.List...)
				}

				// assignStmts does not introduce new bindings, and replacing an
				// assignment only works if the replacement occurs in the same scope.
				// Therefore, we must ensure that braces are elided.
				res.elideBraces = true
				res.old = stmt
				res.new = block
				return res, nil
			}
		}

		// expression context
		if !needBindingDecl {
			clearPositions(calleeDecl.Body)

			anyNonTrivialReturns := hasNonTrivialReturn(callee.Returns)

			if callee.NumResults == 1 {
				logf("strategy: reduce expr-context call to { return expr }")
				// (includes some simple tail-calls)

				// Make implicit return conversion explicit.
				if anyNonTrivialReturns {
					results[0] = convert(calleeDecl.Type.Results.List[0].Type, results[0])
				}

				res.old = caller.Call
				res.new = results[0]
				return res, nil

			} else if !anyNonTrivialReturns {
				logf("strategy: reduce spread-context call to { return expr }")
				// There is no general way to reify conversions in a spread
				// return, hence the requirement above.
				//
				// TODO(adonovan): allow this reduction when no
				// conversion is required by the context.

				// The call returns multiple results but is
				// not a standalone call statement. It must
				// be the RHS of a spread assignment:
				//   var x, y  = f()
				//       x, y := f()
				//       x, y  = f()
				// or the sole argument to a spread call:
				//        printf(f())
				// or spread return statement:
				//        return f()
				res.old = parent
				switch context := parent.(type) {
				case *ast.AssignStmt:
					// Inv: the call must be in Rhs[0], not Lhs.
					assign := shallowCopy(context)
					assign.Rhs = results
					res.new = assign
				case *ast.ValueSpec:
					// Inv: the call must be in Values[0], not Names.
					spec := shallowCopy(context)
					spec.Values = results
					res.new = spec
				case *ast.CallExpr:
					// Inv: the call must be in Args[0], not Fun.
					call := shallowCopy(context)
					call.Args = results
					res.new = call
				case *ast.ReturnStmt:
					// Inv: the call must be Results[0].
					ret := shallowCopy(context)
					ret.Results = results
					res.new = ret
				default:
					return nil, fmt.Errorf("internal error: unexpected context %T for spread call", context)
				}
				return res, nil
			}
		}
	}

	// Special case: tail-call.
	//
	// Inlining:
	//         return f(args)
	// where:
	//         func f(params) (results) { body }
	// reduces to:
	//         { var (bindings); body }
	//         { body }
	// so long as:
	// - all parameters can be eliminated or replaced by a binding decl,
	// - call is a tail-call;
	// - all returns in body have trivial result conversions,
	//   or the caller's return type matches the callee's,
	// - there is no label conflict;
	// - no result variable is referenced by name,
	//   or implicitly by a bare return.
	//
	// The body may use defer, arbitrary control flow, and
	// multiple returns.
	//
	// TODO(adonovan): add a strategy for a 'void tail
	// call', i.e. a call statement prior to an (explicit
	// or implicit) return.
	parent, _ := callContext(caller.path)
	if ret, ok := parent.(*ast.ReturnStmt); ok &&
		len(ret.Results) == 1 &&
		tailCallSafeReturn(caller, calleeSymbol, callee) &&
		!callee.HasBareReturn &&
		(!needBindingDecl || bindingDecl != nil) &&
		!hasLabelConflict(caller.path, callee.Labels) &&
		allResultsUnreferenced {
		logf("strategy: reduce tail-call")
		body := calleeDecl.Body
		clearPositions(body)
		if needBindingDecl {
			res.bindingDecl = true
			body.List = prepend(bindingDecl.stmt, body.List...)
		}
		res.old = ret
		res.new = body
		return res, nil
	}

	// Special case: call to void function
	//
	// Inlining:
	//         f(args)
	// where:
	//	   func f(params) { stmts }
	// reduces to:
	//         { var (bindings); stmts }
	//         { stmts }
	// so long as:
	// - callee is a void function (no returns)
	// - callee does not use defer
	// - there is no label conflict between caller and callee
	// - all parameters and result vars can be eliminated
	//   or replaced by a binding decl,
	// - caller ExprStmt is in unrestricted statement context.
	if stmt := callStmt(caller.path, true); stmt != nil &&
		(!needBindingDecl || bindingDecl != nil) &&
		!callee.HasDefer &&
		!hasLabelConflict(caller.path, callee.Labels) &&
		len(callee.Returns) == 0 {
		logf("strategy: reduce stmt-context call to { stmts }")
		body := calleeDecl.Body
		var repl ast.Stmt = body
		clearPositions(repl)
		if needBindingDecl {
			body.List = prepend(bindingDecl.stmt, body.List...)
		}
		res.old = stmt
		res.new = repl
		return res, nil
	}

	// TODO(adonovan): parameterless call to { stmts; return expr }
	// from one of these contexts:
	//    x, y     = f()
	//    x, y    := f()
	//    var x, y = f()
	// =>
	//    var (x T1, y T2); { stmts; x, y = expr }
	//
	// Because the params are no longer declared simultaneously
	// we need to check that (for example) x ∉ freevars(T2),
	// in addition to the usual checks for arg/result conversions,
	// complex control, etc.
	// Also test cases where expr is an n-ary call (spread returns).

	// Literalization isn't quite infallible.
	// Consider a spread call to a method in which
	// no parameters are eliminated, e.g.
	// 	new(T).f(g())
	// where
	//  	func (recv *T) f(x, y int) { body }
	//  	func g() (int, int)
	// This would be literalized to:
	// 	func (recv *T, x, y int) { body }(new(T), g()),
	// which is not a valid argument list because g() must appear alone.
	// Reject this case for now.
	if len(args) == 2 && args[0] != nil && args[1] != nil && is[*types.Tuple](args[1].typ) {
		return nil, fmt.Errorf("can't yet inline spread call to method")
	}

	// Infallible general case: literalization.
	//
	//    func(params) { body }(args)
	//
	logf("strategy: literalization")
	funcLit := &ast.FuncLit{
		Type: calleeDecl.Type,
		Body: calleeDecl.Body,
	}
	// clear positions before prepending the binding decl below, since the
	// binding decl contains syntax from the caller and we must not mutate the
	// caller. (This was a prior bug.)
	clearPositions(funcLit)

	// Literalization can still make use of a binding
	// decl as it gives a more natural reading order:
	//
	//    func() { var params = args; body }()
	//
	// TODO(adonovan): relax the allResultsUnreferenced requirement
	// by adding a parameter-only (no named results) binding decl.
	if bindingDecl != nil && allResultsUnreferenced {
		funcLit.Type.Params.List = nil
		remainingArgs = nil
		res.bindingDecl = true
		funcLit.Body.List = prepend(bindingDecl.stmt, funcLit.Body.List...)
	}

	// Emit a new call to a function literal in place of
	// the callee name, with appropriate replacements.
	newCall := &ast.CallExpr{
		Fun:      funcLit,
		Ellipsis: token.NoPos, // f(slice...) is always simplified
		Args:     remainingArgs,
	}
	res.old = caller.Call
	res.new = newCall
	return res, nil
}

// renameFreeObjs computes the renaming of the callee's free identifiers.
// It returns a slice of names (identifiers or selector expressions) corresponding
// to the callee's free objects (gobCallee.FreeObjs).
func (st *state) renameFreeObjs(istate *importState) ([]ast.Expr, error) {
	caller, callee := st.caller, &st.callee.impl
	objRenames := make([]ast.Expr, len(callee.FreeObjs)) // nil => no change
	for i, obj := range callee.FreeObjs {
		// obj is a free object of the callee.
		//
		// Possible cases are:
		// - builtin function, type, or value (e.g. nil, zero)
		//   => check not shadowed in caller.
		// - package-level var/func/const/types
		//   => same package: check not shadowed in caller.
		//   => otherwise: import other package, form a qualified identifier.
		//      (Unexported cross-package references were rejected already.)
		// - type parameter
		//   => not yet supported
		// - pkgname
		//   => import other package and use its local name.
		//
		// There can be no free references to labels, fields, or methods.

		// Note that we must consider potential shadowing both
		// at the caller side (caller.lookup) and, when
		// choosing new PkgNames, within the callee (obj.shadow).

		var newName ast.Expr
		if obj.Kind == "pkgname" {
			// Use locally appropriate import, creating as needed.
			n := istate.localName(obj.PkgPath, obj.PkgName, obj.Name, obj.Shadow)
			newName = makeIdent(n) // imported package
		} else if !obj.ValidPos {
			// Built-in function, type, or value (e.g. nil, zero):
			// check not shadowed at caller.
			found := caller.lookup(obj.Name) // always finds something
			if found.Pos().IsValid() {
				return nil, fmt.Errorf("cannot inline, because the callee refers to built-in %q, which in the caller is shadowed by a %s (declared at line %d)",
					obj.Name, objectKind(found),
					caller.Fset.PositionFor(found.Pos(), false).Line)
			}

		} else {
			// Must be reference to package-level var/func/const/type,
			// since type parameters are not yet supported.
			qualify := false
			if obj.PkgPath == callee.PkgPath {
				// reference within callee package
				if caller.Types.Path() == callee.PkgPath {
					// Caller and callee are in same package.
					// Check caller has not shadowed the decl.
					//
					// This may fail if the callee is "fake", such as for signature
					// refactoring where the callee is modified to be a trivial wrapper
					// around the refactored signature.
					found := caller.lookup(obj.Name)
					if found != nil && !isPkgLevel(found) {
						return nil, fmt.Errorf("cannot inline, because the callee refers to %s %q, which in the caller is shadowed by a %s (declared at line %d)",
							obj.Kind, obj.Name,
							objectKind(found),
							caller.Fset.PositionFor(found.Pos(), false).Line)
					}
				} else {
					// Cross-package reference.
					qualify = true
				}
			} else {
				// Reference to a package-level declaration
				// in another package, without a qualified identifier:
				// it must be a dot import.
				qualify = true
			}

			// Form a qualified identifier, pkg.Name.
			if qualify {
				pkgName := istate.localName(obj.PkgPath, obj.PkgName, obj.PkgName, obj.Shadow)
				newName = &ast.SelectorExpr{
					X:   makeIdent(pkgName),
					Sel: makeIdent(obj.Name),
				}
			}
		}
		objRenames[i] = newName
	}
	return objRenames, nil
}

type argument struct {
	expr          ast.Expr
	typ           types.Type      // may be tuple for sole non-receiver arg in spread call
	constant      constant.Value  // value of argument if constant
	spread        bool            // final arg is call() assigned to multiple params
	pure          bool            // expr is pure (doesn't read variables)
	effects       bool            // expr has effects (updates variables)
	duplicable    bool            // expr may be duplicated
	freevars      map[string]bool // free names of expr
	variadic      bool            // is explicit []T{...} for eliminated variadic
	desugaredRecv bool            // is *recv or &recv, where operator was elided
}

// typeArguments returns the type arguments of the call.
// It only collects the arguments that are explicitly provided; it does
// not attempt type inference.
func (st *state) typeArguments(call *ast.CallExpr) []*argument {
	var exprs []ast.Expr
	switch d := ast.Unparen(call.Fun).(type) {
	case *ast.IndexExpr:
		exprs = []ast.Expr{d.Index}
	case *ast.IndexListExpr:
		exprs = d.Indices
	default:
		// No type  arguments
		return nil
	}
	var args []*argument
	for _, e := range exprs {
		arg := &argument{expr: e, freevars: freeVars(st.caller.Info, e)}
		args = append(args, arg)
	}
	return args
}

// arguments returns the effective arguments of the call.
//
// If the receiver argument and parameter have
// different pointerness, make the "&" or "*" explicit.
//
// Also, if x.f() is shorthand for promoted method x.y.f(),
// make the .y explicit in T.f(x.y, ...).
//
// Beware that:
//
//   - a method can only be called through a selection, but only
//     the first of these two forms needs special treatment:
//
//     expr.f(args)     -> ([&*]expr, args)	MethodVal
//     T.f(recv, args)  -> (    expr, args)	MethodExpr
//
//   - the presence of a value in receiver-position in the call
//     is a property of the caller, not the callee. A method
//     (calleeDecl.Recv != nil) may be called like an ordinary
//     function.
//
//   - the types.Signatures seen by the caller (from
//     StaticCallee) and by the callee (from decl type)
//     differ in this case.
//
// In a spread call f(g()), the sole ordinary argument g(),
// always last in args, has a tuple type.
//
// We compute type-based predicates like pure, duplicable,
// freevars, etc, now, before we start modifying syntax.
func (st *state) arguments(caller *Caller, calleeDecl *ast.FuncDecl, assign1 func(*types.Var) bool) ([]*argument, error) {
	var args []*argument

	callArgs := caller.Call.Args
	if calleeDecl.Recv != nil {
		if len(st.callee.impl.TypeParams) > 0 {
			return nil, fmt.Errorf("cannot inline: generic methods not yet supported")
		}
		sel := ast.Unparen(caller.Call.Fun).(*ast.SelectorExpr)
		seln := caller.Info.Selections[sel]
		var recvArg ast.Expr
		switch seln.Kind() {
		case types.MethodVal: // recv.f(callArgs)
			recvArg = sel.X
		case types.MethodExpr: // T.f(recv, callArgs)
			recvArg = callArgs[0]
			callArgs = callArgs[1:]
		}
		if recvArg != nil {
			// Compute all the type-based predicates now,
			// before we start meddling with the syntax;
			// the meddling will update them.
			arg := &argument{
				expr:       recvArg,
				typ:        caller.Info.TypeOf(recvArg),
				constant:   caller.Info.Types[recvArg].Value,
				pure:       pure(caller.Info, assign1, recvArg),
				effects:    st.effects(caller.Info, recvArg),
				duplicable: duplicable(caller.Info, recvArg),
				freevars:   freeVars(caller.Info, recvArg),
			}
			recvArg = nil // prevent accidental use

			// Move receiver argument recv.f(args) to argument list f(&recv, args).
			args = append(args, arg)

			// Make field selections explicit (recv.f -> recv.y.f),
			// updating arg.{expr,typ}.
			indices := seln.Index()
			for _, index := range indices[:len(indices)-1] {
				fld := typeparams.CoreType(typeparams.Deref(arg.typ)).(*types.Struct).Field(index)
				if fld.Pkg() != caller.Types && !fld.Exported() {
					return nil, fmt.Errorf("in %s, implicit reference to unexported field .%s cannot be made explicit",
						debugFormatNode(caller.Fset, caller.Call.Fun),
						fld.Name())
				}
				if isPointer(arg.typ) {
					arg.pure = false // implicit *ptr operation => impure
				}
				arg.expr = &ast.SelectorExpr{
					X:   arg.expr,
					Sel: makeIdent(fld.Name()),
				}
				arg.typ = fld.Type()
				arg.duplicable = false
			}

			// Make * or & explicit.
			argIsPtr := isPointer(arg.typ)
			paramIsPtr := isPointer(seln.Obj().Type().Underlying().(*types.Signature).Recv().Type())
			if !argIsPtr && paramIsPtr {
				// &recv
				arg.expr = &ast.UnaryExpr{Op: token.AND, X: arg.expr}
				arg.typ = types.NewPointer(arg.typ)
				arg.desugaredRecv = true
			} else if argIsPtr && !paramIsPtr {
				// *recv
				arg.expr = &ast.StarExpr{X: arg.expr}
				arg.typ = typeparams.Deref(arg.typ)
				arg.duplicable = false
				arg.pure = false
				arg.desugaredRecv = true
			}
		}
	}
	for _, expr := range callArgs {
		tv := caller.Info.Types[expr]
		args = append(args, &argument{
			expr:       expr,
			typ:        tv.Type,
			constant:   tv.Value,
			spread:     is[*types.Tuple](tv.Type), // => last
			pure:       pure(caller.Info, assign1, expr),
			effects:    st.effects(caller.Info, expr),
			duplicable: duplicable(caller.Info, expr),
			freevars:   freeVars(caller.Info, expr),
		})
	}

	// Re-typecheck each constant argument expression in a neutral context.
	//
	// In a call such as func(int16){}(1), the type checker infers
	// the type "int16", not "untyped int", for the argument 1,
	// because it has incorporated information from the left-hand
	// side of the assignment implicit in parameter passing, but
	// of course in a different context, the expression 1 may have
	// a different type.
	//
	// So, we must use CheckExpr to recompute the type of the
	// argument in a neutral context to find its inherent type.
	// (This is arguably a bug in go/types, but I'm pretty certain
	// I requested it be this way long ago... -adonovan)
	//
	// This is only needed for constants. Other implicit
	// assignment conversions, such as unnamed-to-named struct or
	// chan to <-chan, do not result in the type-checker imposing
	// the LHS type on the RHS value.
	for _, arg := range args {
		if arg.constant == nil {
			continue
		}
		info := &types.Info{Types: make(map[ast.Expr]types.TypeAndValue)}
		if err := types.CheckExpr(caller.Fset, caller.Types, caller.Call.Pos(), arg.expr, info); err != nil {
			return nil, err
		}
		arg.typ = info.TypeOf(arg.expr)
	}

	return args, nil
}

type parameter struct {
	obj       *types.Var // parameter var from caller's signature
	fieldType ast.Expr   // syntax of type, from calleeDecl.Type.{Recv,Params}
	info      *paramInfo // information from AnalyzeCallee
	variadic  bool       // (final) parameter is unsimplified ...T
}

// A replacer replaces an identifier at the given offset in the callee.
// The replacement tree must not belong to the caller; use cloneNode as needed.
// If unpackVariadic is set, the replacement is a composite resulting from
// variadic elimination, and may be unpacked into variadic calls.
type replacer = func(offset int, repl ast.Expr, unpackVariadic bool)

// substituteTypeParams replaces type parameters in the callee with the
// corresponding type arguments from the call.
func substituteTypeParams(logf logger, typeParams []*paramInfo, typeArgs []*argument, replace replacer) error {
	assert(len(typeParams) == len(typeArgs), "mismatched number of type params/args")
	for i, paramInfo := range typeParams {
		arg := typeArgs[i]
		// Perform a simplified, conservative shadow analysis: fail if there is any shadowing.
		for free := range arg.freevars {
			if paramInfo.Shadow[free] != 0 {
				return fmt.Errorf("cannot inline: type argument #%d (type parameter %s) is shadowed", i, paramInfo.Name)
			}
		}
		logf("replacing type param %s with %s", paramInfo.Name, debugFormatNode(token.NewFileSet(), arg.expr))
		for _, ref := range paramInfo.Refs {
			replace(ref.Offset, internalastutil.CloneNode(arg.expr), false)
		}
	}
	return nil
}

// syncParamFieldTypes synchronizes the fieldType of each parameter in params
// with the mutated calleeDecl AST. This is necessary because substituteTypeParams
// mutates the calleeDecl AST, replacing type nodes, but params still references
// the original (now outdated) type nodes.
func syncParamFieldTypes(calleeDecl *ast.FuncDecl, params []*parameter) {
	var i int
	setFieldType := func(t ast.Expr) {
		assert(i < len(params), "mismatched parameter count")
		params[i].fieldType = t
		i++
	}

	if calleeDecl.Recv != nil && len(calleeDecl.Recv.List) > 0 {
		setFieldType(calleeDecl.Recv.List[0].Type)
	}
	if calleeDecl.Type.Params != nil {
		for _, field := range calleeDecl.Type.Params.List {
			if field.Names == nil {
				setFieldType(field.Type)
			} else {
				for range field.Names {
					setFieldType(field.Type)
				}
			}
		}
	}
	assert(i == len(params), "mismatched parameter count")
}

// substitute implements parameter elimination by substitution.
//
// It considers each parameter and its corresponding argument in turn
// and evaluate these conditions:
//
//   - the parameter is neither address-taken nor assigned;
//   - the argument is pure;
//   - if the parameter refcount is zero, the argument must
//     not contain the last use of a local var;
//   - if the parameter refcount is > 1, the argument must be duplicable;
//   - the argument (or types.Default(argument) if it's untyped) has
//     the same type as the parameter.
//
// If all conditions are met then the parameter can be substituted and
// each reference to it replaced by the argument. In that case, the
// replaceCalleeID function is called for each reference to the
// parameter, and is provided with its relative offset and replacement
// expression (argument), and the corresponding elements of params and
// args are replaced by nil.
func substitute(logf logger, caller *Caller, params []*parameter, args []*argument, effects []int, falcon falconResult, replace replacer) {
	// Inv:
	//  in        calls to     variadic, len(args) >= len(params)-1
	//  in spread calls to non-variadic, len(args) <  len(params)
	//  in spread calls to     variadic, len(args) <= len(params)
	// (In spread calls len(args) = 1, or 2 if call has receiver.)
	// Non-spread variadics have been simplified away already,
	// so the args[i] lookup is safe if we stop after the spread arg.
	assert(len(args) <= len(params), "too many arguments")

	// Collect candidates for substitution.
	//
	// An argument is a candidate if it is not otherwise rejected, and any free
	// variables that are shadowed only by other parameters.
	//
	// Therefore, substitution candidates are represented by a graph, where edges
	// lead from each argument to the other arguments that, if substituted, would
	// allow the argument to be substituted. We collect these edges in the
	// [substGraph]. Any node that is known not to be elided from the graph.
	// Arguments in this graph with no edges are substitutable independent of
	// other nodes, though they may be removed due to falcon or effects analysis.
	sg := make(substGraph)
next:
	for i, param := range params {
		arg := args[i]

		// Check argument against parameter.
		//
		// Beware: don't use types.Info on arg since
		// the syntax may be synthetic (not created by parser)
		// and thus lacking positions and types;
		// do it earlier (see pure/duplicable/freevars).

		if arg.spread {
			// spread => last argument, but not always last parameter
			logf("keeping param %q and following ones: argument %s is spread",
				param.info.Name, debugFormatNode(caller.Fset, arg.expr))
			return // give up
		}
		assert(!param.variadic, "unsimplified variadic parameter")
		if param.info.Escapes {
			logf("keeping param %q: escapes from callee", param.info.Name)
			continue
		}
		if param.info.Assigned {
			logf("keeping param %q: assigned by callee", param.info.Name)
			continue // callee needs the parameter variable
		}
		if len(param.info.Refs) > 1 && !arg.duplicable {
			logf("keeping param %q: argument is not duplicable", param.info.Name)
			continue // incorrect or poor style to duplicate an expression
		}
		if len(param.info.Refs) == 0 {
			if arg.effects {
				logf("keeping param %q: though unreferenced, it has effects", param.info.Name)
				continue
			}

			// If the caller is within a function body,
			// eliminating an unreferenced parameter might
			// remove the last reference to a caller local var.
			if caller.enclosingFunc != nil {
				for free := range arg.freevars {
					// TODO(rfindley): we can get this 100% right by looking for
					// references among other arguments which have non-zero references
					// within the callee.
					if v, ok := caller.lookup(free).(*types.Var); ok && within(v.Pos(), caller.enclosingFunc.Body) && !isUsedOutsideCall(caller, v) {

						// Check to see if the substituted var is used within other args
						// whose corresponding params ARE used in the callee
						usedElsewhere := func() bool {
							for i, param := range params {
								if i < len(args) && len(param.info.Refs) > 0 { // excludes original param
									for name := range args[i].freevars {
										if caller.lookup(name) == v {
											return true
										}
									}
								}
							}
							return false
						}
						if !usedElsewhere() {
							logf("keeping param %q: arg contains perhaps the last reference to caller local %v @ %v",
								param.info.Name, v, caller.Fset.PositionFor(v.Pos(), false))
							continue next
						}
					}
				}
			}
		}

		// Arg is a potential substitution candidate: analyze its shadowing.
		//
		// Consider inlining a call f(z, 1) to
		//
		// 	func f(x, y int) int { z := y; return x + y + z }
		//
		// we can't replace x in the body by z (or any
		// expression that has z as a free identifier) because there's an
		// intervening declaration of z that would shadow the caller's one.
		//
		// However, we *could* replace x in the body by y, as long as the y
		// parameter is also removed by substitution.

		sg[arg] = nil // Absent shadowing, the arg is substitutable.
		for free := range arg.freevars {
			switch s := param.info.Shadow[free]; {
			case s < 0:
				// Shadowed by a non-parameter symbol, so arg is not substitutable.
				delete(sg, arg)
			case s > 0:
				// Shadowed by a parameter; arg may be substitutable, if only shadowed
				// by other substitutable parameters.
				if s > len(args) {
					// Defensive: this should not happen in the current factoring, since
					// spread arguments are already handled.
					delete(sg, arg)
				}
				if edges, ok := sg[arg]; ok {
					sg[arg] = append(edges, args[s-1])
				}
			}
		}
	}

	// Process the initial state of the substitution graph.
	sg.prune()

	// Now we check various conditions on the substituted argument set as a
	// whole. These conditions reject substitution candidates, but since their
	// analysis depends on the full set of candidates, we do not process side
	// effects of their candidate rejection until after the analysis completes,
	// in a call to prune. After pruning, we must re-run the analysis to check
	// for additional rejections.
	//
	// Here's an example of that in practice:
	//
	// 	var a [3]int
	//
	// 	func falcon(x, y, z int) {
	// 		_ = x + a[y+z]
	// 	}
	//
	// 	func _() {
	// 		var y int
	// 		const x, z = 1, 2
	// 		falcon(y, x, z)
	// 	}
	//
	// In this example, arguments 0 and 1 are shadowed by each other's
	// corresponding parameter, and so each can be substituted only if they are
	// both substituted. But the fallible constant analysis finds a violated
	// constraint: x + z = 3, and so the constant array index would cause a
	// compile-time error if argument 1 (x) were substituted. Therefore,
	// following the falcon analysis, we must also prune argument 0.
	//
	// As far as I (rfindley) can tell, the falcon analysis should always succeed
	// after the first pass, as it's not possible for additional bindings to
	// cause new constraint failures. Nevertheless, we re-run it to be sure.
	//
	// However, the same cannot be said of the effects analysis, as demonstrated
	// by this example:
	//
	// 	func effects(w, x, y, z int) {
	// 		_ = x + w + y + z
	// 	}

	// 	func _() {
	// 		v := 0
	// 		w := func() int { v++; return 0 }
	// 		x := func() int { v++; return 0 }
	// 		y := func() int { v++; return 0 }
	// 		effects(x(), w(), y(), x()) //@ inline(re"effects", effects)
	// 	}
	//
	// In this example, arguments 0, 1, and 3 are related by the substitution
	// graph. The first effects analysis implies that arguments 0 and 1 must be
	// bound, and therefore argument 3 must be bound. But then a subsequent
	// effects analysis forces argument 2 to also be bound.

	// Reject constant arguments as substitution candidates if they cause
	// violation of falcon constraints.
	//
	// Keep redoing the analysis until we no longer reject additional arguments,
	// as the set of substituted parameters affects the falcon package.
	for checkFalconConstraints(logf, params, args, falcon, sg) {
		sg.prune()
	}

	// As a final step, introduce bindings to resolve any
	// evaluation order hazards. This must be done last, as
	// additional subsequent bindings could introduce new hazards.
	//
	// As with the falcon analysis, keep redoing the analysis until the no more
	// arguments are rejected.
	for resolveEffects(logf, args, effects, sg) {
		sg.prune()
	}

	// The remaining candidates are safe to substitute.
	for i, param := range params {
		if arg := args[i]; sg.has(arg) {

			// It is safe to substitute param and replace it with arg.
			// The formatter introduces parens as needed for precedence.
			//
			// Because arg.expr belongs to the caller,
			// we clone it before splicing it into the callee tree.
			logf("replacing parameter %q by argument %q",
				param.info.Name, debugFormatNode(caller.Fset, arg.expr))
			for _, ref := range param.info.Refs {
				// Apply any transformations necessary for this reference.
				argExpr := arg.expr

				// If the reference itself is being selected, and we applied desugaring
				// (an explicit &x or *x), we can undo that desugaring here as it is
				// not necessary for a selector. We don't need to check addressability
				// here because if we desugared, the receiver must have been
				// addressable.
				if ref.IsSelectionOperand && arg.desugaredRecv {
					switch e := argExpr.(type) {
					case *ast.UnaryExpr:
						argExpr = e.X
					case *ast.StarExpr:
						argExpr = e.X
					}
				}

				// If the reference requires exact type agreement between parameter and
				// argument, wrap the argument in an explicit conversion if
				// substitution might materially change its type. (We already did the
				// necessary shadowing check on the parameter type syntax.)
				//
				// The types must agree in any of these cases:
				// - the argument affects type inference;
				// - the reference's concrete type is assigned to an interface type;
				// - the reference is not an assignment, nor a trivial conversion of an untyped constant.
				//
				// In all other cases, no explicit conversion is necessary as either
				// the type does not matter, or must have already agreed for well-typed
				// code.
				//
				// This is only needed for substituted arguments. All other arguments
				// are given explicit types in either a binding decl or when using the
				// literalization strategy.
				//
				// If the types are identical, we can eliminate
				// redundant type conversions such as this:
				//
				// Callee:
				//    func f(i int32) { fmt.Println(i) }
				// Caller:
				//    func g() { f(int32(1)) }
				// Inlined as:
				//    func g() { fmt.Println(int32(int32(1)))
				//
				// Recall that non-trivial does not imply non-identical for constant
				// conversions; however, at this point state.arguments has already
				// re-typechecked the constant and set arg.type to its (possibly
				// "untyped") inherent type, so the conversion from untyped 1 to int32
				// is non-trivial even though both arg and param have identical types
				// (int32).
				needType := ref.AffectsInference ||
					(ref.Assignable && ref.IfaceAssignment && !param.info.IsInterface) ||
					(!ref.Assignable && !trivialConversion(arg.constant, arg.typ, param.obj.Type()))

				if needType &&
					!types.Identical(types.Default(arg.typ), param.obj.Type()) {

					// If arg.expr is already an interface call, strip it.
					if call, ok := argExpr.(*ast.CallExpr); ok && len(call.Args) == 1 {
						if typ, ok := isConversion(caller.Info, call); ok && isNonTypeParamInterface(typ) {
							argExpr = call.Args[0]
						}
					}

					argExpr = convert(param.fieldType, argExpr)
					logf("param %q (offset %d): adding explicit %s -> %s conversion around argument",
						param.info.Name, ref.Offset, arg.typ, param.obj.Type())
				}
				replace(ref.Offset, internalastutil.CloneNode(argExpr).(ast.Expr), arg.variadic)
			}
			params[i] = nil // substituted
			args[i] = nil   // substituted
		}
	}
}

// isConversion reports whether the given call is a type conversion, returning
// (operand, true) if so.
//
// If the call is not a conversion, it returns (nil, false).
func isConversion(info *types.Info, call *ast.CallExpr) (types.Type, bool) {
	if tv, ok := info.Types[call.Fun]; ok && tv.IsType() {
		return tv.Type, true
	}
	return nil, false
}

// isNonTypeParamInterface reports whether t is a non-type parameter interface
// type.
func isNonTypeParamInterface(t types.Type) bool {
	return !typeparams.IsTypeParam(t) && types.IsInterface(t)
}

// isUsedOutsideCall reports whether v is used outside of caller.Call, within
// the body of caller.enclosingFunc.
func isUsedOutsideCall(caller *Caller, v *types.Var) bool {
	used := false
	ast.Inspect(caller.enclosingFunc.Body, func(n ast.Node) bool {
		if n == caller.Call {
			return false
		}
		switch n := n.(type) {
		case *ast.Ident:
			if use := caller.Info.Uses[n]; use == v {
				used = true
			}
		case *ast.FuncType:
			// All params are used.
			for _, fld := range n.Params.List {
				for _, n := range fld.Names {
					if def := caller.Info.Defs[n]; def == v {
						used = true
					}
				}
			}
		}
		return !used // keep going until we find a use
	})
	return used
}

// checkFalconConstraints checks whether constant arguments
// are safe to substitute (e.g. s[i] -> ""[0] is not safe.)
//
// Any failed constraint causes us to reject all constant arguments as
// substitution candidates (by clearing args[i].substitution=false).
//
// TODO(adonovan): we could obtain a finer result rejecting only the
// freevars of each failed constraint, and processing constraints in
// order of increasing arity, but failures are quite rare.
func checkFalconConstraints(logf logger, params []*parameter, args []*argument, falcon falconResult, sg substGraph) bool {
	// Create a dummy package, as this is the only
	// way to create an environment for CheckExpr.
	pkg := types.NewPackage("falcon", "falcon")

	// Declare types used by constraints.
	for _, typ := range falcon.Types {
		logf("falcon env: type %s %s", typ.Name, types.Typ[typ.Kind])
		pkg.Scope().Insert(types.NewTypeName(token.NoPos, pkg, typ.Name, types.Typ[typ.Kind]))
	}

	// Declared constants and variables for parameters.
	nconst := 0
	for i, param := range params {
		name := param.info.Name
		if name == "" {
			continue // unreferenced
		}
		arg := args[i]
		if arg.constant != nil && sg.has(arg) && param.info.FalconType != "" {
			t := pkg.Scope().Lookup(param.info.FalconType).Type()
			pkg.Scope().Insert(types.NewConst(token.NoPos, pkg, name, t, arg.constant))
			logf("falcon env: const %s %s = %v", name, param.info.FalconType, arg.constant)
			nconst++
		} else {
			v := types.NewVar(token.NoPos, pkg, name, arg.typ)
			typesinternal.SetVarKind(v, typesinternal.PackageVar)
			pkg.Scope().Insert(v)
			logf("falcon env: var %s %s", name, arg.typ)
		}
	}
	if nconst == 0 {
		return false // nothing to do
	}

	// Parse and evaluate the constraints in the environment.
	fset := token.NewFileSet()
	removed := false
	for _, falcon := range falcon.Constraints {
		expr, err := parser.ParseExprFrom(fset, "falcon", falcon, 0)
		if err != nil {
			panic(fmt.Sprintf("failed to parse falcon constraint %s: %v", falcon, err))
		}
		if err := types.CheckExpr(fset, pkg, token.NoPos, expr, nil); err != nil {
			logf("falcon: constraint %s violated: %v", falcon, err)
			for j, arg := range args {
				if arg.constant != nil && sg.has(arg) {
					logf("keeping param %q due falcon violation", params[j].info.Name)
					removed = sg.remove(arg) || removed
				}
			}
			break
		}
		logf("falcon: constraint %s satisfied", falcon)
	}
	return removed
}

// resolveEffects marks arguments as non-substitutable to resolve
// hazards resulting from the callee evaluation order described by the
// effects list.
//
// To do this, each argument is categorized as a read (R), write (W),
// or pure. A hazard occurs when the order of evaluation of a W
// changes with respect to any R or W. Pure arguments can be
// effectively ignored, as they can be safely evaluated in any order.
//
// The callee effects list contains the index of each parameter in the
// order it is first evaluated during execution of the callee. In
// addition, the two special values R∞ and W∞ indicate the relative
// position of the callee's first non-parameter read and its first
// effects (or other unknown behavior).
// For example, the list [0 2 1 R∞ 3 W∞] for func(a, b, c, d)
// indicates that the callee referenced parameters a, c, and b,
// followed by an arbitrary read, then parameter d, and finally
// unknown behavior.
//
// When an argument is marked as not substitutable, we say that it is
// 'bound', in the sense that its evaluation occurs in a binding decl
// or literalized call. Such bindings always occur in the original
// callee parameter order.
//
// In this context, "resolving hazards" means binding arguments so
// that they are evaluated in a valid, hazard-free order. A trivial
// solution to this problem would be to bind all arguments, but of
// course that's not useful. The goal is to bind as few arguments as
// possible.
//
// The algorithm proceeds by inspecting arguments in reverse parameter
// order (right to left), preserving the invariant that every
// higher-ordered argument is either already substituted or does not
// need to be substituted. At each iteration, if there is an
// evaluation hazard in the callee effects relative to the current
// argument, the argument must be bound. Subsequently, if the argument
// is bound for any reason, each lower-ordered argument must also be
// bound if either the argument or lower-order argument is a
// W---otherwise the binding itself would introduce a hazard.
//
// Thus, after each iteration, there are no hazards relative to the
// current argument. Subsequent iterations cannot introduce hazards
// with that argument because they can result only in additional
// binding of lower-ordered arguments.
func resolveEffects(logf logger, args []*argument, effects []int, sg substGraph) bool {
	effectStr := func(effects bool, idx int) string {
		i := fmt.Sprint(idx)
		if idx == len(args) {
			i = "∞"
		}
		return string("RW"[btoi(effects)]) + i
	}
	removed := false
	for i, argi := range slices.Backward(args) {
		if sg.has(argi) && !argi.pure {
			// i is not bound: check whether it must be bound due to hazards.
			idx := slices.Index(effects, i)
			if idx >= 0 {
				for _, j := range effects[:idx] {
					var (
						ji int  // effective param index
						jw bool // j is a write
					)
					if j == winf || j == rinf {
						jw = j == winf
						ji = len(args)
					} else {
						jw = args[j].effects
						ji = j
					}
					if ji > i && (jw || argi.effects) { // out of order evaluation
						logf("binding argument %s: preceded by %s",
							effectStr(argi.effects, i), effectStr(jw, ji))

						removed = sg.remove(argi) || removed
						break
					}
				}
			}
		}
		if !sg.has(argi) {
			for j := range i {
				argj := args[j]
				if argj.pure {
					continue
				}
				if (argi.effects || argj.effects) && sg.has(argj) {
					logf("binding argument %s: %s is bound",
						effectStr(argj.effects, j), effectStr(argi.effects, i))

					removed = sg.remove(argj) || removed
				}
			}
		}
	}
	return removed
}

// A substGraph is a directed graph representing arguments that may be
// substituted, provided all of their related arguments (or "dependencies") are
// also substituted. The candidates arguments for substitution are the keys in
// this graph, and the edges represent shadowing of free variables of the key
// by parameters corresponding to the dependency arguments.
//
// Any argument not present as a map key is known not to be substitutable. Some
// arguments may have edges leading to other arguments that are not present in
// the graph. In this case, those arguments also cannot be substituted, because
// they have free variables that are shadowed by parameters that cannot be
// substituted. Calling [substGraph.prune] removes these arguments from the
// graph.
//
// The 'prune' operation is not built into the 'remove' step both because
// analyses (falcon, effects) need local information about each argument
// independent of dependencies, and for the efficiency of pruning once en masse
// after each analysis.
type substGraph map[*argument][]*argument

// has reports whether arg is a candidate for substitution.
func (g substGraph) has(arg *argument) bool {
	_, ok := g[arg]
	return ok
}

// remove marks arg as not substitutable, reporting whether the arg was
// previously substitutable.
//
// remove does not have side effects on other arguments that may be
// unsubstitutable as a result of their dependency being removed.
// Call [substGraph.prune] to propagate these side effects, removing dependent
// arguments.
func (g substGraph) remove(arg *argument) bool {
	pre := len(g)
	delete(g, arg)
	return len(g) < pre
}

// prune updates the graph to remove any keys that reach other arguments not
// present in the graph.
func (g substGraph) prune() {
	// visit visits the forward transitive closure of arg and reports whether any
	// missing argument was encountered, removing all nodes on the path to it
	// from arg.
	//
	// The seen map is used for cycle breaking. In the presence of cycles, visit
	// may report a false positive for an intermediate argument. For example,
	// consider the following graph, where only a and b are candidates for
	// substitution (meaning, only a and b are present in the graph).
	//
	//   a ↔ b
	//   ↓
	//  [c]
	//
	// In this case, starting a visit from a, visit(b, seen) may report 'true',
	// because c has not yet been considered. For this reason, we must guarantee
	// that visit is called with an empty seen map at least once for each node.
	var visit func(*argument, map[*argument]unit) bool
	visit = func(arg *argument, seen map[*argument]unit) bool {
		deps, ok := g[arg]
		if !ok {
			return false
		}
		if _, ok := seen[arg]; !ok {
			seen[arg] = unit{}
			for _, dep := range deps {
				if !visit(dep, seen) {
					delete(g, arg)
					return false
				}
			}
		}
		return true
	}
	for arg := range g {
		// Remove any argument that is, or transitively depends upon,
		// an unsubstitutable argument.
		//
		// Each visitation gets a fresh cycle-breaking set.
		visit(arg, make(map[*argument]unit))
	}
}

// updateCalleeParams updates the calleeDecl syntax to remove
// substituted parameters and move the receiver (if any) to the head
// of the ordinary parameters.
func updateCalleeParams(calleeDecl *ast.FuncDecl, params []*parameter) {
	// The logic is fiddly because of the three forms of ast.Field:
	//
	//	func(int), func(x int), func(x, y int)
	//
	// Also, ensure that all remaining parameters are named
	// to avoid a mix of named/unnamed when joining (recv, params...).
	// func (T) f(int, bool) -> (_ T, _ int, _ bool)
	// (Strictly, we need do this only for methods and only when
	// the namednesses of Recv and Params differ; that might be tidier.)

	paramIdx := 0 // index in original parameter list (incl. receiver)
	var newParams []*ast.Field
	filterParams := func(field *ast.Field) {
		var names []*ast.Ident
		if field.Names == nil {
			// Unnamed parameter field (e.g. func f(int)
			if params[paramIdx] != nil {
				// Give it an explicit name "_" since we will
				// make the receiver (if any) a regular parameter
				// and one cannot mix named and unnamed parameters.
				names = append(names, makeIdent("_"))
			}
			paramIdx++
		} else {
			// Named parameter field e.g. func f(x, y int)
			// Remove substituted parameters in place.
			// If all were substituted, delete field.
			for _, id := range field.Names {
				if pinfo := params[paramIdx]; pinfo != nil {
					// Rename unreferenced parameters with "_".
					// This is crucial for binding decls, since
					// unlike parameters, they are subject to
					// "unreferenced var" checks.
					if len(pinfo.info.Refs) == 0 {
						id = makeIdent("_")
					}
					names = append(names, id)
				}
				paramIdx++
			}
		}
		if names != nil {
			newParams = append(newParams, &ast.Field{
				Names: names,
				Type:  field.Type,
			})
		}
	}
	if calleeDecl.Recv != nil {
		filterParams(calleeDecl.Recv.List[0])
		calleeDecl.Recv = nil
	}
	for _, field := range calleeDecl.Type.Params.List {
		filterParams(field)
	}
	calleeDecl.Type.Params.List = newParams
}

// bindingDeclInfo records information about the binding decl produced by
// createBindingDecl.
type bindingDeclInfo struct {
	names map[string]bool // names bound by the binding decl; possibly empty
	stmt  ast.Stmt        // the binding decl itself
}

// createBindingDecl constructs a "binding decl" that implements
// parameter assignment and declares any named result variables
// referenced by the callee. It returns nil if there were no
// unsubstituted parameters.
//
// It may not always be possible to create the decl (e.g. due to
// shadowing), in which case it also returns nil; but if it succeeds,
// the declaration may be used by reduction strategies to relax the
// requirement that all parameters have been substituted.
//
// For example, a call:
//
//	f(a0, a1, a2)
//
// where:
//
//	func f(p0, p1 T0, p2 T1) { body }
//
// reduces to:
//
//	{
//	  var (
//	    p0, p1 T0 = a0, a1
//	    p2     T1 = a2
//	  )
//	  body
//	}
//
// so long as p0, p1 ∉ freevars(T1) or freevars(a2), and so on,
// because each spec is statically resolved in sequence and
// dynamically assigned in sequence. By contrast, all
// parameters are resolved simultaneously and assigned
// simultaneously.
//
// The pX names should already be blank ("_") if the parameter
// is unreferenced; this avoids "unreferenced local var" checks.
//
// Strategies may impose additional checks on return
// conversions, labels, defer, etc.
func createBindingDecl(logf logger, caller *Caller, args []*argument, calleeDecl *ast.FuncDecl, results []*paramInfo) *bindingDeclInfo {
	// Spread calls are tricky as they may not align with the
	// parameters' field groupings nor types.
	// For example, given
	//   func g() (int, string)
	// the call
	//   f(g())
	// is legal with these decls of f:
	//   func f(int, string)
	//   func f(x, y any)
	//   func f(x, y ...any)
	// TODO(adonovan): support binding decls for spread calls by
	// splitting parameter groupings as needed.
	if lastArg := last(args); lastArg != nil && lastArg.spread {
		logf("binding decls not yet supported for spread calls")
		return nil
	}

	var (
		specs []ast.Spec
		names = make(map[string]bool) // names defined by previous specs
	)
	// shadow reports whether any name referenced by spec is
	// shadowed by a name declared by a previous spec (since,
	// unlike parameters, each spec of a var decl is within the
	// scope of the previous specs).
	shadow := func(spec *ast.ValueSpec) bool {
		// Compute union of free names of type and values
		// and detect shadowing. Values is the arguments
		// (caller syntax), so we can use type info.
		// But Type is the untyped callee syntax,
		// so we have to use a syntax-only algorithm.
		const includeComplitIdents = true
		free := free.Names(spec.Type, includeComplitIdents)
		for _, value := range spec.Values {
			for name := range freeVars(caller.Info, value) {
				free[name] = true
			}
		}
		for name := range free {
			if names[name] {
				logf("binding decl would shadow free name %q", name)
				return true
			}
		}
		for _, id := range spec.Names {
			if id.Name != "_" {
				names[id.Name] = true
			}
		}
		return false
	}

	// parameters
	//
	// Bind parameters that were not eliminated through
	// substitution. (Non-nil arguments correspond to the
	// remaining parameters in calleeDecl.)
	var values []ast.Expr
	for _, arg := range args {
		if arg != nil {
			values = append(values, arg.expr)
		}
	}
	for _, field := range calleeDecl.Type.Params.List {
		// Each field (param group) becomes a ValueSpec.
		spec := &ast.ValueSpec{
			Names:  cleanNodes(field.Names),
			Type:   cleanNode(field.Type),
			Values: values[:len(field.Names)],
		}
		values = values[len(field.Names):]
		if shadow(spec) {
			return nil
		}
		specs = append(specs, spec)
	}
	assert(len(values) == 0, "args/params mismatch")

	// results
	//
	// Add specs to declare any named result
	// variables that are referenced by the body.
	if calleeDecl.Type.Results != nil {
		resultIdx := 0
		for _, field := range calleeDecl.Type.Results.List {
			if field.Names == nil {
				resultIdx++
				continue // unnamed field
			}
			var names []*ast.Ident
			for _, id := range field.Names {
				if len(results[resultIdx].Refs) > 0 {
					names = append(names, id)
				}
				resultIdx++
			}
			if len(names) > 0 {
				spec := &ast.ValueSpec{
					Names: cleanNodes(names),
					Type:  cleanNode(field.Type),
				}
				if shadow(spec) {
					return nil
				}
				specs = append(specs, spec)
			}
		}
	}

	if len(specs) == 0 {
		logf("binding decl not needed: all parameters substituted")
		return nil
	}

	stmt := &ast.DeclStmt{
		Decl: &ast.GenDecl{
			Tok:   token.VAR,
			Specs: specs,
		},
	}
	logf("binding decl: %s", debugFormatNode(caller.Fset, stmt))
	return &bindingDeclInfo{names: names, stmt: stmt}
}

// lookup does a symbol lookup in the lexical environment of the caller.
func (caller *Caller) lookup(name string) types.Object {
	pos := caller.Call.Pos()
	for _, n := range caller.path {
		if scope := scopeFor(caller.Info, n); scope != nil {
			if _, obj := scope.LookupParent(name, pos); obj != nil {
				return obj
			}
		}
	}
	return nil
}

func scopeFor(info *types.Info, n ast.Node) *types.Scope {
	// The function body scope (containing not just params)
	// is associated with the function's type, not body.
	switch fn := n.(type) {
	case *ast.FuncDecl:
		n = fn.Type
	case *ast.FuncLit:
		n = fn.Type
	}
	return info.Scopes[n]
}

// -- predicates over expressions --

// freeVars returns the names of all free identifiers of e:
// those lexically referenced by it but not defined within it.
// (Fields and methods are not included.)
func freeVars(info *types.Info, e ast.Expr) map[string]bool {
	free := make(map[string]bool)
	ast.Inspect(e, func(n ast.Node) bool {
		if id, ok := n.(*ast.Ident); ok {
			// The isField check is so that we don't treat T{f: 0} as a ref to f.
			if obj, ok := info.Uses[id]; ok && !within(obj.Pos(), e) && !isField(obj) {
				free[obj.Name()] = true
			}
		}
		return true
	})
	return free
}

// effects reports whether an expression might change the state of the
// program (through function calls and channel receives) and affect
// the evaluation of subsequent expressions.
func (st *state) effects(info *types.Info, expr ast.Expr) bool {
	effects := false
	ast.Inspect(expr, func(n ast.Node) bool {
		switch n := n.(type) {
		case *ast.FuncLit:
			return false // prune descent

		case *ast.CallExpr:
			if info.Types[n.Fun].IsType() {
				// A conversion T(x) has only the effect of its operand.
			} else if !typesinternal.CallsPureBuiltin(info, n) {
				// A handful of built-ins have no effect
				// beyond those of their arguments.
				// All other calls (including append, copy, recover)
				// have unknown effects.
				//
				// As with 'pure', there is room for
				// improvement by inspecting the callee.
				effects = true
			}

		case *ast.UnaryExpr:
			if n.Op == token.ARROW { // <-ch
				effects = true
			}
		}
		return true
	})

	// Even if consideration of effects is not desired,
	// we continue to compute, log, and discard them.
	if st.opts.IgnoreEffects && effects {
		effects = false
		st.opts.Logf("ignoring potential effects of argument %s",
			debugFormatNode(st.caller.Fset, expr))
	}

	return effects
}

// pure reports whether an expression has the same result no matter
// when it is executed relative to other expressions, so it can be
// commuted with any other expression or statement without changing
// its meaning.
//
// An expression is considered impure if it reads the contents of any
// variable, with the exception of "single assignment" local variables
// (as classified by the provided callback), which are never updated
// after their initialization.
//
// Pure does not imply duplicable: for example, new(T) and T{} are
// pure expressions but both return a different value each time they
// are evaluated, so they are not safe to duplicate.
//
// Purity does not imply freedom from run-time panics. We assume that
// target programs do not encounter run-time panics nor depend on them
// for correct operation.
//
// TODO(adonovan): add unit tests of this function.
func pure(info *types.Info, assign1 func(*types.Var) bool, e ast.Expr) bool {
	var pure func(e ast.Expr) bool
	pure = func(e ast.Expr) bool {
		switch e := e.(type) {
		case *ast.ParenExpr:
			return pure(e.X)

		case *ast.Ident:
			if v, ok := info.Uses[e].(*types.Var); ok {
				// In general variables are impure
				// as they may be updated, but
				// single-assignment local variables
				// never change value.
				//
				// We assume all package-level variables
				// may be updated, but for non-exported
				// ones we could do better by analyzing
				// the complete package.
				return !isPkgLevel(v) && assign1(v)
			}

			// All other kinds of reference are pure.
			return true

		case *ast.FuncLit:
			// A function literal may allocate a closure that
			// references mutable variables, but mutation
			// cannot be observed without calling the function,
			// and calls are considered impure.
			return true

		case *ast.BasicLit:
			return true

		case *ast.UnaryExpr: // + - ! ^ & but not <-
			return e.Op != token.ARROW && pure(e.X)

		case *ast.BinaryExpr: // arithmetic, shifts, comparisons, &&/||
			return pure(e.X) && pure(e.Y)

		case *ast.CallExpr:
			// A conversion is as pure as its operand.
			if info.Types[e.Fun].IsType() {
				return pure(e.Args[0])
			}

			// Calls to some built-ins are as pure as their arguments.
			if typesinternal.CallsPureBuiltin(info, e) {
				for _, arg := range e.Args {
					if !pure(arg) {
						return false
					}
				}
				return true
			}

			// All other calls are impure, so we can
			// reject them without even looking at e.Fun.
			//
			// More sophisticated analysis could infer purity in
			// commonly used functions such as strings.Contains;
			// perhaps we could offer the client a hook so that
			// go/analysis-based implementation could exploit the
			// results of a purity analysis. But that would make
			// the inliner's choices harder to explain.
			return false

		case *ast.CompositeLit:
			// T{...} is as pure as its elements.
			for _, elt := range e.Elts {
				if kv, ok := elt.(*ast.KeyValueExpr); ok {
					if !pure(kv.Value) {
						return false
					}
					if id, ok := kv.Key.(*ast.Ident); ok {
						if v, ok := info.Uses[id].(*types.Var); ok && v.IsField() {
							continue // struct {field: value}
						}
					}
					// map/slice/array {key: value}
					if !pure(kv.Key) {
						return false
					}

				} else if !pure(elt) {
					return false
				}
			}
			return true

		case *ast.SelectorExpr:
			if seln, ok := info.Selections[e]; ok {
				// See types.SelectionKind for background.
				switch seln.Kind() {
				case types.MethodExpr:
					// A method expression T.f acts like a
					// reference to a func decl, so it is pure.
					return true

				case types.MethodVal, types.FieldVal:
					// A field or method selection x.f is pure
					// if x is pure and the selection does
					// not indirect a pointer.
					return !indirectSelection(seln) && pure(e.X)

				default:
					panic(seln)
				}
			} else {
				// A qualified identifier is
				// treated like an unqualified one.
				return pure(e.Sel)
			}

		case *ast.StarExpr:
			return false // *ptr depends on the state of the heap

		default:
			return false
		}
	}
	return pure(e)
}

// duplicable reports whether it is appropriate for the expression to
// be freely duplicated.
//
// Given the declaration
//
//	func f(x T) T { return x + g() + x }
//
// an argument y is considered duplicable if we would wish to see a
// call f(y) simplified to y+g()+y. This is true for identifiers,
// integer literals, unary negation, and selectors x.f where x is not
// a pointer. But we would not wish to duplicate expressions that:
// - have side effects (e.g. nearly all calls),
// - are not referentially transparent (e.g. &T{}, ptr.field, *ptr), or
// - are long (e.g. "huge string literal").
func duplicable(info *types.Info, e ast.Expr) bool {
	switch e := e.(type) {
	case *ast.ParenExpr:
		return duplicable(info, e.X)

	case *ast.Ident:
		return true

	case *ast.BasicLit:
		v := info.Types[e].Value
		switch e.Kind {
		case token.INT:
			return true // any int
		case token.STRING:
			return consteq(v, kZeroString) // only ""
		case token.FLOAT:
			return consteq(v, kZeroFloat) || consteq(v, kOneFloat) // only 0.0 or 1.0
		}

	case *ast.UnaryExpr: // e.g. +1, -1
		return (e.Op == token.ADD || e.Op == token.SUB) && duplicable(info, e.X)

	case *ast.CompositeLit:
		// Empty struct or array literals T{} are duplicable.
		// (Non-empty literals are too verbose, and slice/map
		// literals allocate indirect variables.)
		if len(e.Elts) == 0 {
			switch info.TypeOf(e).Underlying().(type) {
			case *types.Struct, *types.Array:
				return true
			}
		}
		return false

	case *ast.CallExpr:
		// Treat type conversions as duplicable if they do not observably allocate.
		// The only cases of observable allocations are
		// the `[]byte(string)` and `[]rune(string)` conversions.
		//
		// Duplicating string([]byte) conversions increases
		// allocation but doesn't change behavior, but the
		// reverse, []byte(string), allocates a distinct array,
		// which is observable.

		if !info.Types[e.Fun].IsType() { // check whether e.Fun is a type conversion
			return false
		}

		fun := info.TypeOf(e.Fun)
		arg := info.TypeOf(e.Args[0])

		switch fun := fun.Underlying().(type) {
		case *types.Slice:
			// Do not mark []byte(string) and []rune(string) as duplicable.
			elem, ok := fun.Elem().Underlying().(*types.Basic)
			if ok && (elem.Kind() == types.Rune || elem.Kind() == types.Byte) {
				from, ok := arg.Underlying().(*types.Basic)
				isString := ok && from.Info()&types.IsString != 0
				return !isString
			}
		case *types.TypeParam:
			return false // be conservative
		}
		return true

	case *ast.SelectorExpr:
		if seln, ok := info.Selections[e]; ok {
			// A field or method selection x.f is referentially
			// transparent if it does not indirect a pointer.
			return !indirectSelection(seln)
		}
		// A qualified identifier pkg.Name is referentially transparent.
		return true
	}
	return false
}

func consteq(x, y constant.Value) bool {
	return constant.Compare(x, token.EQL, y)
}

var (
	kZeroInt    = constant.MakeInt64(0)
	kZeroString = constant.MakeString("")
	kZeroFloat  = constant.MakeFloat64(0.0)
	kOneFloat   = constant.MakeFloat64(1.0)
)

// -- inline helpers --

func assert(cond bool, msg string) {
	if !cond {
		panic(msg)
	}
}

// blanks returns a slice of n > 0 blank identifiers.
func blanks[E ast.Expr](n int) []E {
	if n == 0 {
		panic("blanks(0)")
	}
	res := make([]E, n)
	for i := range res {
		res[i] = ast.Expr(makeIdent("_")).(E) // ugh
	}
	return res
}

func makeIdent(name string) *ast.Ident {
	return &ast.Ident{Name: name}
}

// importedPkgName returns the PkgName object declared by an ImportSpec.
// TODO(adonovan): make this a method of types.Info (#62037).
func importedPkgName(info *types.Info, imp *ast.ImportSpec) (*types.PkgName, bool) {
	var obj types.Object
	if imp.Name != nil {
		obj = info.Defs[imp.Name]
	} else {
		obj = info.Implicits[imp]
	}
	pkgname, ok := obj.(*types.PkgName)
	return pkgname, ok
}

func isPkgLevel(obj types.Object) bool {
	// TODO(adonovan): consider using the simpler obj.Parent() ==
	// obj.Pkg().Scope() instead. But be sure to test carefully
	// with instantiations of generics.
	return obj.Pkg().Scope().Lookup(obj.Name()) == obj
}

// callContext returns the two nodes immediately enclosing the call
// (specified as a PathEnclosingInterval), ignoring parens.
func callContext(callPath []ast.Node) (parent, grandparent ast.Node) {
	_ = callPath[0].(*ast.CallExpr) // sanity check
	for _, n := range callPath[1:] {
		if !is[*ast.ParenExpr](n) {
			if parent == nil {
				parent = n
			} else {
				return parent, n
			}
		}
	}
	return parent, nil
}

// hasLabelConflict reports whether the set of labels of the function
// enclosing the call (specified as a PathEnclosingInterval)
// intersects with the set of callee labels.
func hasLabelConflict(callPath []ast.Node, calleeLabels []string) bool {
	labels := callerLabels(callPath)
	for _, label := range calleeLabels {
		if labels[label] {
			return true // conflict
		}
	}
	return false
}

// callerLabels returns the set of control labels in the function (if
// any) enclosing the call (specified as a PathEnclosingInterval).
func callerLabels(callPath []ast.Node) map[string]bool {
	var callerBody *ast.BlockStmt
	switch f := callerFunc(callPath).(type) {
	case *ast.FuncDecl:
		callerBody = f.Body
	case *ast.FuncLit:
		callerBody = f.Body
	}
	var labels map[string]bool
	if callerBody != nil {
		ast.Inspect(callerBody, func(n ast.Node) bool {
			switch n := n.(type) {
			case *ast.FuncLit:
				return false // prune traversal
			case *ast.LabeledStmt:
				if labels == nil {
					labels = make(map[string]bool)
				}
				labels[n.Label.Name] = true
			}
			return true
		})
	}
	return labels
}

// callerFunc returns the innermost Func{Decl,Lit} node enclosing the
// call (specified as a PathEnclosingInterval).
func callerFunc(callPath []ast.Node) ast.Node {
	_ = callPath[0].(*ast.CallExpr) // sanity check
	for _, n := range callPath[1:] {
		if is[*ast.FuncDecl](n) || is[*ast.FuncLit](n) {
			return n
		}
	}
	return nil
}

// callStmt reports whether the function call (specified
// as a PathEnclosingInterval) appears within an ExprStmt,
// and returns it if so.
//
// If unrestricted, callStmt returns nil if the ExprStmt f() appears
// in a restricted context (such as "if f(); cond {") where it cannot
// be replaced by an arbitrary statement. (See "statement theory".)
func callStmt(callPath []ast.Node, unrestricted bool) *ast.ExprStmt {
	parent, _ := callContext(callPath)
	stmt, ok := parent.(*ast.ExprStmt)
	if ok && unrestricted {
		switch callPath[slices.Index(callPath, ast.Node(stmt))+1].(type) {
		case *ast.LabeledStmt,
			*ast.BlockStmt,
			*ast.CaseClause,
			*ast.CommClause:
			// unrestricted
		default:
			// TODO(adonovan): handle restricted
			// XYZStmt.Init contexts (but not ForStmt.Post)
			// by creating a block around the if/for/switch:
			// "if f(); cond {"  ->  "{ stmts; if cond {"

			return nil // restricted
		}
	}
	return stmt
}

// Statement theory
//
// These are all the places a statement may appear in the AST:
//
// LabeledStmt.Stmt       Stmt      -- any
// BlockStmt.List       []Stmt      -- any (but see switch/select)
// IfStmt.Init            Stmt?     -- simple
// IfStmt.Body            BlockStmt
// IfStmt.Else            Stmt?     -- IfStmt or BlockStmt
// CaseClause.Body      []Stmt      -- any
// SwitchStmt.Init        Stmt?     -- simple
// SwitchStmt.Body        BlockStmt -- CaseClauses only
// TypeSwitchStmt.Init    Stmt?     -- simple
// TypeSwitchStmt.Assign  Stmt      -- AssignStmt(TypeAssertExpr) or ExprStmt(TypeAssertExpr)
// TypeSwitchStmt.Body    BlockStmt -- CaseClauses only
// CommClause.Comm        Stmt?     -- SendStmt or ExprStmt(UnaryExpr) or AssignStmt(UnaryExpr)
// CommClause.Body      []Stmt      -- any
// SelectStmt.Body        BlockStmt -- CommClauses only
// ForStmt.Init           Stmt?     -- simple
// ForStmt.Post           Stmt?     -- simple
// ForStmt.Body           BlockStmt
// RangeStmt.Body         BlockStmt
//
// simple = AssignStmt | SendStmt | IncDecStmt | ExprStmt.
//
// A BlockStmt cannot replace an ExprStmt in
// {If,Switch,TypeSwitch}Stmt.Init or ForStmt.Post.
// That is allowed only within:
//   LabeledStmt.Stmt       Stmt
//   BlockStmt.List       []Stmt
//   CaseClause.Body      []Stmt
//   CommClause.Body      []Stmt

// replaceNode performs a destructive update of the tree rooted at
// root, replacing each occurrence of "from" with "to". If to is nil and
// the element is within a slice, the slice element is removed.
//
// The root itself cannot be replaced; an attempt will panic.
//
// This function must not be called on the caller's syntax tree.
//
// TODO(adonovan): polish this up and move it to astutil package.
// TODO(adonovan): needs a unit test.
func replaceNode(root ast.Node, from, to ast.Node) {
	if from == nil {
		panic("from == nil")
	}
	if reflect.ValueOf(from).IsNil() {
		panic(fmt.Sprintf("from == (%T)(nil)", from))
	}
	if from == root {
		panic("from == root")
	}
	found := false
	var parent reflect.Value // parent variable of interface type, containing a pointer
	var visit func(reflect.Value)
	visit = func(v reflect.Value) {
		switch v.Kind() {
		case reflect.Pointer:
			if v.Interface() == from {
				found = true

				// If v is a struct field or array element
				// (e.g. Field.Comment or Field.Names[i])
				// then it is addressable (a pointer variable).
				//
				// But if it was the value an interface
				// (e.g. *ast.Ident within ast.Node)
				// then it is non-addressable, and we need
				// to set the enclosing interface (parent).
				if !v.CanAddr() {
					v = parent
				}

				// to=nil => use zero value
				var toV reflect.Value
				if to != nil {
					toV = reflect.ValueOf(to)
				} else {
					toV = reflect.Zero(v.Type()) // e.g. ast.Expr(nil)
				}
				v.Set(toV)

			} else if !v.IsNil() {
				switch v.Interface().(type) {
				case *ast.Object, *ast.Scope:
					// Skip fields of types potentially involved in cycles.
				default:
					visit(v.Elem())
				}
			}

		case reflect.Struct:
			for i := range v.Type().NumField() {
				visit(v.Field(i))
			}

		case reflect.Slice:
			compact := false
			for i := range v.Len() {
				visit(v.Index(i))
				if v.Index(i).IsNil() {
					compact = true
				}
			}
			if compact {
				// Elements were deleted. Eliminate nils.
				// (Do this is a second pass to avoid
				// unnecessary writes in the common case.)
				j := 0
				for i := range v.Len() {
					if !v.Index(i).IsNil() {
						v.Index(j).Set(v.Index(i))
						j++
					}
				}
				v.SetLen(j)
			}
		case reflect.Interface:
			parent = v
			visit(v.Elem())

		case reflect.Array, reflect.Chan, reflect.Func, reflect.Map, reflect.UnsafePointer:
			panic(v) // unreachable in AST
		default:
			// bool, string, number: nop
		}
		parent = reflect.Value{}
	}
	visit(reflect.ValueOf(root))
	if !found {
		panic(fmt.Sprintf("%T not found", from))
	}
}

// cleanNode returns a clone of node with positions cleared.
//
// It should be used for any callee nodes that are formatted using the caller
// file set.
func cleanNode[T ast.Node](node T) T {
	clone := internalastutil.CloneNode(node)
	clearPositions(clone)
	return clone
}

func cleanNodes[T ast.Node](nodes []T) []T {
	var clean []T
	for _, node := range nodes {
		clean = append(clean, cleanNode(node))
	}
	return clean
}

// clearPositions destroys token.Pos information within the tree rooted at root,
// as positions in callee trees may cause caller comments to be emitted prematurely.
//
// In general it isn't safe to clear a valid Pos because some of them
// (e.g. CallExpr.Ellipsis, TypeSpec.Assign) are significant to
// go/printer, so this function sets each non-zero Pos to 1, which
// suffices to avoid advancing the printer's comment cursor.
//
// This function mutates its argument; do not invoke on caller syntax.
//
// TODO(adonovan): remove this horrendous workaround when #20744 is finally fixed.
func clearPositions(root ast.Node) {
	posType := reflect.TypeFor[token.Pos]()
	ast.Inspect(root, func(n ast.Node) bool {
		if n != nil {
			v := reflect.ValueOf(n).Elem() // deref the pointer to struct
			fields := v.Type().NumField()
			for i := range fields {
				f := v.Field(i)
				// Clearing Pos arbitrarily is destructive,
				// as its presence may be semantically significant
				// (e.g. CallExpr.Ellipsis, TypeSpec.Assign)
				// or affect formatting preferences (e.g. GenDecl.Lparen).
				//
				// Note: for proper formatting, it may be necessary to be selective
				// about which positions we set to 1 vs which we set to token.NoPos.
				// (e.g. we can set most to token.NoPos, save the few that are
				// significant).
				if f.Type() == posType {
					if f.Interface() != token.NoPos {
						f.Set(reflect.ValueOf(token.Pos(1)))
					}
				}
			}
		}
		return true
	})
}

// findIdent finds the Ident beneath root that has the given pos.
// It returns the path to the ident (excluding the ident), and the ident
// itself, where the path is the sequence of ast.Nodes encountered in a
// depth-first search to find ident.
func findIdent(root ast.Node, pos token.Pos) ([]ast.Node, *ast.Ident) {
	// TODO(adonovan): opt: skip subtrees that don't contain pos.
	var (
		path  []ast.Node
		found *ast.Ident
	)
	ast.Inspect(root, func(n ast.Node) bool {
		if found != nil {
			return false
		}
		if n == nil {
			path = path[:len(path)-1]
			return false
		}
		if id, ok := n.(*ast.Ident); ok {
			if id.Pos() == pos {
				found = id
				return true
			}
		}
		path = append(path, n)
		return true
	})
	if found == nil {
		panic(fmt.Sprintf("findIdent %d not found in %s",
			pos, debugFormatNode(token.NewFileSet(), root)))
	}
	return path, found
}

func prepend[T any](elem T, slice ...T) []T {
	return append([]T{elem}, slice...)
}

// debugFormatNode formats a node or returns a formatting error.
// Its sloppy treatment of errors is appropriate only for logging.
func debugFormatNode(fset *token.FileSet, n ast.Node) string {
	var out strings.Builder
	if err := format.Node(&out, fset, n); err != nil {
		out.WriteString(err.Error())
	}
	return out.String()
}

func shallowCopy[T any](ptr *T) *T {
	copy := *ptr
	return &copy
}

// ∀
func forall[T any](list []T, f func(i int, x T) bool) bool {
	for i, x := range list {
		if !f(i, x) {
			return false
		}
	}
	return true
}

// ∃
func exists[T any](list []T, f func(i int, x T) bool) bool {
	for i, x := range list {
		if f(i, x) {
			return true
		}
	}
	return false
}

// last returns the last element of a slice, or zero if empty.
func last[T any](slice []T) T {
	n := len(slice)
	if n > 0 {
		return slice[n-1]
	}
	return *new(T)
}

// declares returns the set of lexical names declared by a
// sequence of statements from the same block, excluding sub-blocks.
// (Lexical names do not include control labels.)
func declares(stmts []ast.Stmt) map[string]bool {
	names := make(map[string]bool)
	for _, stmt := range stmts {
		switch stmt := stmt.(type) {
		case *ast.DeclStmt:
			for _, spec := range stmt.Decl.(*ast.GenDecl).Specs {
				switch spec := spec.(type) {
				case *ast.ValueSpec:
					for _, id := range spec.Names {
						names[id.Name] = true
					}
				case *ast.TypeSpec:
					names[spec.Name.Name] = true
				}
			}

		case *ast.AssignStmt:
			if stmt.Tok == token.DEFINE {
				for _, lhs := range stmt.Lhs {
					names[lhs.(*ast.Ident).Name] = true
				}
			}
		}
	}
	delete(names, "_")
	return names
}

// A importNameFunc is used to query local import names in the caller, in a
// particular shadowing context.
//
// The shadow map contains additional names shadowed in the inlined code, at
// the position the local import name is to be used. The shadow map only needs
// to contain newly introduced names in the inlined code; names shadowed at the
// caller are handled automatically.
type importNameFunc = func(pkgPath string, shadow shadowMap) string

// assignStmts rewrites a statement assigning the results of a call into zero
// or more statements that assign its return operands, or (nil, false) if no
// such rewrite is possible. The set of bindings created by the result of
// assignStmts is the same as the set of bindings created by the callerStmt.
//
// The callee must contain exactly one return statement.
//
// This is (once again) a surprisingly complex task. For example, depending on
// types and existing bindings, the assignment
//
//	a, b := f()
//
// could be rewritten as:
//
//	a, b := 1, 2
//
// but may need to be written as:
//
//	a, b := int8(1), int32(2)
//
// In the case where the return statement within f is a spread call to another
// function g(), we cannot explicitly convert the return values inline, and so
// it may be necessary to split the declaration and assignment of variables
// into separate statements:
//
//	a, b := g()
//
// or
//
//	var a int32
//	a, b = g()
//
// or
//
//	var (
//		a int8
//		b int32
//	)
//	a, b = g()
//
// Note: assignStmts may return (nil, true) if it determines that the rewritten
// assignment consists only of _ = nil assignments.
func (st *state) assignStmts(callerStmt *ast.AssignStmt, returnOperands []ast.Expr, importName importNameFunc) ([]ast.Stmt, bool) {
	logf, caller, callee := st.opts.Logf, st.caller, &st.callee.impl

	assert(len(callee.Returns) == 1, "unexpected multiple returns")
	resultInfo := callee.Returns[0]

	// When constructing assign statements, we need to make sure that we don't
	// modify types on the left-hand side, such as would happen if the type of a
	// RHS expression does not match the corresponding LHS type at the caller
	// (due to untyped conversion or interface widening).
	//
	// This turns out to be remarkably tricky to handle correctly.
	//
	// Substrategies below are labeled as `Substrategy <name>:`.

	// Collect LHS information.
	var (
		lhs    []ast.Expr                                // shallow copy of the LHS slice, for mutation
		defs   = make([]*ast.Ident, len(callerStmt.Lhs)) // indexes in lhs of defining identifiers
		blanks = make([]bool, len(callerStmt.Lhs))       // indexes in lhs of blank identifiers
		byType typeutil.Map                              // map of distinct types -> indexes, for writing specs later
	)
	for i, expr := range callerStmt.Lhs {
		lhs = append(lhs, expr)
		if name, ok := expr.(*ast.Ident); ok {
			if name.Name == "_" {
				blanks[i] = true
				continue // no type
			}

			if obj, isDef := caller.Info.Defs[name]; isDef {
				defs[i] = name
				typ := obj.Type()
				idxs, _ := byType.At(typ).([]int)
				idxs = append(idxs, i)
				byType.Set(typ, idxs)
			}
		}
	}

	// Collect RHS information
	//
	// The RHS is either a parallel assignment or spread assignment, but by
	// looping over both callerStmt.Rhs and returnOperands we handle both.
	var (
		rhs             []ast.Expr              // new RHS of assignment, owned by the inliner
		callIdx         = -1                    // index of the call among the original RHS
		nilBlankAssigns = make(map[int]unit)    // indexes in rhs of _ = nil assignments, which can be deleted
		freeNames       = make(map[string]bool) // free(ish) names among rhs expressions
		nonTrivial      = make(map[int]bool)    // indexes in rhs of nontrivial result conversions
	)
	const includeComplitIdents = true

	for i, expr := range callerStmt.Rhs {
		if expr == caller.Call {
			assert(callIdx == -1, "malformed (duplicative) AST")
			callIdx = i
			for j, returnOperand := range returnOperands {
				maps.Copy(freeNames, free.Names(returnOperand, includeComplitIdents))
				rhs = append(rhs, returnOperand)
				if resultInfo[j]&nonTrivialResult != 0 {
					nonTrivial[i+j] = true
				}
				if blanks[i+j] && resultInfo[j]&untypedNilResult != 0 {
					nilBlankAssigns[i+j] = unit{}
				}
			}
		} else {
			// We must clone before clearing positions, since e came from the caller.
			expr = internalastutil.CloneNode(expr)
			clearPositions(expr)
			maps.Copy(freeNames, free.Names(expr, includeComplitIdents))
			rhs = append(rhs, expr)
		}
	}
	assert(callIdx >= 0, "failed to find call in RHS")

	// Substrategy "splice": Check to see if we can simply splice in the result
	// expressions from the callee, such as simplifying
	//
	//  x, y := f()
	//
	// to
	//
	//  x, y := e1, e2
	//
	// where the types of x and y match the types of e1 and e2.
	//
	// This works as long as we don't need to write any additional type
	// information.
	if len(nonTrivial) == 0 { // no non-trivial conversions to worry about

		logf("substrategy: splice assignment")
		return []ast.Stmt{&ast.AssignStmt{
			Lhs:    lhs,
			Tok:    callerStmt.Tok,
			TokPos: callerStmt.TokPos,
			Rhs:    rhs,
		}}, true
	}

	// Inlining techniques below will need to write type information in order to
	// preserve the correct types of LHS identifiers.
	//
	// typeExpr is a simple helper to write out type expressions. It currently
	// handles (possibly qualified) type names.
	//
	// TODO(rfindley):
	//   1. expand this to handle more type expressions.
	//   2. refactor to share logic with callee rewriting.
	universeAny := types.Universe.Lookup("any")
	typeExpr := func(typ types.Type, shadow shadowMap) ast.Expr {
		var (
			typeName string
			obj      *types.TypeName // nil for basic types
		)
		if tname := typesinternal.TypeNameFor(typ); tname != nil {
			obj = tname
			typeName = tname.Name()
		}

		// Special case: check for universe "any".
		// TODO(golang/go#66921): this may become unnecessary if any becomes a proper alias.
		if typ == universeAny.Type() {
			typeName = "any"
		}

		if typeName == "" {
			return nil
		}

		if obj == nil || obj.Pkg() == nil || obj.Pkg() == caller.Types { // local type or builtin
			if shadow[typeName] != 0 {
				logf("cannot write shadowed type name %q", typeName)
				return nil
			}
			obj, _ := caller.lookup(typeName).(*types.TypeName)
			if obj != nil && types.Identical(obj.Type(), typ) {
				return ast.NewIdent(typeName)
			}
		} else if pkgName := importName(obj.Pkg().Path(), shadow); pkgName != "" {
			return &ast.SelectorExpr{
				X:   ast.NewIdent(pkgName),
				Sel: ast.NewIdent(typeName),
			}
		}
		return nil
	}

	// Substrategy "spread": in the case of a spread call (func f() (T1, T2) return
	// g()), since we didn't hit the 'splice' substrategy, there must be some
	// non-declaring expression on the LHS. Simplify this by pre-declaring
	// variables, rewriting
	//
	//   x, y := f()
	//
	// to
	//
	//  var x int
	//  x, y = g()
	//
	// Which works as long as the predeclared variables do not overlap with free
	// names on the RHS.
	if len(rhs) != len(lhs) {
		assert(len(rhs) == 1 && len(returnOperands) == 1, "expected spread call")

		for _, id := range defs {
			if id != nil && freeNames[id.Name] {
				// By predeclaring variables, we're changing them to be in scope of the
				// RHS. We can't do this if their names are free on the RHS.
				return nil, false
			}
		}

		// Write out the specs, being careful to avoid shadowing free names in
		// their type expressions.
		var (
			specs    []ast.Spec
			specIdxs []int
			shadow   = make(shadowMap)
		)
		failed := false
		byType.Iterate(func(typ types.Type, v any) {
			if failed {
				return
			}
			idxs := v.([]int)
			specIdxs = append(specIdxs, idxs[0])
			texpr := typeExpr(typ, shadow)
			if texpr == nil {
				failed = true
				return
			}
			spec := &ast.ValueSpec{
				Type: texpr,
			}
			for _, idx := range idxs {
				spec.Names = append(spec.Names, ast.NewIdent(defs[idx].Name))
			}
			specs = append(specs, spec)
		})
		if failed {
			return nil, false
		}
		logf("substrategy: spread assignment")
		return []ast.Stmt{
			&ast.DeclStmt{
				Decl: &ast.GenDecl{
					Tok:   token.VAR,
					Specs: specs,
				},
			},
			&ast.AssignStmt{
				Lhs: callerStmt.Lhs,
				Tok: token.ASSIGN,
				Rhs: returnOperands,
			},
		}, true
	}

	assert(len(lhs) == len(rhs), "mismatching LHS and RHS")

	// Substrategy "convert": write out RHS expressions with explicit type conversions
	// as necessary, rewriting
	//
	//  x, y := f()
	//
	// to
	//
	//  x, y := 1, int32(2)
	//
	// As required to preserve types.
	//
	// In the special case of _ = nil, which is disallowed by the type checker
	// (since nil has no default type), we delete the assignment.
	var origIdxs []int // maps back to original indexes after lhs and rhs are pruned
	i := 0
	for j := range lhs {
		if _, ok := nilBlankAssigns[j]; !ok {
			lhs[i] = lhs[j]
			rhs[i] = rhs[j]
			origIdxs = append(origIdxs, j)
			i++
		}
	}
	lhs = lhs[:i]
	rhs = rhs[:i]

	if len(lhs) == 0 {
		logf("trivial assignment after pruning nil blanks assigns")
		// After pruning, we have no remaining assignments.
		// Signal this by returning a non-nil slice of statements.
		return nil, true
	}

	// Write out explicit conversions as necessary.
	//
	// A conversion is necessary if the LHS is being defined, and the RHS return
	// involved a nontrivial implicit conversion.
	for i, expr := range rhs {
		idx := origIdxs[i]
		if nonTrivial[idx] && defs[idx] != nil {
			typ := caller.Info.TypeOf(lhs[i])
			texpr := typeExpr(typ, nil)
			if texpr == nil {
				return nil, false
			}
			if _, ok := texpr.(*ast.StarExpr); ok {
				// TODO(rfindley): is this necessary? Doesn't the formatter add these parens?
				texpr = &ast.ParenExpr{X: texpr} // *T -> (*T)   so that (*T)(x) is valid
			}
			rhs[i] = &ast.CallExpr{
				Fun:  texpr,
				Args: []ast.Expr{expr},
			}
		}
	}
	logf("substrategy: convert assignment")
	return []ast.Stmt{&ast.AssignStmt{
		Lhs: lhs,
		Tok: callerStmt.Tok,
		Rhs: rhs,
	}}, true
}

// tailCallSafeReturn reports whether the callee's return statements may be safely
// used to return from the function enclosing the caller (which must exist).
func tailCallSafeReturn(caller *Caller, calleeSymbol *types.Func, callee *gobCallee) bool {
	// It is safe if all callee returns involve only trivial conversions.
	if !hasNonTrivialReturn(callee.Returns) {
		return true
	}

	var callerType types.Type
	// Find type of innermost function enclosing call.
	// (Beware: Caller.enclosingFunc is the outermost.)
loop:
	for _, n := range caller.path {
		switch f := n.(type) {
		case *ast.FuncDecl:
			callerType = caller.Info.ObjectOf(f.Name).Type()
			break loop
		case *ast.FuncLit:
			callerType = caller.Info.TypeOf(f)
			break loop
		}
	}

	// Non-trivial return conversions in the callee are permitted
	// if the same non-trivial conversion would occur after inlining,
	// i.e. if the caller and callee results tuples are identical.
	callerResults := callerType.(*types.Signature).Results()
	calleeResults := calleeSymbol.Type().(*types.Signature).Results()
	return types.Identical(callerResults, calleeResults)
}

// hasNonTrivialReturn reports whether any of the returns involve a nontrivial
// implicit conversion of a result expression.
func hasNonTrivialReturn(returnInfo [][]returnOperandFlags) bool {
	for _, resultInfo := range returnInfo {
		for _, r := range resultInfo {
			if r&nonTrivialResult != 0 {
				return true
			}
		}
	}
	return false
}

type unit struct{} // for representing sets as maps

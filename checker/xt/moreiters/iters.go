// Copyright 2025 The Go Authors. All rights reserved.
// Use of this source code is governed by a BSD-style
// license that can be found in the LICENSE file.

package moreiters

import "iter"

// First returns the first value of seq and true.
// If seq is empty, it returns the zero value of T and false.
func First[T any](seq iter.Seq[T]) (z T, ok bool) {
	for t := range seq {
		return t, true
	}
	return z, false
}

// Contains reports whether x is an element of the sequence seq.
func Contains[T comparable](seq iter.Seq[T], x T) bool {
	for cand := range seq {
		if cand == x {
			return true
		}
	}
	return false
}

// Every reports whether every pred(t) for t in seq returns true,
// stopping at the first false element.
func Every[T any](seq iter.Seq[T], pred func(T) bool) bool {
	for t := range seq {
		if !pred(t) {
			return false
		}
	}
	return true
}

// Any reports whether any pred(t) for t in seq returns true.
func Any[T any](seq iter.Seq[T], pred func(T) bool) bool {
	for t := range seq {
		if pred(t) {
			return true
		}
	}
	return false
}

// Len returns the number of elements in the sequence (by iterating).
func Len[T any](seq iter.Seq[T]) (n int) {
	for range seq {
		n++
	}
	return
}

// Empty reports whether the sequence contains no elements.
func Empty[T any](seq iter.Seq[T]) bool {
	for range seq {
		return false
	}
	return true
}

// Copyright 2025 The Go Authors. All rights reserved.
// Use of this source code is governed by a BSD-style
// license that can be found in the LICENSE file.

// Package packagepath provides metadata operations on package path
// strings.
package packagepath

// (This package should not depend on go/ast.)
import "strings"

// CanImport reports whether one package is allowed to import another.
//
// TODO(adonovan): allow customization of the accessibility relation
// (e.g. for Bazel).
func CanImport(from, to string) bool {
	// TODO(adonovan): better segment hygiene.
	if to == "internal" || strings.HasPrefix(to, "internal/") {
		// Special case: only std packages may import internal/...
		// We can't reliably know whether we're in std, so we
		// use a heuristic on the first segment.
		first, _, _ := strings.Cut(from, "/")
		if strings.Contains(first, ".") {
			return false // example.com/foo ∉ std
		}
		if first == "testdata" {
			return false // testdata/foo ∉ std
		}
	}
	if strings.HasSuffix(to, "/internal") {
		return strings.HasPrefix(from, to[:len(to)-len("/internal")])
	}
	if i := strings.LastIndex(to, "/internal/"); i >= 0 {
		return strings.HasPrefix(from, to[:i])
	}
	return true
}

// MaybeStdPackage reports whether the specified package path might
// belong to a package in the standard library (including internal
// dependencies), based only on its form.
//
// It may spuriously return true, but a result of false is definitive:
//
//	MaybeStdPackage("fmt")             = true
//	MaybeStdPackage("maybe/tomorrow")  = true  // false positive
//	MaybeStdPackage("example.com/foo") = false
//
// For a definitive answer, use [stdlib.HasPackage], which consults a
// huge table.
func MaybeStdPackage(path string) bool {
	// A standard package has no dot in its first segment.
	// (It may yet have a dot, e.g. "vendor/golang.org/x/foo".)
	slash := strings.IndexByte(path, '/')
	if slash < 0 {
		slash = len(path)
	}
	return !strings.Contains(path[:slash], ".") && path != "testdata"
}

// Copyright 2023 The Go Authors. All rights reserved.
// Use of this source code is governed by a BSD-style
// license that can be found in the LICENSE file.

// Package astutil provides various AST utility functions for gopls.
package astutil

import (
	"bytes"
	"go/scanner"
	"go/token"
)

// PurgeFuncBodies returns a copy of src in which the contents of each
// outermost {...} region have been deleted, except for struct and
// interface type bodies and the bodies of length-elided array
// literals ([...]T), whose element count is part of the type. It
// includes function bodies, function-literal bodies, and the bodies
// of slice, map, and explicitly-sized array composite literals (whose
// contents don't affect the type of the enclosing declaration). This
// reduces the amount of work required to parse the top-level
// declarations.
//
// PurgeFuncBodies does not preserve newlines or position information.
// Also, if the input is invalid, parsing the output of
// PurgeFuncBodies may result in a different tree due to its effects
// on parser error recovery.
func PurgeFuncBodies(src []byte) []byte {
	// Destroy the content of any {...}-bracketed regions that are
	// not immediately preceded by a "struct" or "interface" token,
	// and that are not the body of a length-elided array literal.
	// That includes function bodies, switch/select bodies, and most
	// composite literals; this will lead to non-void functions that
	// don't have return statements, which of course is a type error,
	// but that's ok.

	var out bytes.Buffer
	file := token.NewFileSet().AddFile("", -1, len(src))
	var sc scanner.Scanner
	sc.Init(file, src, nil, 0)
	var prev token.Token
	var cursor int         // last consumed src offset
	var braces []token.Pos // stack of unclosed braces, or -1 for a region we preserve
	var ellipsis bool      // saw "[...]" not yet consumed by a literal-body "{"
	for {
		pos, tok, _ := sc.Scan()
		if tok == token.EOF {
			break
		}
		switch tok {
		case token.COMMENT:
			// TODO(adonovan): opt: skip, to save an estimated 20% of time.

		case token.SEMICOLON:
			ellipsis = false

		case token.RBRACK:
			// "...]" occurs only in the array-type prefix of a
			// composite literal; variadic "..." is followed by
			// a type or ")", never "]".
			if prev == token.ELLIPSIS {
				ellipsis = true
			}

		case token.LBRACE:
			if prev == token.STRUCT || prev == token.INTERFACE {
				pos = -1 // type body: preserve (don't consume ellipsis)
			} else if ellipsis {
				pos = -1 // [...]T literal body: preserve
				ellipsis = false
			}
			braces = append(braces, pos)

		case token.RBRACE:
			if last := len(braces) - 1; last >= 0 {
				top := braces[last]
				braces = braces[:last]
				if top < 0 {
					// preserve
				} else if len(braces) == 0 { // toplevel only
					// Delete {...} body.
					start := file.Offset(top)
					end := file.Offset(pos)
					out.Write(src[cursor : start+len("{")])
					cursor = end
				}
			}
		}
		prev = tok
	}
	out.Write(src[cursor:])
	return out.Bytes()
}

// Copyright 2025 The Go Authors. All rights reserved.
// Use of this source code is governed by a BSD-style
// license that can be found in the LICENSE file.

package astutil

import (
	"fmt"
	"go/ast"
	"go/token"
	"strconv"
	"unicode/utf8"
)

// RangeInStringLiteral calculates the positional range within a string literal
// corresponding to the specified start and end byte offsets within the logical string.
func RangeInStringLiteral(lit *ast.BasicLit, start, end int) (Range, error) {
	startPos, err := PosInStringLiteral(lit, start)
	if err != nil {
		return Range{}, fmt.Errorf("start: %v", err)
	}
	endPos, err := PosInStringLiteral(lit, end)
	if err != nil {
		return Range{}, fmt.Errorf("end: %v", err)
	}
	return Range{startPos, endPos}, nil
}

// PosInStringLiteral returns the position within a string literal
// corresponding to the specified byte offset within the logical
// string that it denotes.
func PosInStringLiteral(lit *ast.BasicLit, offset int) (token.Pos, error) {
	raw := lit.Value

	value, err := strconv.Unquote(raw)
	if err != nil {
		return 0, err
	}
	if !(0 <= offset && offset <= len(value)) {
		return 0, fmt.Errorf("invalid offset")
	}

	pos, _ := walkStringLiteral(lit, lit.End(), offset)
	return pos, nil
}

// OffsetInStringLiteral returns the byte offset within the logical (unquoted)
// string corresponding to the specified source position.
func OffsetInStringLiteral(lit *ast.BasicLit, pos token.Pos) (int, error) {
	if !NodeContainsPos(lit, pos) {
		return 0, fmt.Errorf("invalid position")
	}

	raw := lit.Value

	value, err := strconv.Unquote(raw)
	if err != nil {
		return 0, err
	}

	_, offset := walkStringLiteral(lit, pos, len(value))
	return offset, nil
}

// walkStringLiteral iterates through the raw string literal to map between
// a file position and a logical byte offset. It stops when it reaches
// either the targetPos or the targetOffset.
//
// TODO(hxjiang): consider making an iterator.
func walkStringLiteral(lit *ast.BasicLit, targetPos token.Pos, targetOffset int) (token.Pos, int) {
	raw := lit.Value
	norm := int(lit.End()-lit.Pos()) > len(lit.Value)

	// remove quotes
	quote := raw[0] // '"' or '`'
	raw = raw[1 : len(raw)-1]

	var (
		i   = 0             // byte index within logical value
		pos = lit.Pos() + 1 // position within literal
	)

	for raw != "" {
		r, _, rest, _ := strconv.UnquoteChar(raw, quote) // can't fail
		sz := len(raw) - len(rest)                       // length of literal char in raw bytes

		nextPos := pos + token.Pos(sz)
		if norm && r == '\n' {
			nextPos++
		}
		nextI := i + utf8.RuneLen(r) // length of logical char in "cooked" bytes

		if nextPos > targetPos || nextI > targetOffset {
			break
		}

		raw = raw[sz:]
		i = nextI
		pos = nextPos
	}

	return pos, i
}

// Copyright 2025 The Go Authors. All rights reserved.
// Use of this source code is governed by a BSD-style
// license that can be found in the LICENSE file.

package astutil

import (
	"go/ast"
	"go/token"
	"iter"
	"sort"
	"strings"
)

// Deprecation returns the paragraph of the doc comment that starts with the
// conventional "Deprecation: " marker, or the end of a single-line comment
// with the deprecation marker, as defined by https://go.dev/wiki/Deprecated.
// Returns "" if the documented symbol is not deprecated.
//
// Deprecation(nil) returns the empty string.
func Deprecation(doc *ast.CommentGroup) string {
	// doc.Text() is newline-terminated. For legacy reasons, this function will
	// return as newline-terminated if is the last segment of the CommentGroup
	// but not if it is a paragraph in the middle of the CommentGroup.
	docText := doc.Text()
	for p := range strings.SplitSeq(docText, "\n\n") {
		// There is still some ambiguity for deprecation message. This function
		// only returns the paragraph introduced by "Deprecated: ". More
		// information related to the deprecation may follow in additional
		// paragraphs, but the deprecation message should be able to stand on
		// its own. See golang/go#38743.
		if strings.HasPrefix(p, "Deprecated: ") {
			return p
		}
	}

	// We also want to support deprecation markers in line comments. Not all
	// call sites know whether they have a line comment or the type of AST node
	// the comment is associated with; so to best match line deprecations,
	// the CommentGroup must meet these criteria:
	//   * The doc.Text() is a single line.
	//   * The comment uses the "// ..." format.
	if doc == nil || len(doc.List) != 1 || !strings.HasPrefix(doc.List[0].Text, "//") {
		return ""
	}
	if i := strings.Index(docText, "Deprecated: "); i != -1 {
		return docText[i:]
	}
	return ""
}

// -- plundered from the future (CL 605517, issue #68021) --

// TODO(adonovan): replace with ast.Directive in go1.26 (#68021).
// Beware of our local mods to handle analysistest
// "want" comments on the same line.

// A directive is a comment line with special meaning to the Go
// toolchain or another tool. It has the form:
//
//	//tool:name args
//
// The "tool:" portion is missing for the three directives named
// line, extern, and export.
//
// See https://go.dev/doc/comment#Syntax for details of Go comment
// syntax and https://pkg.go.dev/cmd/compile#hdr-Compiler_Directives
// for details of directives used by the Go compiler.
type Directive struct {
	Pos  token.Pos // of preceding "//"
	Tool string
	Name string
	Args string // may contain internal spaces
}

// isDirective reports whether c is a comment directive.
// This code is also in go/printer.
func isDirective(c string) bool {
	// "//line " is a line directive.
	// "//extern " is for gccgo.
	// "//export " is for cgo.
	// (The // has been removed.)
	if strings.HasPrefix(c, "line ") || strings.HasPrefix(c, "extern ") || strings.HasPrefix(c, "export ") {
		return true
	}

	// "//[a-z0-9]+:[a-z0-9]"
	// (The // has been removed.)
	colon := strings.Index(c, ":")
	if colon <= 0 || colon+1 >= len(c) {
		return false
	}
	for i := 0; i <= colon+1; i++ {
		if i == colon {
			continue
		}
		b := c[i]
		if !('a' <= b && b <= 'z' || '0' <= b && b <= '9') {
			return false
		}
	}
	return true
}

// Directives returns the directives within the comment.
func Directives(g *ast.CommentGroup) (res []*Directive) {
	if g != nil {
		// Avoid (*ast.CommentGroup).Text() as it swallows directives.
		for _, c := range g.List {
			if len(c.Text) > 2 &&
				c.Text[1] == '/' &&
				c.Text[2] != ' ' &&
				isDirective(c.Text[2:]) {

				tool, nameargs, ok := strings.Cut(c.Text[2:], ":")
				if !ok {
					// Must be one of {line,extern,export}.
					tool, nameargs = "", tool
				}
				name, args, _ := strings.Cut(nameargs, " ") // tab??
				// Permit an additional line comment after the args, chiefly to support
				// [golang.org/x/tools/go/analysis/analysistest].
				args, _, _ = strings.Cut(args, "//")
				res = append(res, &Directive{
					Pos:  c.Slash,
					Tool: tool,
					Name: name,
					Args: strings.TrimSpace(args),
				})
			}
		}
	}
	return
}

// Comments returns an iterator over the comments overlapping the specified interval.
// Comments are sorted by position in the file, so we can use binary search.
func Comments(file *ast.File, start, end token.Pos) iter.Seq[*ast.Comment] {
	return func(yield func(*ast.Comment) bool) {
		// Find the first comment group that overlaps the range.
		i := sort.Search(len(file.Comments), func(i int) bool {
			return file.Comments[i].End() >= start
		})
		for _, cg := range file.Comments[i:] {
			if cg.Pos() > end {
				return
			}
			// Find the first comment in the group that overlaps the range.
			j := sort.Search(len(cg.List), func(j int) bool {
				return cg.List[j].End() >= start
			})
			for _, co := range cg.List[j:] {
				if co.Pos() > end {
					return
				}
				if !yield(co) {
					return
				}
			}
		}
	}
}

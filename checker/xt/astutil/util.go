// Copyright 2025 The Go Authors. All rights reserved.
// Use of this source code is governed by a BSD-style
// license that can be found in the LICENSE file.

package astutil

import (
	"fmt"
	"go/ast"
	"go/printer"
	"go/token"
	"strings"

	"golang.org/x/tools/go/ast/inspector"
	"cometlint/xt/moreiters"
)

// NodeContains reports whether the Pos/End range of node n encloses
// the given range.
//
// It is inclusive of both end points, to allow hovering (etc) when
// the cursor is immediately after a node.
//
// Like [NodeRange], it treats the range of an [ast.File] as the
// file's complete extent.
//
// Precondition: n must not be nil.
func NodeContains(n ast.Node, rng Range) bool {
	return NodeRange(n).Contains(rng)
}

// NodeContainsPos reports whether the Pos/End range of node n encloses
// the given pos.
//
// Like [NodeRange], it treats the range of an [ast.File] as the
// file's complete extent.
func NodeContainsPos(n ast.Node, pos token.Pos) bool {
	return NodeRange(n).ContainsPos(pos)
}

// EnclosingFile returns the syntax tree for the file enclosing c.
//
// TODO(adonovan): promote this to a method of Cursor.
func EnclosingFile(c inspector.Cursor) *ast.File {
	c, _ = moreiters.First(c.Enclosing((*ast.File)(nil)))
	return c.Node().(*ast.File)
}

// DocComment returns the doc comment for a node, if any.
func DocComment(n ast.Node) *ast.CommentGroup {
	switch n := n.(type) {
	case *ast.FuncDecl:
		return n.Doc
	case *ast.GenDecl:
		return n.Doc
	case *ast.ValueSpec:
		return n.Doc
	case *ast.TypeSpec:
		return n.Doc
	case *ast.File:
		return n.Doc
	case *ast.ImportSpec:
		return n.Doc
	case *ast.Field:
		return n.Doc
	}
	return nil
}

// Format returns a string representation of the node n.
func Format(fset *token.FileSet, n ast.Node) string {
	var buf strings.Builder
	printer.Fprint(&buf, fset, n) // ignore errors
	return buf.String()
}

// -- Range --

// Range is a Pos interval.
// It implements [analysis.Range] and [ast.Node].
type Range struct{ Start, EndPos token.Pos }

// RangeOf constructs a Range.
//
// RangeOf exists to pacify the "unkeyed literal" (composites) vet
// check. It would be nice if there were a way for a type to add
// itself to the allowlist.
func RangeOf(start, end token.Pos) Range { return Range{start, end} }

// NodeRange returns the extent of node n as a Range.
//
// For unfortunate historical reasons, the Pos/End extent of an
// ast.File runs from the start of its package declaration---excluding
// copyright comments, build tags, and package documentation---to the
// end of its last declaration, excluding any trailing comments. So,
// as a special case, if n is an [ast.File], NodeContains uses
// n.FileStart <= pos && pos <= n.FileEnd to report whether the
// position lies anywhere within the file.
func NodeRange(n ast.Node) Range {
	if file, ok := n.(*ast.File); ok {
		return Range{file.FileStart, file.FileEnd} // entire file
	}
	return Range{n.Pos(), n.End()}
}

func (r Range) Pos() token.Pos { return r.Start }
func (r Range) End() token.Pos { return r.EndPos }

// ContainsPos reports whether the range (inclusive of both end points)
// includes the specified position.
func (r Range) ContainsPos(pos token.Pos) bool {
	return r.Contains(RangeOf(pos, pos))
}

// Contains reports whether the range (inclusive of both end points)
// includes the specified range.
func (r Range) Contains(rng Range) bool {
	return r.Start <= rng.Start && rng.EndPos <= r.EndPos
}

// IsValid reports whether the range is valid.
func (r Range) IsValid() bool { return r.Start.IsValid() && r.Start <= r.EndPos }

// --

// Select returns the syntax nodes identified by a user's text
// selection. It returns three nodes: the innermost node that wholly
// encloses the selection; and the first and last nodes that are
// wholly enclosed by the selection.
//
// For example, given this selection:
//
//	{ f(); g(); /* comment */ }
//	  ~~~~~~~~~~~
//
// Select returns the enclosing BlockStmt, the f() CallExpr, and the g() CallExpr.
//
// If the selection does not wholly enclose any nodes, Select returns an error
// and invalid start/end nodes, but it may return a valid enclosing node.
//
// Callers that require exactly one syntax tree (e.g. just f() or just
// g()) should check that the returned start and end nodes are
// identical.
//
// This function is intended to be called early in the handling of a
// user's request, since it is tolerant of sloppy selection including
// extraneous whitespace and comments. Use it in new code instead of
// PathEnclosingInterval. When the exact extent of a node is known,
// use [Cursor.FindByPos] instead.
//
// TODO(hxjiang): Consider refactoring the function signature. It is currently
// confusing that an error is returned even when a valid enclosing node is
// successfully found. Consider grouping all cursors into one struct.
func Select(curFile inspector.Cursor, start, end token.Pos) (_enclosing, _start, _end inspector.Cursor, _ error) {
	curEnclosing, ok := curFile.FindByPos(start, end)
	if !ok {
		return noCursor, noCursor, noCursor, fmt.Errorf("invalid selection")
	}

	// Find the first and last node wholly within the (start, end) range.
	// We'll narrow the effective selection to them, to exclude whitespace.
	// (This matches the functionality of PathEnclosingInterval.)
	var curStart, curEnd inspector.Cursor
	rng := RangeOf(start, end)
	for cur := range curEnclosing.Preorder() {
		if rng.Contains(NodeRange(cur.Node())) {
			// The start node has the least Pos.
			if !curStart.Valid() {
				curStart = cur
			}
			// The end node has the greatest End.
			// End positions do not change monotonically,
			// so we must compute the max.
			if !curEnd.Valid() ||
				cur.Node().End() > curEnd.Node().End() {
				curEnd = cur
			}
		}
	}
	if !curStart.Valid() {
		// The selection is valid (inside curEnclosing) but contains no
		// complete nodes. This happens for point selections (start == end),
		// or selections covering only only spaces, comments, and punctuation
		// tokens.
		// Return the enclosing node so the caller can still use the context.
		return curEnclosing, noCursor, noCursor, fmt.Errorf("invalid selection")
	}
	return curEnclosing, curStart, curEnd, nil
}

var noCursor inspector.Cursor

// MaybeParenthesize returns new, possibly wrapped in parens if needed
// to preserve operator precedence when it replaces old, whose parent
// is parentNode.
//
// (This would be more naturally written in terms of Cursor, but one of
// the callers--the inliner--does not have cursors handy.)
func MaybeParenthesize(parentNode ast.Node, old, new ast.Expr) ast.Expr {
	if needsParens(parentNode, old, new) {
		new = &ast.ParenExpr{X: new}
	}
	return new
}

func needsParens(parentNode ast.Node, old, new ast.Expr) bool {
	// An expression beneath a non-expression
	// has no precedence ambiguity.
	parent, ok := parentNode.(ast.Expr)
	if !ok {
		return false
	}

	precedence := func(n ast.Node) int {
		switch n := n.(type) {
		case *ast.UnaryExpr, *ast.StarExpr:
			return token.UnaryPrec
		case *ast.BinaryExpr:
			return n.Op.Precedence()
		}
		return -1
	}

	// Parens are not required if the new node
	// is not unary or binary.
	newprec := precedence(new)
	if newprec < 0 {
		return false
	}

	// Parens are required if parent and child are both
	// unary or binary and the parent has higher precedence.
	if precedence(parent) > newprec {
		return true
	}

	// Was the old node the operand of a postfix operator?
	//  f().sel
	//  f()[i:j]
	//  f()[i]
	//  f().(T)
	//  f()(x)
	switch parent := parent.(type) {
	case *ast.SelectorExpr:
		return parent.X == old
	case *ast.IndexExpr:
		return parent.X == old
	case *ast.SliceExpr:
		return parent.X == old
	case *ast.TypeAssertExpr:
		return parent.X == old
	case *ast.CallExpr:
		return parent.Fun == old
	}
	return false
}

func is[T any](n any) bool {
	_, ok := n.(T)
	return ok
}

// Copyright 2023 The Go Authors. All rights reserved.
// Use of this source code is governed by a BSD-style
// license that can be found in the LICENSE file.

package astutil

import (
	"go/ast"

	"cometlint/xt/typeparams"
)

// UnpackRecv unpacks a receiver type expression, reporting whether it is a
// pointer receiver, along with the type name identifier and any receiver type
// parameter identifiers.
//
// Copied (with modifications) from go/types.
func UnpackRecv(rtyp ast.Expr) (ptr bool, rname *ast.Ident, tparams []*ast.Ident) {
L: // unpack receiver type
	// This accepts invalid receivers such as ***T and does not
	// work for other invalid receivers, but we don't care. The
	// validity of receiver expressions is checked elsewhere.
	for {
		switch t := rtyp.(type) {
		case *ast.ParenExpr:
			rtyp = t.X
		case *ast.StarExpr:
			ptr = true
			rtyp = t.X
		default:
			break L
		}
	}

	// unpack type parameters, if any
	switch rtyp.(type) {
	case *ast.IndexExpr, *ast.IndexListExpr:
		var indices []ast.Expr
		rtyp, _, indices, _ = typeparams.UnpackIndexExpr(rtyp)
		for _, arg := range indices {
			var par *ast.Ident
			switch arg := arg.(type) {
			case *ast.Ident:
				par = arg
			default:
				// ignore errors
			}
			if par == nil {
				par = &ast.Ident{NamePos: arg.Pos(), Name: "_"}
			}
			tparams = append(tparams, par)
		}
	}

	// unpack receiver name
	if name, _ := rtyp.(*ast.Ident); name != nil {
		rname = name
	}

	return
}

// Copyright 2025 The Go Authors. All rights reserved.
// Use of this source code is governed by a BSD-style
// license that can be found in the LICENSE file.

// Package free defines utilities for computing the free variables of
// a syntax tree without type information. This is inherently
// heuristic because of the T{f: x} ambiguity, in which f may or may
// not be a lexical reference depending on whether T is a struct type.
package free

import (
	"go/ast"
	"go/token"
)

// Copied, with considerable changes, from go/parser/resolver.go
// at af53bd2c03.

// Names computes an approximation to the set of free names of the AST
// at node n based solely on syntax.
//
// In the absence of composite literals, the set of free names is exact. Composite
// literals introduce an ambiguity that can only be resolved with type information:
// whether F is a field name or a value in `T{F: ...}`.
// If includeComplitIdents is true, this function conservatively assumes
// T is not a struct type, so freeishNames overapproximates: the resulting
// set may contain spurious entries that are not free lexical references
// but are references to struct fields.
// If includeComplitIdents is false, this function assumes that T *is*
// a struct type, so freeishNames underapproximates: the resulting set
// may omit names that are free lexical references.
//
// TODO(adonovan): includeComplitIdents is a crude hammer: the caller
// may have partial or heuristic information about whether a given T
// is struct type. Replace includeComplitIdents with a hook to query
// the caller.
//
// The code is based on go/parser.resolveFile, but heavily simplified. Crucial
// differences are:
//   - Instead of resolving names to their objects, this function merely records
//     whether they are free.
//   - Labels are ignored: they do not refer to values.
//   - This is never called on ImportSpecs, so the function panics if it sees one.
func Names(n ast.Node, includeComplitIdents bool) map[string]bool {
	v := &freeVisitor{
		free:                 make(map[string]bool),
		includeComplitIdents: includeComplitIdents,
	}
	// Begin with a scope, even though n might not be a form that establishes a scope.
	// For example, n might be:
	//    x := ...
	// Then we need to add the first x to some scope.
	v.openScope()
	ast.Walk(v, n)
	v.closeScope()
	if v.scope != nil {
		panic("unbalanced scopes")
	}
	return v.free
}

// A freeVisitor holds state for a free-name analysis.
type freeVisitor struct {
	scope                *scope          // the current innermost scope
	free                 map[string]bool // free names seen so far
	includeComplitIdents bool            // include identifier key in composite literals
}

// scope contains all the names defined in a lexical scope.
// It is like ast.Scope, but without deprecation warnings.
type scope struct {
	names map[string]bool
	outer *scope
}

func (s *scope) defined(name string) bool {
	for ; s != nil; s = s.outer {
		if s.names[name] {
			return true
		}
	}
	return false
}

func (v *freeVisitor) Visit(n ast.Node) ast.Visitor {
	switch n := n.(type) {

	// Expressions.
	case *ast.Ident:
		v.use(n)

	case *ast.FuncLit:
		v.openScope()
		defer v.closeScope()
		v.walkFuncType(nil, n.Type)
		v.walkBody(n.Body)

	case *ast.SelectorExpr:
		v.walk(n.X)
		// Skip n.Sel: it cannot be free.

	case *ast.StructType:
		v.openScope()
		defer v.closeScope()
		v.walkFieldList(n.Fields)

	case *ast.FuncType:
		v.openScope()
		defer v.closeScope()
		v.walkFuncType(nil, n)

	case *ast.CompositeLit:
		v.walk(n.Type)
		for _, e := range n.Elts {
			if kv, _ := e.(*ast.KeyValueExpr); kv != nil {
				if ident, _ := kv.Key.(*ast.Ident); ident != nil {
					// It is not possible from syntax alone to know whether
					// an identifier used as a composite literal key is
					// a struct field (if n.Type is a struct) or a value
					// (if n.Type is a map, slice or array).
					if v.includeComplitIdents {
						// Over-approximate by treating both cases as potentially
						// free names.
						v.use(ident)
					} else {
						// Under-approximate by ignoring potentially free names.
					}
				} else {
					v.walk(kv.Key)
				}
				v.walk(kv.Value)
			} else {
				v.walk(e)
			}
		}

	case *ast.InterfaceType:
		v.openScope()
		defer v.closeScope()
		v.walkFieldList(n.Methods)

	// Statements
	case *ast.AssignStmt:
		walkSlice(v, n.Rhs)
		if n.Tok == token.DEFINE {
			v.shortVarDecl(n.Lhs)
		} else {
			walkSlice(v, n.Lhs)
		}

	case *ast.LabeledStmt:
		// Ignore labels.
		v.walk(n.Stmt)

	case *ast.BranchStmt:
		// Ignore labels.

	case *ast.BlockStmt:
		v.openScope()
		defer v.closeScope()
		walkSlice(v, n.List)

	case *ast.IfStmt:
		v.openScope()
		defer v.closeScope()
		v.walk(n.Init)
		v.walk(n.Cond)
		v.walk(n.Body)
		v.walk(n.Else)

	case *ast.CaseClause:
		walkSlice(v, n.List)
		v.openScope()
		defer v.closeScope()
		walkSlice(v, n.Body)

	case *ast.SwitchStmt:
		v.openScope()
		defer v.closeScope()
		v.walk(n.Init)
		v.walk(n.Tag)
		v.walkBody(n.Body)

	case *ast.TypeSwitchStmt:
		v.openScope()
		defer v.closeScope()
		if n.Init != nil {
			v.walk(n.Init)
		}
		v.walk(n.Assign)
		// We can use walkBody here because we don't track label scopes.
		v.walkBody(n.Body)

	case *ast.CommClause:
		v.openScope()
		defer v.closeScope()
		v.walk(n.Comm)
		walkSlice(v, n.Body)

	case *ast.SelectStmt:
		v.walkBody(n.Body)

	case *ast.ForStmt:
		v.openScope()
		defer v.closeScope()
		v.walk(n.Init)
		v.walk(n.Cond)
		v.walk(n.Post)
		v.walk(n.Body)

	case *ast.RangeStmt:
		v.openScope()
		defer v.closeScope()
		v.walk(n.X)
		var lhs []ast.Expr
		if n.Key != nil {
			lhs = append(lhs, n.Key)
		}
		if n.Value != nil {
			lhs = append(lhs, n.Value)
		}
		if len(lhs) > 0 {
			if n.Tok == token.DEFINE {
				v.shortVarDecl(lhs)
			} else {
				walkSlice(v, lhs)
			}
		}
		v.walk(n.Body)

	// Declarations
	case *ast.GenDecl:
		switch n.Tok {
		case token.CONST, token.VAR:
			for _, spec := range n.Specs {
				spec := spec.(*ast.ValueSpec)
				walkSlice(v, spec.Values)
				v.walk(spec.Type)
				v.declare(spec.Names...)
			}

		case token.TYPE:
			for _, spec := range n.Specs {
				spec := spec.(*ast.TypeSpec)
				// Go spec: The scope of a type identifier declared inside a
				// function begins at the identifier in the TypeSpec and ends
				// at the end of the innermost containing block.
				v.declare(spec.Name)
				if spec.TypeParams != nil {
					v.openScope()
					defer v.closeScope()
					v.walkTypeParams(spec.TypeParams)
				}
				v.walk(spec.Type)
			}

		case token.IMPORT:
			panic("encountered import declaration in free analysis")
		}

	case *ast.FuncDecl:
		if n.Recv == nil && n.Name.Name != "init" { // package-level function
			v.declare(n.Name)
		}
		v.openScope()
		defer v.closeScope()
		v.walkTypeParams(n.Type.TypeParams)
		v.walkFuncType(n.Recv, n.Type)
		v.walkBody(n.Body)

	default:
		return v
	}

	return nil
}

func (v *freeVisitor) openScope() {
	v.scope = &scope{map[string]bool{}, v.scope}
}

func (v *freeVisitor) closeScope() {
	v.scope = v.scope.outer
}

func (v *freeVisitor) walk(n ast.Node) {
	if n != nil {
		ast.Walk(v, n)
	}
}

func (v *freeVisitor) walkFuncType(recv *ast.FieldList, typ *ast.FuncType) {
	// First use field types...
	v.walkRecvFieldType(recv)
	v.walkFieldTypes(typ.Params)
	v.walkFieldTypes(typ.Results)

	// ...then declare field names.
	v.declareFieldNames(recv)
	v.declareFieldNames(typ.Params)
	v.declareFieldNames(typ.Results)
}

// A receiver field is not like a param or result field because
// "func (recv R[T]) method()" uses R but declares T.
func (v *freeVisitor) walkRecvFieldType(list *ast.FieldList) {
	if list == nil {
		return
	}
	for _, f := range list.List { // valid => len=1
		typ := f.Type
		if ptr, ok := typ.(*ast.StarExpr); ok {
			typ = ptr.X
		}

		// Analyze receiver type as Base[Index, ...]
		var (
			base    ast.Expr
			indices []ast.Expr
		)
		switch typ := typ.(type) {
		case *ast.IndexExpr: // B[T]
			base, indices = typ.X, []ast.Expr{typ.Index}
		case *ast.IndexListExpr: // B[K, V]
			base, indices = typ.X, typ.Indices
		default: // B
			base = typ
		}
		for _, expr := range indices {
			if id, ok := expr.(*ast.Ident); ok {
				v.declare(id)
			}
		}
		v.walk(base)
	}
}

// walkTypeParams is like walkFieldList, but declares type parameters eagerly so
// that they may be resolved in the constraint expressions held in the field
// Type.
func (v *freeVisitor) walkTypeParams(list *ast.FieldList) {
	v.declareFieldNames(list)
	v.walkFieldTypes(list) // constraints
}

func (v *freeVisitor) walkBody(body *ast.BlockStmt) {
	if body == nil {
		return
	}
	walkSlice(v, body.List)
}

func (v *freeVisitor) walkFieldList(list *ast.FieldList) {
	if list == nil {
		return
	}
	v.walkFieldTypes(list)    // .Type may contain references
	v.declareFieldNames(list) // .Names declares names
}

func (v *freeVisitor) shortVarDecl(lhs []ast.Expr) {
	// Go spec: A short variable declaration may redeclare variables provided
	// they were originally declared in the same block with the same type, and
	// at least one of the non-blank variables is new.
	//
	// However, it doesn't matter to free analysis whether a variable is declared
	// fresh or redeclared.
	for _, x := range lhs {
		// In a well-formed program each expr must be an identifier,
		// but be forgiving.
		if id, ok := x.(*ast.Ident); ok {
			v.declare(id)
		}
	}
}

func walkSlice[S ~[]E, E ast.Node](r *freeVisitor, list S) {
	for _, e := range list {
		r.walk(e)
	}
}

// walkFieldTypes resolves the types of the walkFieldTypes in list.
// The companion method declareFieldList declares the names of the walkFieldTypes.
func (v *freeVisitor) walkFieldTypes(list *ast.FieldList) {
	if list != nil {
		for _, f := range list.List {
			v.walk(f.Type)
		}
	}
}

// declareFieldNames declares the names of the fields in list.
// (Names in a FieldList always establish new bindings.)
// The companion method resolveFieldList resolves the types of the fields.
func (v *freeVisitor) declareFieldNames(list *ast.FieldList) {
	if list != nil {
		for _, f := range list.List {
			v.declare(f.Names...)
		}
	}
}

// use marks ident as free if it is not in scope.
func (v *freeVisitor) use(ident *ast.Ident) {
	if s := ident.Name; s != "_" && !v.scope.defined(s) {
		v.free[s] = true
	}
}

// declare adds each non-blank ident to the current scope.
func (v *freeVisitor) declare(idents ...*ast.Ident) {
	for _, id := range idents {
		if id.Name != "_" {
			v.scope.names[id.Name] = true
		}
	}
}

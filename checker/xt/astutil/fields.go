// Copyright 2024 The Go Authors. All rights reserved.
// Use of this source code is governed by a BSD-style
// license that can be found in the LICENSE file.

package astutil

import (
	"go/ast"
	"iter"
)

// FlatFields 'flattens' an ast.FieldList, returning an iterator over each
// (name, field) combination in the list. For unnamed fields, the identifier is
// nil.
func FlatFields(list *ast.FieldList) iter.Seq2[*ast.Ident, *ast.Field] {
	return func(yield func(*ast.Ident, *ast.Field) bool) {
		if list == nil {
			return
		}

		for _, field := range list.List {
			if len(field.Names) == 0 {
				if !yield(nil, field) {
					return
				}
			} else {
				for _, name := range field.Names {
					if !yield(name, field) {
						return
					}
				}
			}
		}
	}
}

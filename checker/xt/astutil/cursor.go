// Copyright 2026 The Go Authors. All rights reserved.
// Use of this source code is governed by a BSD-style
// license that can be found in the LICENSE file.

package astutil

import (
	"go/ast"

	"golang.org/x/tools/go/ast/edge"
	"golang.org/x/tools/go/ast/inspector"
)

// UnparenCursor returns the cursor for an expression with any
// enclosing parentheses removed, similar to [ast.Unparen].
// It is often prudent to call this before switching on the
// type of cur.Node().
//
// See also [UnparenEnclosingCursor].
func UnparenCursor(cur inspector.Cursor) inspector.Cursor {
	for is[*ast.ParenExpr](cur) {
		cur, _ = cur.FirstChild()
	}
	return cur
}

// UnparenEnclosingCursor returns the first element of
// the [Cursor.Enclosing] sequence that is not itself enclosed
// in parens. It is often prudent to call this before switching on
// cur.ParentEdge().
//
// See also [UnparenCursor].
func UnparenEnclosingCursor(cur inspector.Cursor) inspector.Cursor {
	for cur.ParentEdgeKind() == edge.ParenExpr_X {
		cur = cur.Parent()
	}
	return cur
}

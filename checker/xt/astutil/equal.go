// Copyright 2023 The Go Authors. All rights reserved.
// Use of this source code is governed by a BSD-style
// license that can be found in the LICENSE file.

package astutil

import (
	"go/ast"
	"go/token"
	"reflect"
)

// Equal reports whether two nodes are structurally equal,
// ignoring fields of type [token.Pos], [ast.Object],
// and [ast.Scope], and comments.
//
// The operands x and y may be nil.
// A nil slice is not equal to an empty slice.
//
// The provided function determines whether two identifiers
// should be considered identical.
func Equal(x, y ast.Node, identical func(x, y *ast.Ident) bool) bool {
	if x == nil || y == nil {
		return x == y
	}
	return equal(reflect.ValueOf(x), reflect.ValueOf(y), identical)
}

// EqualSyntax reports whether x and y are equal.
// Identifiers are considered equal if they are spelled the same.
// Comments are ignored.
func EqualSyntax(x, y ast.Expr) bool {
	sameName := func(x, y *ast.Ident) bool { return x.Name == y.Name }
	return Equal(x, y, sameName)
}

func equal(x, y reflect.Value, identical func(x, y *ast.Ident) bool) bool {
	// Ensure types are the same
	if x.Type() != y.Type() {
		return false
	}
	switch x.Kind() {
	case reflect.Pointer:
		if x.IsNil() || y.IsNil() {
			return x.IsNil() == y.IsNil()
		}
		switch t := x.Interface().(type) {
		// Skip fields of types potentially involved in cycles.
		case *ast.Object, *ast.Scope, *ast.CommentGroup:
			return true
		case *ast.Ident:
			return identical(t, y.Interface().(*ast.Ident))
		default:
			return equal(x.Elem(), y.Elem(), identical)
		}

	case reflect.Interface:
		if x.IsNil() || y.IsNil() {
			return x.IsNil() == y.IsNil()
		}
		return equal(x.Elem(), y.Elem(), identical)

	case reflect.Struct:
		for i := range x.NumField() {
			xf := x.Field(i)
			yf := y.Field(i)
			// Skip position fields.
			if xpos, ok := xf.Interface().(token.Pos); ok {
				ypos := yf.Interface().(token.Pos)
				// Numeric value of a Pos is not significant but its "zeroness" is,
				// because it is often significant, e.g. CallExpr.Variadic(Ellipsis), ChanType.Arrow.
				if xpos.IsValid() != ypos.IsValid() {
					return false
				}
			} else if !equal(xf, yf, identical) {
				return false
			}
		}
		return true

	case reflect.Slice:
		if x.IsNil() || y.IsNil() {
			return x.IsNil() == y.IsNil()
		}
		if x.Len() != y.Len() {
			return false
		}
		for i := range x.Len() {
			if !equal(x.Index(i), y.Index(i), identical) {
				return false
			}
		}
		return true

	case reflect.String:
		return x.String() == y.String()

	case reflect.Bool:
		return x.Bool() == y.Bool()

	case reflect.Int:
		return x.Int() == y.Int()

	default:
		panic(x)
	}
}

// Copyright 2024 The Go Authors. All rights reserved.
// Use of this source code is governed by a BSD-style
// license that can be found in the LICENSE file.

//go:build ignore

// The generate command reads all the GOROOT/api/go1.*.txt files and
// generates a single combined manifest.go file containing the Go
// standard library API symbols along with versions.
//
// It also runs "go list -deps std" and records the import graph. This
// information may be used, for example, to ensure that tools don't
// suggest fixes that import package P when analyzing one of P's
// dependencies.
package main

import (
	"bytes"
	"cmp"
	"encoding/binary"
	"encoding/json"
	"errors"
	"fmt"
	"go/ast"
	"go/format"
	"go/parser"
	"go/token"
	"go/types"
	"io/fs"
	"log"
	"os"
	"os/exec"
	"path/filepath"
	"regexp"
	"slices"
	"strconv"
	"strings"

	"golang.org/x/tools/go/packages"
)

func main() {
	log.SetFlags(log.Lshortfile) // to identify the source of the log messages

	dir := apidir()
	manifest(dir)
	deps()
}

// -- generate std manifest --

func manifest(apidir string) {
	// find the signatures
	cfg := packages.Config{
		Mode: packages.LoadTypes,
		Env:  append(os.Environ(), "CGO_ENABLED=0", "GOOS=linux", "GOARCH=amd64"),
	}
	// find the source. This is not totally reliable: different
	// systems may get different versions of unreleased APIs.
	// The result depends on the toolchain.
	// The x/tools release process regenerates the table
	// with the canonical toolchain.
	stdpkgs, err := packages.Load(&cfg, "std")
	if err != nil {
		log.Fatal(err)
	}
	signatures := make(map[string]map[string]string) // PkgPath->FuncName->signature
	// signatures start with func and may contain type parameters
	// "func[T comparable](value T) unique.Handle[T]"
	for _, pkg := range stdpkgs {
		if strings.HasPrefix(pkg.PkgPath, "vendor/") ||
			strings.HasPrefix(pkg.PkgPath, "internal/") ||
			strings.Contains(pkg.PkgPath, "/internal/") {
			continue
		}
		for _, name := range pkg.Types.Scope().Names() {
			fixer := func(p *types.Package) string {
				// fn.Signature() would have produced
				// "func(fi io/fs.FileInfo, link string) (*archive/tar.Header, error)"},
				// This produces
				// "func FileInfoHeader(fi fs.FileInfo, link string) (*Header, error)""
				// Note that the function name is superfluous, so it is removed below
				if p != pkg.Types {
					return p.Name()
				}
				return ""
			}
			obj := pkg.Types.Scope().Lookup(name)
			if fn, ok := obj.(*types.Func); ok {
				mp, ok := signatures[pkg.PkgPath]
				if !ok {
					mp = make(map[string]string)
					signatures[pkg.PkgPath] = mp
				}
				sig := types.ObjectString(fn, fixer)
				// remove the space and function name introduced by fixer
				sig = strings.Replace(sig, " "+name, "", 1)
				mp[name] = sig
			}
		}
	}

	// read the api data
	pkgs := make(map[string]map[string]symInfo) // package -> symbol -> info
	symRE := regexp.MustCompile(`^pkg (\S+).*?, (var|func|type|const|method \([^)]*\)) ([\pL\p{Nd}_]+)(.*)`)

	// parse parses symbols out of GOROOT/api/*.txt data, with the specified minor version.
	// Errors are reported against filename.
	parse := func(filename string, data []byte, minor int) {
		for linenum, line := range strings.Split(string(data), "\n") {
			if line == "" || strings.HasPrefix(line, "#") {
				continue
			}
			m := symRE.FindStringSubmatch(line)
			if m == nil {
				log.Fatalf("invalid input: %s:%d: %s", filename, linenum+1, line)
			}
			path, kind, sym, rest := m[1], m[2], m[3], m[4]

			if _, recv, ok := strings.Cut(kind, "method "); ok {
				// e.g. "method (*Func) Pos() token.Pos"
				kind = "method" // (concrete)

				recv := removeTypeParam(recv) // (*Foo[T]) -> (*Foo)

				sym = recv + "." + sym // (*T).m

			} else if method, ok := strings.CutPrefix(rest, " interface, "); ok && kind == "type" {
				// e.g. "pkg reflect, type Type interface, Comparable() bool"
				// or   "pkg net, type Error interface, Temporary //deprecated"

				kind = "method" // (abstract)

				if strings.HasPrefix(method, "unexported methods") {
					continue
				}
				if strings.Contains(method, " //deprecated") {
					continue
				}
				name, _, ok := strings.Cut(method, "(")
				if !ok {
					log.Printf("unexpected: %s", line)
					continue
				}
				sym = fmt.Sprintf("(%s).%s", sym, name) // (T).m

			} else if field, ok := strings.CutPrefix(rest, " struct, "); ok && kind == "type" {
				// e.g. "type ParenExpr struct, Lparen token.Pos"
				kind = "field"
				name, typ, _ := strings.Cut(field, " ")

				// The api script uses the name
				// "embedded" (ambiguously) for
				// the name of an anonymous field.
				if name == "embedded" {
					// Strip "*pkg.T" down to "T".
					typ = strings.TrimPrefix(typ, "*")
					if _, after, ok := strings.Cut(typ, "."); ok {
						typ = after
					}
					typ = removeTypeParam(typ) // embedded Foo[T] -> Foo
					name = typ
				}

				sym += "." + name // T.f
			}

			symbols, ok := pkgs[path]
			if !ok {
				symbols = make(map[string]symInfo)
				pkgs[path] = symbols
			}

			// Don't overwrite earlier entries:
			// enums are redeclared in later versions
			// as their encoding changes;
			// deprecations count as updates too.
			// TODO(adonovan): it would be better to mark
			// deprecated as a boolean without changing the
			// version.
			if _, ok := symbols[sym]; !ok {
				var sig string
				if kind == "func" {
					sig = signatures[path][sym]
				}
				symbols[sym] = symInfo{
					kind:      kind,
					minor:     minor,
					signature: sig,
				}
			}
		}
	}

	// Read and parse the GOROOT/api manifests.
	for minor := 0; ; minor++ {
		base := "go1.txt"
		if minor > 0 {
			base = fmt.Sprintf("go1.%d.txt", minor)
		}
		filename := filepath.Join(apidir, base)
		data, err := os.ReadFile(filename)
		if err != nil {
			if errors.Is(err, fs.ErrNotExist) {
				// All caught up.
				// Synthesize one final file from any api/next/*.txt fragments.
				// (They are consolidated into a go1.%d file some time between
				// the freeze and the first release candidate.)
				filenames, err := filepath.Glob(filepath.Join(apidir, "next", "*.txt"))
				if err != nil {
					log.Fatal(err)
				}
				var next bytes.Buffer
				for _, filename := range filenames {
					data, err := os.ReadFile(filename)
					if err != nil {
						log.Fatal(err)
					}
					next.Write(data)
				}
				parse(filename, next.Bytes(), minor) // (filename is a lie)
				break
			}
			log.Fatal(err)
		}
		parse(filename, data, minor)
	}

	// The APIs of the syscall/js and unsafe packages need to be computed explicitly,
	// because they're not included in the GOROOT/api/go1.*.txt files at this time.
	pkgs["syscall/js"] = loadSymbols("syscall/js", "GOOS=js", "GOARCH=wasm")
	pkgs["unsafe"] = exportedSymbols(types.Unsafe) // TODO(adonovan): set correct versions

	// Write the combined manifest.
	var buf bytes.Buffer
	buf.WriteString(`// Copyright 2025 The Go Authors. All rights reserved.
// Use of this source code is governed by a BSD-style
// license that can be found in the LICENSE file.

// Code generated by generate.go. DO NOT EDIT.

package stdlib

var PackageSymbols = map[string][]Symbol{
`)

	for _, path := range sortedKeys(pkgs) {
		pkg := pkgs[path]
		fmt.Fprintf(&buf, "\t%q: {\n", path)
		for _, name := range sortedKeys(pkg) {
			info := pkg[name]
			fmt.Fprintf(&buf, "\t\t{%q, %s, %d, %q},\n",
				name, strings.Title(info.kind), info.minor, info.signature)
		}
		fmt.Fprintln(&buf, "},")
	}
	fmt.Fprintln(&buf, "}")
	fmtbuf, err := format.Source(buf.Bytes())
	if err != nil {
		log.Fatal(err)
	}
	if err := os.WriteFile("manifest.go", fmtbuf, 0o666); err != nil {
		log.Fatal(err)
	}
}

// find the api directory, In most situations it is in GOROOT/api, but not always.
// TODO(pjw): understand where it might be, and if there could be newer and older versions
func apidir() string {
	stdout := new(bytes.Buffer)
	cmd := exec.Command("go", "env", "GOROOT", "GOPATH")
	cmd.Stdout = stdout
	cmd.Stderr = os.Stderr
	if err := cmd.Run(); err != nil {
		log.Fatal(err)
	}
	// Prefer GOROOT/api over GOPATH/api.
	for line := range strings.SplitSeq(stdout.String(), "\n") {
		apidir := filepath.Join(line, "api")
		info, err := os.Stat(apidir)
		if err == nil && info.IsDir() {
			return apidir
		}
	}
	log.Fatal("could not find api dir")
	return ""
}

type symInfo struct {
	kind  string // e.g. "func"
	minor int    // go1.%d
	// for completion snippets
	signature string // for Kind == stdlib.Func
}

// loadSymbols computes the exported symbols in the specified package
// by parsing and type-checking the current source.
func loadSymbols(pkg string, extraEnv ...string) map[string]symInfo {
	pkgs, err := packages.Load(&packages.Config{
		Mode: packages.NeedTypes,
		Env:  append(os.Environ(), extraEnv...),
	}, pkg)
	if err != nil {
		log.Fatalln(err)
	} else if len(pkgs) != 1 {
		log.Fatalf("got %d packages, want one package %q", len(pkgs), pkg)
	}
	return exportedSymbols(pkgs[0].Types)
}

func exportedSymbols(pkg *types.Package) map[string]symInfo {
	symbols := make(map[string]symInfo)
	for _, name := range pkg.Scope().Names() {
		if obj := pkg.Scope().Lookup(name); obj.Exported() {
			var kind string
			switch obj.(type) {
			case *types.Func, *types.Builtin:
				kind = "func"
			case *types.Const:
				kind = "const"
			case *types.Var:
				kind = "var"
			case *types.TypeName:
				kind = "type"
				// TODO(adonovan): expand fields and methods of syscall/js.*
			default:
				log.Fatalf("unexpected object type: %v", obj)
			}
			symbols[name] = symInfo{kind: kind, minor: 0} // pretend go1.0
		}
	}
	return symbols
}

func sortedKeys[M ~map[K]V, K cmp.Ordered, V any](m M) []K {
	r := make([]K, 0, len(m))
	for k := range m {
		r = append(r, k)
	}
	slices.Sort(r)
	return r
}

func removeTypeParam(s string) string {
	i := strings.IndexByte(s, '[')
	j := strings.LastIndexByte(s, ']')
	if i > 0 && j > i {
		s = s[:i] + s[j+len("["):]
	}
	return s
}

// -- generate dependency graph --

func deps() {
	type Package struct {
		// go list JSON output
		ImportPath string   // import path of package in dir
		Imports    []string // import paths used by this package

		// encoding
		index int
		deps  []int // indices of direct imports, sorted
	}
	pkgs := make(map[string]*Package)
	var keys []string
	for dec := json.NewDecoder(runGo("list", "-deps", "-json", "std")); dec.More(); {
		var pkg Package
		if err := dec.Decode(&pkg); err != nil {
			log.Fatal(err)
		}
		pkgs[pkg.ImportPath] = &pkg
		keys = append(keys, pkg.ImportPath)
	}

	// Sort and number the packages.
	// There are 344 as of Mar 2025.
	slices.Sort(keys)
	for i, name := range keys {
		pkgs[name].index = i
	}

	// Encode the dependencies.
	for _, pkg := range pkgs {
		for _, imp := range pkg.Imports {
			if imp == "C" {
				continue
			}
			pkg.deps = append(pkg.deps, pkgs[imp].index)
		}
		slices.Sort(pkg.deps)
	}

	// Emit the table.
	var buf bytes.Buffer
	buf.WriteString(`// Copyright 2025 The Go Authors. All rights reserved.
// Use of this source code is governed by a BSD-style
// license that can be found in the LICENSE file.

// Code generated by generate.go. DO NOT EDIT.

package stdlib

type pkginfo struct {
	name string
	deps string // list of indices of dependencies, as varint-encoded deltas
}
var deps = [...]pkginfo{
`)
	for _, name := range keys {
		prev := 0
		var deps []int
		for _, v := range pkgs[name].deps {
			deps = append(deps, v-prev) // delta
			prev = v
		}
		var data []byte
		for _, v := range deps {
			data = binary.AppendUvarint(data, uint64(v))
		}
		fmt.Fprintf(&buf, "\t{%q, %q},\n", name, data)
	}
	fmt.Fprintln(&buf, "}")

	// Also write the list of bootstrap packages.
	// (We can't use indices because it is not a subset of std.)
	bootstrap, version := bootstrap()
	minor := strings.Split(version, ".")[1] // "go1.2.3" -> "2"
	buf.WriteString(`
// bootstrap is the list of bootstrap packages extracted from cmd/dist.
var bootstrap = map[string]bool{
`)
	for _, pkg := range bootstrap {
		fmt.Fprintf(&buf, "\t%q: true,\n", pkg)
	}
	fmt.Fprintf(&buf, `}

// BootstrapVersion is the minor version of Go used during toolchain
// bootstrapping. Packages for which [IsBootstrapPackage] must not use
// features of Go newer than this version.
const BootstrapVersion = Version(%s) // %s
`, minor, version)

	// Format and update the dependencies file.
	fmtbuf, err := format.Source(buf.Bytes())
	if err != nil {
		log.Fatal(err)
	}
	if err := os.WriteFile("deps.go", fmtbuf, 0o666); err != nil {
		log.Fatal(err)
	}

	// Also generate the data for the test.
	for _, t := range [...]struct{ flag, filename string }{
		{"-deps=true", "testdata/nethttp.deps"},
		{`-f={{join .Imports "\n"}}`, "testdata/nethttp.imports"},
	} {
		stdout := new(bytes.Buffer)
		cmd := exec.Command("go", "list", t.flag, "net/http")
		cmd.Stdout = stdout
		cmd.Stderr = os.Stderr
		cmd.Env = append(os.Environ(), "CGO_ENABLED=0", "GOOS=linux", "GOARCH=amd64")
		if err := cmd.Run(); err != nil {
			log.Fatal(err)
		}
		if err := os.WriteFile(t.filename, stdout.Bytes(), 0666); err != nil {
			log.Fatal(err)
		}
	}
}

// bootstrap returns the list of bootstrap packages out of the
// source of the dist command, along with the minimum toolchain
// version.
//
// We assume it is "var bootstrapDirs []string" in buildtool.go, and
// is a list of string literals, either package names or "dir/...".
// TODO(adonovan): find a more robust solution.
func bootstrap() ([]string, string) {
	fset := token.NewFileSet()
	filename := strings.TrimSpace(runGo("list", "-f={{.Dir}}/buildtool.go", "cmd/dist").String())
	f, err := parser.ParseFile(fset, filename, nil, 0)
	if err != nil {
		log.Fatalf("can't parse buildtool.go file in cmd/dist package: %v", err)
	}

	const bootstrapVarName = "bootstrapDirs"
	var (
		args    = []string{"list"} // go list command to expand bootstrap packages
		version string
	)
	for _, decl := range f.Decls {
		decl, ok := decl.(*ast.GenDecl)
		if !ok {
			continue
		}
		for _, spec := range decl.Specs {
			spec, ok := spec.(*ast.ValueSpec)
			if !ok {
				continue
			}
			if len(spec.Names) != 1 {
				continue
			}
			switch spec.Names[0].Name {
			case bootstrapVarName:
				// var bootstrapDirs = []string{ ... }
				if len(spec.Values) != 1 {
					log.Fatalf("%s: %s var spec has %d values, want 1",
						fset.Position(spec.Pos()), len(spec.Values))
				}
				value0 := spec.Values[0]
				lit, ok := value0.(*ast.CompositeLit)
				if !ok {
					log.Fatalf("%s: %s assigned from %T, want slice literal",
						fset.Position(value0.Pos()), value0)
				}
				// Construct a go list command from the package patterns.
				for _, elt := range lit.Elts {
					lit, ok := elt.(*ast.BasicLit)
					if !ok {
						log.Fatalf("%s: element is %T, want string literal",
							fset.Position(elt.Pos()), elt)
					}
					pattern, err := strconv.Unquote(lit.Value)
					if err != nil {
						log.Fatalf("%s: %v", fset.Position(elt.Pos()), err)
					}
					args = append(args, pattern)
				}

			case "minBootstrap":
				// const minBootstrap = "go1.2.3"
				lit := spec.Values[0].(*ast.BasicLit)
				version, _ = strconv.Unquote(lit.Value)
			}
		}
	}
	if len(args) < 2 {
		log.Fatalf("can't find var %s in buildtool.go file in cmd/dist package: %v",
			bootstrapVarName, err)
	}
	if version == "" {
		log.Fatalf("can't find const minBootstrap version in buildtool.go file in cmd/dist package: %v",
			err)
	}

	return strings.Split(strings.TrimSpace(runGo(args...).String()), "\n"), version
}

func runGo(args ...string) *bytes.Buffer {
	cmd := exec.Command("go", args...)
	cmd.Env = append(os.Environ(), "CGO_ENABLED=0", "GOOS=linux", "GOARCH=amd64")
	stdout, err := cmd.Output()
	if err != nil {
		log.Fatalf("%s: failed: %v", cmd, err)
	}
	return bytes.NewBuffer(stdout)
}

// Copyright 2025 The Go Authors. All rights reserved.
// Use of this source code is governed by a BSD-style
// license that can be found in the LICENSE file.

package stdlib

// This file provides the API for the import graph of the standard library.
//
// Be aware that the compiler-generated code for every package
// implicitly depends on package "runtime" and a handful of others
// (see runtimePkgs in GOROOT/src/cmd/internal/objabi/pkgspecial.go).

import (
	"encoding/binary"
	"iter"
	"slices"
	"strings"
)

// Imports returns the sequence of packages directly imported by the
// named standard packages, in name order.
// The imports of an unknown package are the empty set.
//
// The graph is built into the application and may differ from the
// graph in the Go source tree being analyzed by the application.
func Imports(pkgs ...string) iter.Seq[string] {
	return func(yield func(string) bool) {
		for _, pkg := range pkgs {
			if i, ok := find(pkg); ok {
				var depIndex uint64
				for data := []byte(deps[i].deps); len(data) > 0; {
					delta, n := binary.Uvarint(data)
					depIndex += delta
					if !yield(deps[depIndex].name) {
						return
					}
					data = data[n:]
				}
			}
		}
	}
}

// Dependencies returns the set of all dependencies of the named
// standard packages, including the initial package,
// in a deterministic topological order.
// The dependencies of an unknown package are the empty set.
//
// The graph is built into the application and may differ from the
// graph in the Go source tree being analyzed by the application.
func Dependencies(pkgs ...string) iter.Seq[string] {
	return func(yield func(string) bool) {
		for _, pkg := range pkgs {
			if i, ok := find(pkg); ok {
				var seen [1 + len(deps)/8]byte // bit set of seen packages
				var visit func(i int) bool
				visit = func(i int) bool {
					bit := byte(1) << (i % 8)
					if seen[i/8]&bit == 0 {
						seen[i/8] |= bit
						var depIndex uint64
						for data := []byte(deps[i].deps); len(data) > 0; {
							delta, n := binary.Uvarint(data)
							depIndex += delta
							if !visit(int(depIndex)) {
								return false
							}
							data = data[n:]
						}
						if !yield(deps[i].name) {
							return false
						}
					}
					return true
				}
				if !visit(i) {
					return
				}
			}
		}
	}
}

// find returns the index of pkg in the deps table.
func find(pkg string) (int, bool) {
	return slices.BinarySearchFunc(deps[:], pkg, func(p pkginfo, n string) int {
		return strings.Compare(p.name, n)
	})
}

// IsBootstrapPackage reports whether pkg is one of the low-level
// packages in the Go distribution that must compile with the older
// language version specified by [BootstrapVersion] during toolchain
// bootstrapping; see golang.org/s/go15bootstrap.
func IsBootstrapPackage(pkg string) bool {
	return bootstrap[pkg]
}

// Copyright 2025 The Go Authors. All rights reserved.
// Use of this source code is governed by a BSD-style
// license that can be found in the LICENSE file.

package typesinternal

import (
	"go/types"
	"slices"
)

// IsTypeNamed reports whether t is (or is an alias for) a
// package-level defined type with the given package path and one of
// the given names. It returns false if t is nil.
//
// This function avoids allocating the concatenation of "pkg.Name",
// which is important for the performance of syntax matching.
func IsTypeNamed(t types.Type, pkgPath string, names ...string) bool {
	if named, ok := types.Unalias(t).(*types.Named); ok {
		tname := named.Obj()
		return tname != nil &&
			IsPackageLevel(tname) &&
			tname.Pkg().Path() == pkgPath &&
			slices.Contains(names, tname.Name())
	}
	return false
}

// IsPointerToNamed reports whether t is (or is an alias for) a pointer to a
// package-level defined type with the given package path and one of the given
// names. It returns false if t is not a pointer type.
func IsPointerToNamed(t types.Type, pkgPath string, names ...string) bool {
	r := Unpointer(t)
	if r == t {
		return false
	}
	return IsTypeNamed(r, pkgPath, names...)
}

// IsFunctionNamed reports whether obj is a package-level function
// defined in the given package and has one of the given names.
// It returns false if obj is nil.
//
// This function avoids allocating the concatenation of "pkg.Name",
// which is important for the performance of syntax matching.
func IsFunctionNamed(obj types.Object, pkgPath string, names ...string) bool {
	f, ok := obj.(*types.Func)
	return ok &&
		IsPackageLevel(obj) &&
		f.Pkg().Path() == pkgPath &&
		f.Signature().Recv() == nil &&
		slices.Contains(names, f.Name())
}

// IsMethodNamed reports whether obj is a method defined on a
// package-level type with the given package and type name, and has
// one of the given names. It returns false if obj is nil.
//
// This function avoids allocating the concatenation of "pkg.TypeName.Name",
// which is important for the performance of syntax matching.
func IsMethodNamed(obj types.Object, pkgPath string, typeName string, names ...string) bool {
	if fn, ok := obj.(*types.Func); ok {
		if recv := fn.Signature().Recv(); recv != nil {
			_, T := ReceiverNamed(recv)
			return T != nil &&
				IsTypeNamed(T, pkgPath, typeName) &&
				slices.Contains(names, fn.Name())
		}
	}
	return false
}

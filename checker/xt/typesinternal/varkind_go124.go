// Copyright 2024 The Go Authors. All rights reserved.
// Use of this source code is governed by a BSD-style
// license that can be found in the LICENSE file.

//go:build !go1.25

package typesinternal

import "go/types"

type VarKind uint8

const (
	_          VarKind = iota // (not meaningful)
	PackageVar                // a package-level variable
	LocalVar                  // a local variable
	RecvVar                   // a method receiver variable
	ParamVar                  // a function parameter variable
	ResultVar                 // a function result variable
	FieldVar                  // a struct field
)

func (kind VarKind) String() string {
	return [...]string{
		0:          "VarKind(0)",
		PackageVar: "PackageVar",
		LocalVar:   "LocalVar",
		RecvVar:    "RecvVar",
		ParamVar:   "ParamVar",
		ResultVar:  "ResultVar",
		FieldVar:   "FieldVar",
	}[kind]
}

// GetVarKind returns an invalid VarKind.
func GetVarKind(v *types.Var) VarKind { return 0 }

// SetVarKind has no effect.
func SetVarKind(v *types.Var, kind VarKind) {}

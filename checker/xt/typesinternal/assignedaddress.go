// Copyright 2026 The Go Authors. All rights reserved.
// Use of this source code is governed by a BSD-style
// license that can be found in the LICENSE file.

package typesinternal

import (
	"go/ast"
	"go/token"
	"go/types"

	"golang.org/x/tools/go/ast/edge"
	"golang.org/x/tools/go/ast/inspector"
)

// IsAssignedOrAddressTaken reports whether the expression cur denotes a
// variable and appears in a context that assigns it or that takes its address,
// potentially leading to indirect assignment.
//
// These examples cause IsAssignedOrAddressTaken on the identifier for x to
// return true:
//
//		x = 1
//		x++
//		x[i] = 1	   (assume x is an array)
//		x.a[i] = 1	 (assume x.a is a non-pointer struct field)
//	  use(&x)
//
// whereas these cause it to return false:
//
//	y = x
//	f(x)
//	use(x.a[i])
//	use(*x)
//
// The expression may itself be a compound, for example:
//
//	use(&(*ptr))  => IsAssignedOrAddressTaken("*ptr") = true
//	x.a[i] = 1    => IsAssignedOrAddressTaken("x.a")  = true
//	_ = x.a[i]    => IsAssignedOrAddressTaken("x.a")  = false
//
// A variable's declaration is not considered to be an assignment:
//
//	var x int     => IsAssignedOrAddressTaken(x) = false
//	x := 1        => IsAssignedOrAddressTaken(x) = false
//
// TODO(adonovan): revisit the surprising behavior for declarations.
func IsAssignedOrAddressTaken(info *types.Info, cur inspector.Cursor) bool {
	// Unfortunately we can't simply use info.Types[e].Assignable()
	// as it is always true for a variable even when that variable is
	// used only as an r-value. So we must inspect enclosing syntax.
outer:
	// Ascend to outermost aggregate of which
	// original cur is a part:
	//    x -> (x) | x.f | x[i] | x[i:j]
	for cur = range cur.Enclosing() {
		switch cur.ParentEdgeKind() {
		case edge.ParenExpr_X:
			// If x is an lvalue, then (x) is an lvalue.
		case edge.SelectorExpr_X:
			// If x is an lvalue, then x.f is an lvalue iff
			// the selection does not traverse a pointer.
			sel := cur.Parent().Node().(*ast.SelectorExpr)
			if seln, ok := info.Selections[sel]; ok {
				// Note: there is a bug in Indirect() where it spuriously returns true
				// when both the selection receiver and parameter are pointers. However,
				// it's okay in this case because there is no address taken when a
				// pointer receiver method is called on a pointer type.
				if seln.Indirect() {
					return false
				}
				if seln.Kind() == types.MethodVal {
					sig := seln.Obj().Type().(*types.Signature)
					if is[*types.Pointer](sig.Recv().Type().Underlying()) {
						t := seln.Recv()
						// The receiver may be an embedded field, so we need
						// to get the inner-most type (right before the method
						// call in seln.Index())
						for _, idx := range seln.Index()[:len(seln.Index())-1] {
							t = t.Underlying().(*types.Struct).Field(idx).Type()
						}
						if !is[*types.Pointer](t.Underlying()) {
							return true // takes address of receiver
						}
					}
					return false
				}
			}
		case edge.IndexExpr_X, edge.SliceExpr_X:
			// If x[i] or x[i:j] is an lvalue,
			// then x is an lvalue iff x is an array.
			if !is[*types.Array](info.TypeOf(cur.Node().(ast.Expr)).Underlying()) {
				return false
			}
		default:
			break outer
		}
	}
	switch cur.ParentEdgeKind() {
	case edge.AssignStmt_Lhs:
		assign := cur.Parent().Node().(*ast.AssignStmt)
		if assign.Tok != token.DEFINE {
			return true // x = j or x += j
		}
		id := cur.Node().(*ast.Ident)
		// Re-assigned identifiers are recorded in the Uses map.
		if _, ok := info.Uses[id]; ok {
			return true // reassignment of x (x, y := 1, 2)
		}
	case edge.RangeStmt_Key, edge.RangeStmt_Value:
		rng := cur.Parent().Node().(*ast.RangeStmt)
		if rng.Tok == token.ASSIGN {
			return true // "for k, v = range x" is like an AssignStmt to k, v
		}
	case edge.IncDecStmt_X:
		return true // x++, x--
	case edge.UnaryExpr_X:
		if cur.Parent().Node().(*ast.UnaryExpr).Op == token.AND {
			return true // &x
		}
	}
	return false
}

func is[T any](x any) bool {
	_, ok := x.(T)
	return ok
}

// Copyright 2018 The Go Authors. All rights reserved.
// Use of this source code is governed by a BSD-style
// license that can be found in the LICENSE file.

package typesinternal

import (
	"fmt"
	"go/ast"
	"go/types"
)

// CallKind describes the function position of an [*ast.CallExpr].
type CallKind int

const (
	CallStatic     CallKind = iota // static call to known function
	CallInterface                  // dynamic call through an interface method
	CallDynamic                    // dynamic call of a func value
	CallBuiltin                    // call to a builtin function
	CallConversion                 // a conversion (not a call)
)

var callKindNames = []string{
	"CallStatic",
	"CallInterface",
	"CallDynamic",
	"CallBuiltin",
	"CallConversion",
}

func (k CallKind) String() string {
	if i := int(k); i >= 0 && i < len(callKindNames) {
		return callKindNames[i]
	}
	return fmt.Sprintf("typeutil.CallKind(%d)", k)
}

// ClassifyCall classifies the function position of a call expression ([*ast.CallExpr]).
// It distinguishes among true function calls, calls to builtins, and type conversions,
// and further classifies function calls as static calls (where the function is known),
// dynamic interface calls, and other dynamic calls.
//
// For the declarations:
//
//	func f() {}
//	func g[T any]() {}
//	var v func()
//	var s []func()
//	type I interface { M() }
//	var i I
//
// ClassifyCall returns the following:
//
//	f()           CallStatic
//	g[int]()      CallStatic
//	i.M()         CallInterface
//	min(1, 2)     CallBuiltin
//	v()           CallDynamic
//	s[0]()        CallDynamic
//	int(x)        CallConversion
//	[]byte("")    CallConversion
func ClassifyCall(info *types.Info, call *ast.CallExpr) CallKind {
	if info.Types == nil {
		panic("ClassifyCall: info.Types is nil")
	}
	tv := info.Types[call.Fun]
	if tv.IsType() {
		return CallConversion
	}
	if tv.IsBuiltin() {
		return CallBuiltin
	}
	id := UsedIdent(info, call.Fun)
	if id == nil {
		return CallDynamic
	}
	obj := info.Uses[id]
	// Classify the call by the type of the object, if any.
	switch obj := obj.(type) {
	case *types.Func:
		if isInterfaceMethod(obj) {
			return CallInterface
		}
		return CallStatic
	default:
		return CallDynamic
	}
}

// UsedIdent returns the identifier such that info.Uses[UsedIdent(info, e)]
// is the [types.Object] used by e, if any.
//
// If e is one of various forms of reference:
//
//	f, c, v, T           lexical reference
//	pkg.X                qualified identifier
//	f[T] or pkg.F[K,V]   instantiations of the above kinds
//	expr.f               field or method value selector
//	T.f                  method expression selector
//
// UsedIdent returns the identifier whose is associated value in [types.Info.Uses]
// is the object to which it refers.
//
// For the declarations:
//
//	func F[T any] {...}
//	type I interface { M() }
//	var (
//	  x int
//	  s struct { f  int }
//	  a []int
//	  i I
//	)
//
// UsedIdent returns the following:
//
//	Expr          UsedIdent
//	x             x
//	s.f           f
//	F[int]        F
//	i.M           M
//	I.M           M
//	min           min
//	int           int
//	1             nil
//	a[0]          nil
//	[]byte        nil
//
// Note: if e is an instantiated function or method, UsedIdent returns
// the corresponding generic function or method on the generic type.
func UsedIdent(info *types.Info, e ast.Expr) *ast.Ident {
	if info.Types == nil || info.Uses == nil {
		panic("one of info.Types or info.Uses is nil; both must be populated")
	}
	// Look through type instantiation if necessary.
	switch d := ast.Unparen(e).(type) {
	case *ast.IndexExpr:
		if info.Types[d.Index].IsType() {
			e = d.X
		}
	case *ast.IndexListExpr:
		e = d.X
	}

	switch e := ast.Unparen(e).(type) {
	// info.Uses always has the object we want, even for selector expressions.
	// We don't need info.Selections.
	// See go/types/recording.go:recordSelection.
	case *ast.Ident:
		return e
	case *ast.SelectorExpr:
		return e.Sel
	}
	return nil
}

// See [golang.org/x/tools/go/types/typeutil.Callee].
func Callee(info *types.Info, call *ast.CallExpr) types.Object {
	id := UsedIdent(info, call.Fun)
	if id == nil {
		return nil
	}
	obj := info.Uses[id]
	if obj == nil {
		return nil
	}
	if _, ok := obj.(*types.TypeName); ok {
		return nil
	}
	if fn, ok := obj.(*types.Func); ok {
		return fn.Origin()
	}
	return obj
}

// See [golang.org/x/tools/go/types/typeutil.StaticCallee].
func StaticCallee(info *types.Info, call *ast.CallExpr) *types.Func {
	id := UsedIdent(info, call.Fun)
	if id == nil {
		return nil
	}
	obj := info.Uses[id]
	if obj == nil {
		return nil
	}
	fn, _ := obj.(*types.Func)
	if fn == nil || isInterfaceMethod(fn) {
		return nil
	}
	return fn.Origin()
}

// isInterfaceMethod reports whether its argument is a method of an interface.
func isInterfaceMethod(f *types.Func) bool {
	recv := f.Signature().Recv()
	return recv != nil && types.IsInterface(recv.Type())
}

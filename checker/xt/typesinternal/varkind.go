// Copyright 2024 The Go Authors. All rights reserved.
// Use of this source code is governed by a BSD-style
// license that can be found in the LICENSE file.

//go:build go1.25

package typesinternal

import "go/types"

type VarKind = types.VarKind

const (
	PackageVar = types.PackageVar
	LocalVar   = types.LocalVar
	RecvVar    = types.RecvVar
	ParamVar   = types.ParamVar
	ResultVar  = types.ResultVar
	FieldVar   = types.FieldVar
)

func GetVarKind(v *types.Var) VarKind       { return v.Kind() }
func SetVarKind(v *types.Var, kind VarKind) { v.SetKind(kind) }

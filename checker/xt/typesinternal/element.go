// Copyright 2024 The Go Authors. All rights reserved.
// Use of this source code is governed by a BSD-style
// license that can be found in the LICENSE file.

package typesinternal

import (
	"fmt"
	"go/types"
)

// ForEachElement calls f for type T and each type reachable from its
// type through reflection. It does this by recursively stripping off
// type constructors; in addition, for each named type N, the type *N
// is added to the result as it may have additional methods.
//
// The access argument passed to f indicates whether the type is
// inaccessible to reflection (for example, intermediate tuple types
// or underlying types of named types).
//
// The result of f indicates whether the caller has seen this type
// already, so we can prune the traversal.
//
// methodSetOf abstracts (*typeutil.MethodSetCache).MethodSet,
// avoiding an import cycle.
func ForEachElement(methodSetOf func(types.Type) *types.MethodSet, T types.Type, f func(T types.Type, access bool) bool) {
	var visit func(T types.Type, access bool)
	visit = func(T types.Type, access bool) {
		if f(T, access) {
			return // duplicate; prune descent
		}

		// Recursion over signatures of each method.
		tmset := methodSetOf(T)
		for method := range tmset.Methods() {
			sig := method.Type().(*types.Signature)
			if sig.TypeParams() != nil {
				continue // skip type-parameterized methods
			}

			// It is tempting to call visit(sig, false)
			// but, as noted in golang.org/cl/65450043,
			// the Signature.Recv field is ignored by
			// types.Identical and typeutil.Map, which
			// is confusing at best.
			//
			// More importantly, the true signature rtype
			// reachable from a method using reflection
			// has no receiver but an extra ordinary parameter.
			// For the Read method of io.Reader we want:
			//   func(Reader, []byte) (int, error)
			// but here sig is:
			//   func([]byte) (int, error)
			// with .Recv = Reader (though it is hard to
			// notice because it doesn't affect Signature.String
			// or types.Identical).
			//
			// TODO(adonovan): construct and visit the correct
			// non-method signature with an extra parameter
			// (though since unnamed func types have no methods
			// there is essentially no actual demand for this).
			//
			// TODO(adonovan): document whether or not it is
			// safe to skip non-exported methods (as RTA does).
			visit(sig.Params(), false)  // the Tuple is inaccessible
			visit(sig.Results(), false) // the Tuple is inaccessible
		}

		switch T := T.(type) {
		case *types.Alias:
			visit(types.Unalias(T), access) // emulates the pre-Alias behavior

		case *types.Basic:
			// nop

		case *types.Interface:
			// nop---handled by recursion over method set.

		case *types.Pointer:
			visit(T.Elem(), true)

		case *types.Slice:
			visit(T.Elem(), true)

		case *types.Chan:
			visit(T.Elem(), true)

		case *types.Map:
			visit(T.Key(), true)
			visit(T.Elem(), true)

		case *types.Signature:
			if T.Recv() != nil {
				panic(fmt.Sprintf("Signature %s has Recv %s", T, T.Recv()))
			}
			visit(T.Params(), false)  // the Tuple is inaccessible
			visit(T.Results(), false) // the Tuple is inaccessible

		case *types.Named:
			// A pointer-to-named type can be derived from a named
			// type via reflection.  It may have methods too.
			visit(types.NewPointer(T), true)

			// Consider 'type T struct{S}' where S has methods.
			// Reflection provides no way to get from T to struct{S},
			// only to S, so the method set of struct{S} is unwanted,
			// so mark it inaccessible during recursion.
			visit(T.Underlying(), false) // skip the unnamed type

		case *types.Array:
			visit(T.Elem(), true)

		case *types.Struct:
			for i, n := 0, T.NumFields(); i < n; i++ {
				// TODO(adonovan): document whether or not
				// it is safe to skip non-exported fields.
				visit(T.Field(i).Type(), true)
			}

		case *types.Tuple:
			for i, n := 0, T.Len(); i < n; i++ {
				visit(T.At(i).Type(), true)
			}

		case *types.TypeParam, *types.Union:
			// forEachReachable must not be called on parameterized types.
			panic(fmt.Sprintf("ForEachElement called on type containing %T", T))

		default:
			panic(fmt.Sprintf("ForEachElement called on unexpected type %T", T))
		}
	}
	visit(T, true)
}

// Copyright 2025 The Go Authors. All rights reserved.
// Use of this source code is governed by a BSD-style
// license that can be found in the LICENSE file.

package typesinternal

import (
	"go/ast"
	"go/token"
	"go/types"
)

// NoEffects reports whether the expression has no side effects, i.e., it
// does not modify the memory state. This function is conservative: it may
// return false even when the expression has no effect.
func NoEffects(info *types.Info, expr ast.Expr) bool {
	noEffects := true
	ast.Inspect(expr, func(n ast.Node) bool {
		switch v := n.(type) {
		case nil, *ast.Ident, *ast.BasicLit, *ast.BinaryExpr, *ast.ParenExpr,
			*ast.SelectorExpr, *ast.IndexExpr, *ast.SliceExpr, *ast.TypeAssertExpr,
			*ast.StarExpr, *ast.CompositeLit,
			// non-expressions that may appear within expressions
			*ast.KeyValueExpr,
			*ast.FieldList,
			*ast.Field,
			*ast.Ellipsis,
			*ast.IndexListExpr:
			// No effect.

		case *ast.ArrayType,
			*ast.StructType,
			*ast.ChanType,
			*ast.FuncType,
			*ast.MapType,
			*ast.InterfaceType:
			// Type syntax: no effects, recursively.
			// Prune descent.
			return false

		case *ast.UnaryExpr:
			// Channel send <-ch has effects.
			if v.Op == token.ARROW {
				noEffects = false
			}

		case *ast.CallExpr:
			// Type conversion has no effects.
			if !info.Types[v.Fun].IsType() {
				if CallsPureBuiltin(info, v) {
					// A call such as len(e) has no effects of its
					// own, though the subexpression e might.
				} else {
					noEffects = false
				}
			}

		case *ast.FuncLit:
			// A FuncLit has no effects, but do not descend into it.
			return false

		default:
			// All other expressions have effects
			noEffects = false
		}

		return noEffects
	})
	return noEffects
}

// CallsPureBuiltin reports whether call is a call of a built-in
// function that is a pure computation over its operands (analogous to
// a + operator). Because it does not depend on program state, it may
// be evaluated at any point--though not necessarily at multiple
// points (consider new, make).
func CallsPureBuiltin(info *types.Info, call *ast.CallExpr) bool {
	if id, ok := ast.Unparen(call.Fun).(*ast.Ident); ok {
		if b, ok := info.ObjectOf(id).(*types.Builtin); ok {
			switch b.Name() {
			case "len", "cap", "complex", "imag", "real", "make", "new", "max", "min":
				return true
			}
			// Not: append clear close copy delete panic print println recover
		}
	}
	return false
}

// Copyright 2024 The Go Authors. All rights reserved.
// Use of this source code is governed by a BSD-style
// license that can be found in the LICENSE file.

package typesinternal

import (
	"go/ast"
	"go/types"
	"strconv"
)

// FileQualifier returns a [types.Qualifier] function that qualifies
// imported symbols appropriately based on the import environment of a given
// file.
// If the same package is imported multiple times, the last appearance is
// recorded.
//
// TODO(adonovan): this function ignores the effect of shadowing. It
// should accept a [token.Pos] and a [types.Info] and compute only the
// set of imports that are not shadowed at that point, analogous to
// [analysis.AddImport]. It could also compute (as a side
// effect) the set of additional imports required to ensure that there
// is an accessible import for each necessary package, making it
// converge even more closely with AddImport.
func FileQualifier(f *ast.File, pkg *types.Package) types.Qualifier {
	// Construct mapping of import paths to their defined names.
	// It is only necessary to look at renaming imports.
	imports := make(map[string]string)
	for _, imp := range f.Imports {
		if imp.Name != nil && imp.Name.Name != "_" {
			path, _ := strconv.Unquote(imp.Path.Value)
			imports[path] = imp.Name.Name
		}
	}

	// Define qualifier to replace full package paths with names of the imports.
	return func(p *types.Package) string {
		if p == nil || p == pkg {
			return ""
		}

		if name, ok := imports[p.Path()]; ok {
			if name == "." {
				return ""
			} else {
				return name
			}
		}

		// If there is no local renaming, fall back to the package name.
		return p.Name()
	}
}

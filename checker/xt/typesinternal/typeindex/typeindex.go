// Copyright 2025 The Go Authors. All rights reserved.
// Use of this source code is governed by a BSD-style
// license that can be found in the LICENSE file.

// Package typeindex provides an [Index] of type information for a
// package, allowing efficient lookup of, say, whether a given symbol
// is referenced and, if so, where from; or of the [inspector.Cursor] for
// the declaration of a particular [types.Object] symbol.
package typeindex

import (
	"encoding/binary"
	"go/ast"
	"go/types"
	"iter"

	"golang.org/x/tools/go/ast/edge"
	"golang.org/x/tools/go/ast/inspector"
	"golang.org/x/tools/go/types/typeutil"
	"cometlint/xt/astutil"
	"cometlint/xt/typesinternal"
)

// New constructs an Index for the package of type-annotated syntax
//
// TODO(adonovan): accept a FileSet too?
// We regret not requiring one in inspector.New.
func New(inspect *inspector.Inspector, pkg *types.Package, info *types.Info) *Index {
	ix := &Index{
		inspect:  inspect,
		info:     info,
		packages: make(map[string]*types.Package),
		def:      make(map[types.Object]inspector.Cursor),
		uses:     make(map[types.Object]*uses),
	}

	addPackage := func(pkg2 *types.Package) {
		if pkg2 != nil && pkg2 != pkg {
			ix.packages[pkg2.Path()] = pkg2
		}
	}

	for cur := range inspect.Root().Preorder((*ast.ImportSpec)(nil), (*ast.Ident)(nil)) {
		switch n := cur.Node().(type) {
		case *ast.ImportSpec:
			// Index direct imports, including blank ones.
			if pkgname := info.PkgNameOf(n); pkgname != nil {
				addPackage(pkgname.Imported())
			}

		case *ast.Ident:
			// Index all defining and using identifiers.
			if obj := info.Defs[n]; obj != nil {
				ix.def[obj] = cur
			}

			if obj := info.Uses[n]; obj != nil {
				// Index indirect dependencies (via fields and methods).
				if !typesinternal.IsPackageLevel(obj) {
					addPackage(obj.Pkg())
				}

				for {
					us, ok := ix.uses[obj]
					if !ok {
						us = &uses{}
						us.code = us.initial[:0]
						ix.uses[obj] = us
					}
					delta := cur.Index() - us.last
					if delta < 0 {
						panic("non-monotonic")
					}
					us.code = binary.AppendUvarint(us.code, uint64(delta))
					us.last = cur.Index()

					// If n is a selection of a field or method of an instantiated
					// type, also record a use of the generic field or method.
					obj, ok = objectOrigin(obj)
					if !ok {
						break
					}
				}
			}
		}
	}
	return ix
}

// objectOrigin returns the generic object for obj if it is a field or
// method of an instantied type; zero otherwise.
//
// (This operation is appropriate only for selections.
// Lexically resolved references always resolve to the generic.
// Although Named and Alias types also use Origin to express
// an instance/generic distinction, that's in the domain
// of Types; their TypeName objects always refer to the generic.)
func objectOrigin(obj types.Object) (types.Object, bool) {
	var origin types.Object
	switch obj := obj.(type) {
	case *types.Func:
		if obj.Signature().Recv() != nil {
			origin = obj.Origin() // G[int].method -> G[T].method
		}
	case *types.Var:
		if obj.IsField() {
			origin = obj.Origin() // G[int].field  -> G[T].field
		}
	}
	if origin != nil && origin != obj {
		return origin, true
	}
	return nil, false
}

// An Index holds an index mapping [types.Object] symbols to their syntax.
// In effect, it is the inverse of [types.Info].
type Index struct {
	inspect  *inspector.Inspector
	info     *types.Info
	packages map[string]*types.Package         // packages of all symbols referenced from this package
	def      map[types.Object]inspector.Cursor // Cursor of *ast.Ident that defines the Object
	uses     map[types.Object]*uses            // Cursors of *ast.Idents that use the Object
}

// A uses holds the list of Cursors of Idents that use a given symbol.
//
// The Uses map of [types.Info] is substantial, so it pays to compress
// its inverse mapping here, both in space and in CPU due to reduced
// allocation. A Cursor is 2 words; a Cursor.Index is 4 bytes; but
// since Cursors are naturally delivered in ascending order, we can
// use varint-encoded deltas at a cost of only ~1.7-2.2 bytes per use.
//
// Many variables have only one or two uses, so their encoded uses may
// fit in the 4 bytes of initial, saving further CPU and space
// essentially for free since the struct's size class is 4 words.
type uses struct {
	code    []byte  // varint-encoded deltas of successive Cursor.Index values
	last    int32   // most recent Cursor.Index value; used during encoding
	initial [4]byte // use slack in size class as initial space for code
}

// Uses returns the sequence of Cursors of [*ast.Ident]s in this package
// that refer to obj. If obj is nil, the sequence is empty.
//
// Uses, unlike the Uses field of [types.Info], records additional
// entries mapping fields and methods of generic types to references
// through their corresponding instantiated objects.
func (ix *Index) Uses(obj types.Object) iter.Seq[inspector.Cursor] {
	return func(yield func(inspector.Cursor) bool) {
		if uses := ix.uses[obj]; uses != nil {
			var last int32
			for code := uses.code; len(code) > 0; {
				delta, n := binary.Uvarint(code)
				last += int32(delta)
				if !yield(ix.inspect.At(last)) {
					return
				}
				code = code[n:]
			}
		}
	}
}

// Used reports whether any of the specified objects are used, in
// other words, obj != nil && Uses(obj) is non-empty for some obj in objs.
//
// (This treatment of nil allows Used to be called directly on the
// result of [Index.Object] so that analyzers can conveniently skip
// packages that don't use a symbol of interest.)
func (ix *Index) Used(objs ...types.Object) bool {
	for _, obj := range objs {
		if obj != nil && ix.uses[obj] != nil {
			return true
		}
	}
	return false
}

// Def returns the Cursor of the [*ast.Ident] in this package
// that declares the specified object, if any.
func (ix *Index) Def(obj types.Object) (inspector.Cursor, bool) {
	cur, ok := ix.def[obj]
	return cur, ok
}

// Package returns the package of the specified path,
// or nil if it is not referenced from this package.
func (ix *Index) Package(path string) *types.Package {
	return ix.packages[path]
}

// Object returns the package-level symbol name within the package of
// the specified path, or nil if the package or symbol does not exist
// or is not visible from this package.
func (ix *Index) Object(path, name string) types.Object {
	if pkg := ix.Package(path); pkg != nil {
		return pkg.Scope().Lookup(name)
	}
	return nil
}

// Selection returns the named method or field belonging to the
// package-level type returned by Object(path, typename).
func (ix *Index) Selection(path, typename, name string) types.Object {
	if obj := ix.Object(path, typename); obj != nil {
		if tname, ok := obj.(*types.TypeName); ok {
			obj, _, _ := types.LookupFieldOrMethod(tname.Type(), true, obj.Pkg(), name)
			return obj
		}
	}
	return nil
}

// Calls returns the sequence of cursors for *ast.CallExpr nodes that
// call the specified callee, as defined by [typeutil.Callee].
// If callee is nil, the sequence is empty.
func (ix *Index) Calls(callee types.Object) iter.Seq[inspector.Cursor] {
	return func(yield func(inspector.Cursor) bool) {
		for cur := range ix.Uses(callee) {
			// The call may be of the form f() or x.f(),
			// optionally with parens; ascend from f to call.
			// See logic in [typesinternal.UsedIdent], to which this is dual.
			//
			// It is tempting but wrong to use the first
			// CallExpr ancestor: we have to make sure the
			// ident is in the CallExpr.Fun position, otherwise
			// f(f, f) would have two spurious matches.
			// Avoiding Enclosing is also significantly faster.

			// inverse unparen: f -> (f)
			cur = astutil.UnparenEnclosingCursor(cur)

			// ascend selector (or qualified identifier): f -> x.f
			if cur.ParentEdgeKind() == edge.SelectorExpr_Sel {
				cur = astutil.UnparenEnclosingCursor(cur.Parent())
			}

			// ascend typeparams: f -> f[T]; f -> f[T1, T2]
			if ek := cur.ParentEdgeKind(); ek == edge.IndexExpr_X || ek == edge.IndexListExpr_X {
				cur = astutil.UnparenEnclosingCursor(cur.Parent())
			}

			// ascend from f or x.f to call
			if cur.ParentEdgeKind() == edge.CallExpr_Fun {
				curCall := cur.Parent()
				call := curCall.Node().(*ast.CallExpr)
				if typeutil.Callee(ix.info, call) == callee {
					if !yield(curCall) {
						return
					}
				}
			}
		}
	}
}

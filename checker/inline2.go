package main

// inline2.go — statement-level inlining for calls the gopls inliner can only wrap in a function literal.
//
// Contexts: `f(a…)`, `x, y := f(a…)`, `x = f(a…)`, `return f(a…)`, and the same as the init statement of an if; `if f(a…)` /
// `if !f(a…)`. The callee's body is copied with all its own identifiers renamed apart, its parameters bound to the
// arguments in order, and every `return e…` replaced by `results = e…; break L`, inside `L: for { … break L }` (a block
// that can be left from any depth; it has no back edge, so it is not a loop of the control-flow graph):
//
//	var r0 T0; var r1 T1
//	L: for { p0 := recv; p1 := a1; …body…; break L }
//	x, y := r0, r1
//
// Refused (the call stays as it is): defer / recover / goto / labels in the callee, recursion, generic callees, named
// function types the caller's file cannot spell, left-hand sides that are not plain variables or fields.

import (
	"fmt"
	"go/ast"
	"go/token"
	"go/types"
	"sort"
	"strings"
)

type stmtInliner struct {
	fset     *token.FileSet
	pkg      *types.Package
	info     *types.Info
	content  func(filename string) []byte
	seq      *int
	typeArgs map[*types.TypeParam]types.Type // instantiation of the generic callee being inlined (nil otherwise)
	hoisted  bool                            // the last inlineAt / inlineLit only moved the call in front of its statement (it still exists)
}

// inlineAt tries to inline call (inside file) to the function declared by decl. Returns the new content of the caller's file.
func (si *stmtInliner) inlineAt(file *ast.File, call *ast.CallExpr, fn *types.Func, decl *ast.FuncDecl) ([]byte, error) {
	sig := fn.Type().(*types.Signature)
	si.typeArgs = nil
	if sig.TypeParams().Len() > 0 {
		// a generic function: the call site's instantiation gives the signature and the type arguments that replace
		// the type parameters in the copied body
		id := calleeIdent(call)
		inst, ok := si.info.Instances[id]
		if id == nil || !ok || inst.TypeArgs.Len() != sig.TypeParams().Len() {
			return nil, fmt.Errorf("generic callee without instantiation")
		}
		isig, ok := inst.Type.(*types.Signature)
		if !ok {
			return nil, fmt.Errorf("generic callee without instantiation")
		}
		si.typeArgs = map[*types.TypeParam]types.Type{}
		for i := 0; i < sig.TypeParams().Len(); i++ {
			si.typeArgs[sig.TypeParams().At(i)] = inst.TypeArgs.At(i)
		}
		sig = isig
	}
	return si.inlineCore(file, call, sig, fn, decl)
}

// inlineLit inlines the call of a function literal: `v(args)` for a local `v := func(…) … { … }` that is only ever
// called (self is v's object), or an immediately invoked literal (self nil). The body shares the caller's scope, so the
// variables it captures keep their names; a name that means something else at the call site makes the call ineligible.
func (si *stmtInliner) inlineLit(file *ast.File, call *ast.CallExpr, lit *ast.FuncLit, self types.Object) ([]byte, error) {
	sig, ok := si.info.TypeOf(lit).(*types.Signature)
	if !ok {
		return nil, fmt.Errorf("literal without signature")
	}
	inner := si.pkg.Scope().Innermost(call.Pos())
	bad := ""
	ast.Inspect(lit.Body, func(n ast.Node) bool {
		id, ok := n.(*ast.Ident)
		if !ok || bad != "" {
			return bad == ""
		}
		obj := si.info.Uses[id]
		if obj == nil || obj.Pkg() != si.pkg || obj.Parent() == si.pkg.Scope() || obj.Parent() == nil {
			return true // not a local of the enclosing function (fields and methods have no parent scope)
		}
		if obj.Pos() >= lit.Pos() && obj.Pos() < lit.End() {
			return true // the literal's own parameter / local
		}
		if inner == nil {
			bad = id.Name
			return false
		}
		if _, found := inner.LookupParent(id.Name, call.Pos()); found != obj {
			bad = id.Name
		}
		return true
	})
	if bad != "" {
		return nil, fmt.Errorf("captured name %s means something else at the call", bad)
	}
	decl := &ast.FuncDecl{Name: &ast.Ident{Name: "_"}, Type: lit.Type, Body: lit.Body}
	return si.inlineCore(file, call, sig, self, decl)
}

func (si *stmtInliner) inlineCore(file *ast.File, call *ast.CallExpr, sig *types.Signature, fn types.Object, decl *ast.FuncDecl) ([]byte, error) {
	if sig.TypeParams().Len() > 0 || sig.RecvTypeParams().Len() > 0 {
		return nil, fmt.Errorf("generic callee")
	}

	// defers the inliner can replay: top-level statements of the body of the form `defer a.b.M()` / `defer f()` without
	// arguments (the unlock idiom). They are removed and their calls are run, last registered first, before every exit that
	// follows them, after the results were evaluated — what the runtime does on a normal return. (A panic in the body
	// would skip them in the inlined form; no rule reasons about panics.)
	simpleDefers := map[*ast.DeferStmt]bool{}
	var deferList []*ast.DeferStmt
	for _, st := range decl.Body.List {
		d, ok := st.(*ast.DeferStmt)
		if !ok {
			continue
		}
		// arguments: local variables that are never re-assigned (their value at the exits is the value at the defer)
		argsOK := true
		for _, a := range d.Call.Args {
			id, ok := a.(*ast.Ident)
			if !ok {
				argsOK = false
				break
			}
			obj := si.info.Uses[id]
			if obj == nil {
				argsOK = false
				break
			}
			ast.Inspect(decl.Body, func(m ast.Node) bool {
				switch y := m.(type) {
				case *ast.AssignStmt:
					if y.Tok != token.DEFINE {
						for _, l := range y.Lhs {
							if lid, ok := l.(*ast.Ident); ok && si.info.Uses[lid] == obj {
								argsOK = false
							}
						}
					}
				case *ast.IncDecStmt:
					if lid, ok := y.X.(*ast.Ident); ok && si.info.Uses[lid] == obj {
						argsOK = false
					}
				case *ast.UnaryExpr:
					if y.Op == token.AND {
						if lid, ok := y.X.(*ast.Ident); ok && si.info.Uses[lid] == obj {
							argsOK = false
						}
					}
				}
				return true
			})
		}
		if !argsOK {
			continue
		}
		okFun := false
		switch f := d.Call.Fun.(type) {
		case *ast.Ident:
			okFun = true
		case *ast.SelectorExpr:
			okFun = plainLvalue(f.X)
		}
		if okFun {
			simpleDefers[d] = true
			deferList = append(deferList, d)
		}
	}
	// conditional defers (`if vecIdx != nil { f, err := os.Open(…); …; defer f.Close() }`): a defer nested in branches — not in
	// a loop, not in a function literal — of the same simple call form is replayed under a flag that records whether it was
	// registered; the receiver is captured at the registration, as the runtime does.
	flagged := map[*ast.DeferStmt]int{}
	{
		var visit func(n ast.Node, top bool)
		visit = func(n ast.Node, top bool) {
			ast.Inspect(n, func(m ast.Node) bool {
				switch x := m.(type) {
				case *ast.ForStmt, *ast.RangeStmt, *ast.FuncLit:
					return false
				case *ast.DeferStmt:
					if simpleDefers[x] {
						return false
					}
					okArgs := true
					for _, a := range x.Call.Args {
						if _, isId := a.(*ast.Ident); !isId {
							okArgs = false
						}
					}
					okFun := false
					switch f := x.Call.Fun.(type) {
					case *ast.Ident:
						okFun = true
					case *ast.SelectorExpr:
						okFun = plainLvalue(f.X) && si.info.TypeOf(f.X) != nil
					}
					if okArgs && okFun {
						flagged[x] = len(flagged)
						deferList = append(deferList, x)
					}
					return false
				}
				return true
			})
		}
		visit(decl.Body, true)
		sort.Slice(deferList, func(i, j int) bool { return deferList[i].Pos() < deferList[j].Pos() })
	}
	// callee restrictions
	bad := ""
	ast.Inspect(decl.Body, func(n ast.Node) bool {
		switch x := n.(type) {
		case *ast.DeferStmt:
			if _, isFlagged := flagged[x]; !simpleDefers[x] && !isFlagged {
				bad = "defer"
			}
		case *ast.BranchStmt:
			if x.Tok == token.GOTO {
				bad = "goto"
			}
		case *ast.CallExpr:
			if id, ok := x.Fun.(*ast.Ident); ok && id.Name == "recover" {
				bad = "recover"
			}
			if id := calleeIdent(x); id != nil && fn != nil && si.info.Uses[id] == fn {
				bad = "recursion"
			}
		}
		return bad == ""
	})
	if bad != "" {
		return nil, fmt.Errorf("callee uses %s", bad)
	}
	// locate the statement and its list
	path := pathTo(file, call)
	if path == nil {
		return nil, fmt.Errorf("call not found")
	}
	var stmt ast.Stmt
	var list *[]ast.Stmt
	for i := 0; i < len(path)-1; i++ {
		s, ok := path[i].(ast.Stmt)
		if !ok {
			continue
		}
		switch parent := path[i+1].(type) {
		case *ast.BlockStmt:
			stmt, list = s, &parent.List
		case *ast.CaseClause:
			stmt, list = s, &parent.Body
		case *ast.CommClause:
			stmt, list = s, &parent.Body
		}
		if stmt != nil {
			break
		}
		if _, isFunc := path[i+1].(*ast.FuncLit); isFunc {
			break
		}
	}
	if stmt == nil || list == nil {
		return nil, fmt.Errorf("call is not inside a statement list")
	}
	// which context?
	type ctx struct {
		kind    string // expr, assign, return, cond
		carrier ast.Stmt
		negated bool
	}
	var c ctx
	simple := stmt
	if ifs, ok := stmt.(*ast.IfStmt); ok {
		switch {
		case ifs.Init != nil && containsNode(ifs.Init, call):
			simple = ifs.Init
		case ifs.Init == nil && ast.Unparen(ifs.Cond) == ast.Expr(call):
			c = ctx{kind: "cond", carrier: stmt}
		case ifs.Init == nil:
			if u, ok := ast.Unparen(ifs.Cond).(*ast.UnaryExpr); ok && u.Op == token.NOT && ast.Unparen(u.X) == ast.Expr(call) {
				c = ctx{kind: "cond", carrier: stmt, negated: true}
			}
		}
	}
	if c.kind == "" {
		switch x := simple.(type) {
		case *ast.ExprStmt:
			if ast.Unparen(x.X) == ast.Expr(call) {
				c = ctx{kind: "expr", carrier: simple}
			}
		case *ast.AssignStmt:
			if len(x.Rhs) == 1 && ast.Unparen(x.Rhs[0]) == ast.Expr(call) && (x.Tok == token.ASSIGN || x.Tok == token.DEFINE) {
				okLhs := true
				for _, l := range x.Lhs {
					if !plainLvalue(l) {
						okLhs = false
					}
				}
				if okLhs {
					c = ctx{kind: "assign", carrier: simple}
				}
			}
		case *ast.ReturnStmt:
			if len(x.Results) == 1 && ast.Unparen(x.Results[0]) == ast.Expr(call) && simple == stmt {
				c = ctx{kind: "return", carrier: simple}
			}
			// `return f(a…), nil`: the call is one operand, the others are plain values (no evaluation to reorder)
			if len(x.Results) > 1 && simple == stmt && sig.Results().Len() == 1 {
				okOthers, found := true, false
				for _, re := range x.Results {
					if ast.Unparen(re) == ast.Expr(call) {
						found = true
						continue
					}
					switch ast.Unparen(re).(type) {
					case *ast.Ident, *ast.BasicLit:
					default:
						okOthers = false
					}
				}
				if found && okOthers {
					c = ctx{kind: "return", carrier: simple}
				}
			}
		}
	}
	if c.kind == "" {
		// the call is an operand deeper inside the statement: when it is the first thing the statement evaluates (everything
		// evaluated before it is a plain name or literal), `tmp := f(…)` in front of the statement is the same program, and
		// the next round inlines that
		if sig.Results().Len() == 1 && hoistable(stmt, call) {
			*si.seq++
			si.hoisted = true
			tmp := fmt.Sprintf("t_h%d", *si.seq)
			src := si.content(si.fset.Position(file.Pos()).Filename)
			o := func(p token.Pos) int { return si.fset.Position(p).Offset }
			out := append([]byte{}, src[:o(stmt.Pos())]...)
			out = append(out, (tmp + " := " + string(src[o(call.Pos()):o(call.End())]) + "\n")...)
			out = append(out, src[o(stmt.Pos()):o(call.Pos())]...)
			out = append(out, tmp...)
			out = append(out, src[o(call.End()):]...)
			return out, nil
		}
		return nil, fmt.Errorf("call context not supported")
	}
	if c.kind == "cond" && (sig.Results().Len() != 1) {
		return nil, fmt.Errorf("condition call with %d results", sig.Results().Len())
	}
	// receiver and arguments
	var argExprs []ast.Expr
	var paramVars []*types.Var
	if sig.Recv() != nil {
		sel, ok := call.Fun.(*ast.SelectorExpr)
		if !ok {
			return nil, fmt.Errorf("method call without selector")
		}
		if s := si.info.Selections[sel]; s == nil || len(s.Index()) != 1 {
			return nil, fmt.Errorf("method reached through embedding or implicit indirection")
		}
		// implicit & or *: the receiver expression's type must equal the receiver parameter's type
		if !types.Identical(si.info.TypeOf(sel.X), sig.Recv().Type()) {
			return nil, fmt.Errorf("implicit address / dereference of the receiver")
		}
		argExprs = append(argExprs, sel.X)
		paramVars = append(paramVars, sig.Recv())
	}
	if sig.Variadic() && !call.Ellipsis.IsValid() {
		return nil, fmt.Errorf("variadic call without spread")
	}
	if len(call.Args) != sig.Params().Len() {
		return nil, fmt.Errorf("argument count (multi-value argument)")
	}
	for i, a := range call.Args {
		argExprs = append(argExprs, a)
		paramVars = append(paramVars, sig.Params().At(i))
	}
	*si.seq++
	sfx := fmt.Sprintf("_h%d", *si.seq)
	callerName := si.fset.Position(file.Pos()).Filename
	calleeName := si.fset.Position(decl.Pos()).Filename
	callerSrc, calleeSrc := si.content(callerName), si.content(calleeName)
	// the name under which the caller's file imports a package (an import may be renamed: bsi "…/BitSliceIndexing")
	importName := map[string]string{}
	for _, im := range file.Imports {
		ip := strings.Trim(im.Path.Value, "\"")
		if im.Name != nil {
			importName[ip] = im.Name.Name
		} else if pn := si.info.Implicits[im]; pn != nil {
			importName[ip] = pn.Name()
		}
	}
	qual := func(p *types.Package) string {
		if p == si.pkg {
			return ""
		}
		if n, ok := importName[p.Path()]; ok && n != "_" && n != "." {
			return n
		}
		return p.Name()
	}
	// packages the copied text mentions must be imported under the same name by the caller's file
	needed := map[string]string{} // name -> path
	ast.Inspect(decl, func(n ast.Node) bool {
		if id, ok := n.(*ast.Ident); ok {
			if pn, ok := si.info.Uses[id].(*types.PkgName); ok {
				needed[pn.Name()] = pn.Imported().Path()
			}
		}
		return true
	})
	var typeMention func(t types.Type)
	typeMention = func(t types.Type) {
		tstr(t, func(p *types.Package) string {
			if p != si.pkg {
				needed[qual(p)] = p.Path()
			}
			return qual(p)
		})
	}
	for _, v := range paramVars {
		typeMention(v.Type())
	}
	for i := 0; i < sig.Results().Len(); i++ {
		typeMention(sig.Results().At(i).Type())
	}
	for _, ta := range si.typeArgs {
		typeMention(ta)
	}
	have := map[string]string{}
	for _, im := range file.Imports {
		p := strings.Trim(im.Path.Value, "\"")
		name := ""
		if im.Name != nil {
			name = im.Name.Name
		} else if pn := si.info.Implicits[im]; pn != nil {
			name = pn.Name()
		} else {
			name = p[strings.LastIndex(p, "/")+1:]
		}
		have[name] = p
	}
	var addImports []string
	for name, p := range needed {
		if hp, ok := have[name]; ok {
			if hp != p {
				return nil, fmt.Errorf("import name %s means another package in the caller's file", name)
			}
			continue
		}
		// a caller-file identifier of that name would be shadowed: refuse
		if si.pkg.Scope().Lookup(name) != nil {
			return nil, fmt.Errorf("import name %s collides", name)
		}
		addImports = append(addImports, fmt.Sprintf("import %s %q", name, p))
	}
	sort.Strings(addImports)

	// objects declared by the callee (receiver, parameters, results, locals)
	declared := map[types.Object]bool{}
	ast.Inspect(decl, func(n ast.Node) bool {
		if id, ok := n.(*ast.Ident); ok {
			if obj := si.info.Defs[id]; obj != nil && id != decl.Name {
				if _, isVar := obj.(*types.Var); isVar && !obj.(*types.Var).IsField() {
					declared[obj] = true
				}
				if _, isConst := obj.(*types.Const); isConst && obj.Parent() != si.pkg.Scope() {
					declared[obj] = true
				}
				if _, isTN := obj.(*types.TypeName); isTN && obj.Parent() != si.pkg.Scope() {
					declared[obj] = true
				}
				// labels (of loops written by hand or left by an earlier inlining) are renamed with everything else
				if _, isLabel := obj.(*types.Label); isLabel {
					declared[obj] = true
				}
			}
			if obj, ok := si.info.Implicits[n]; ok && obj != nil {
				declared[obj] = true
			}
		}
		return true
	})
	// type-switch symbolic variables are recorded in Implicits per clause; their identifier is a Def without object
	tsIdents := map[*ast.Ident]bool{}
	ast.Inspect(decl.Body, func(n ast.Node) bool {
		if ts, ok := n.(*ast.TypeSwitchStmt); ok {
			if as, ok := ts.Assign.(*ast.AssignStmt); ok && len(as.Lhs) == 1 {
				if id, ok := as.Lhs[0].(*ast.Ident); ok {
					tsIdents[id] = true
				}
			}
		}
		return true
	})
	tsNames := map[string]bool{}
	for id := range tsIdents {
		tsNames[id.Name] = true
	}
	// a function-typed parameter that receives a package-level function by name and is never assigned in the body is
	// replaced by that name (sortBy(xs, byScore): `less(a, b)` becomes `byScore(a, b)`, a static call)
	substName := map[string]string{} // parameter name -> argument text
	substObj := map[types.Object]string{}
	if sig.Recv() == nil || len(paramVars) == len(argExprs) {
		for i, v := range paramVars {
			if v.Name() == "" || v.Name() == "_" {
				continue
			}
			aid, isID := argExprs[i].(*ast.Ident)
			if !isID {
				// a method value of a caller's local (`forEach(xs, result.Or)`): the function-typed parameter, never
				// assigned in the body of a declared function (which cannot reach the caller's locals), is that method
				// value — its calls become static method calls
				sel, isSel := argExprs[i].(*ast.SelectorExpr)
				if !isSel || fn == nil {
					continue
				}
				if _, isDecl := fn.(*types.Func); !isDecl {
					continue
				}
				rid, isRID := sel.X.(*ast.Ident)
				if !isRID {
					continue
				}
				rv, isVar := si.info.Uses[rid].(*types.Var)
				if !isVar || rv.IsField() || rv.Parent() == si.pkg.Scope() {
					continue
				}
				if sl := si.info.Selections[sel]; sl == nil || sl.Kind() != types.MethodVal {
					continue
				}
				if _, isFn := v.Type().Underlying().(*types.Signature); !isFn {
					continue
				}
				var pobj types.Object
				ast.Inspect(decl.Type, func(n ast.Node) bool {
					if id, ok := n.(*ast.Ident); ok && id.Name == v.Name() {
						if o := si.info.Defs[id]; o != nil {
							pobj = o
						}
					}
					return true
				})
				if pobj == nil {
					continue
				}
				assigned := false
				ast.Inspect(decl.Body, func(n ast.Node) bool {
					switch y := n.(type) {
					case *ast.AssignStmt:
						for _, l := range y.Lhs {
							if lid, ok := l.(*ast.Ident); ok && (si.info.Uses[lid] == pobj || si.info.Defs[lid] == pobj) {
								assigned = true
							}
						}
					case *ast.UnaryExpr:
						if y.Op == token.AND {
							if lid, ok := y.X.(*ast.Ident); ok && si.info.Uses[lid] == pobj {
								assigned = true
							}
						}
					}
					return true
				})
				if !assigned {
					txt := rid.Name + "." + sel.Sel.Name
					substName[v.Name()] = txt
					substObj[pobj] = txt
				}
				continue
			}
			switch f := si.info.Uses[aid].(type) {
			case *types.Func:
				if _, isFn := v.Type().Underlying().(*types.Signature); !isFn {
					continue
				}
				if f.Pkg() != si.pkg || f.Type().(*types.Signature).Recv() != nil || f.Type().(*types.Signature).TypeParams().Len() > 0 {
					continue
				}
			case *types.Var:
				// a local variable of the caller handed to a read-only parameter of a declared function (which cannot
				// reach the caller's locals): the parameter is that variable. The types must agree exactly (no implicit
				// conversion to an interface at the call).
				if fn == nil || f.IsField() || f.Parent() == si.pkg.Scope() || !types.Identical(f.Type(), v.Type()) {
					continue
				}
				if _, isDecl := fn.(*types.Func); !isDecl {
					continue
				}
			default:
				continue
			}
			// the parameter object inside the declaration
			var pobj types.Object
			ast.Inspect(decl.Type, func(n ast.Node) bool {
				if id, ok := n.(*ast.Ident); ok && id.Name == v.Name() {
					if o := si.info.Defs[id]; o != nil {
						pobj = o
					}
				}
				return true
			})
			if pobj == nil {
				continue
			}
			assigned := false
			ast.Inspect(decl.Body, func(n ast.Node) bool {
				switch y := n.(type) {
				case *ast.AssignStmt:
					for _, l := range y.Lhs {
						if lid, ok := l.(*ast.Ident); ok && (si.info.Uses[lid] == pobj || si.info.Defs[lid] == pobj) {
							assigned = true
						}
					}
				case *ast.UnaryExpr:
					if y.Op == token.AND {
						if lid, ok := y.X.(*ast.Ident); ok && si.info.Uses[lid] == pobj {
							assigned = true
						}
					}
				}
				return true
			})
			if !assigned {
				substName[v.Name()] = aid.Name
				substObj[pobj] = aid.Name
			}
		}
	}
	rename := func(id *ast.Ident) (string, bool) {
		if id.Name == "_" {
			return "", false
		}
		if o := si.info.Uses[id]; o != nil {
			if t, ok := substObj[o]; ok {
				return t, true
			}
		}
		if si.typeArgs != nil {
			if tn, ok := si.info.Uses[id].(*types.TypeName); ok {
				if tp, ok := tn.Type().(*types.TypeParam); ok {
					if ta, ok := si.typeArgs[tp]; ok {
						return tstr(ta, qual), true
					}
				}
			}
		}
		if tsIdents[id] {
			return id.Name + sfx, true
		}
		obj := si.info.Uses[id]
		if obj == nil {
			obj = si.info.Defs[id]
		}
		if obj != nil && declared[obj] {
			return id.Name + sfx, true
		}
		// uses of a type-switch variable resolve to implicit per-clause objects
		if v, ok := obj.(*types.Var); ok && tsNames[id.Name] && v.Pos() >= decl.Body.Pos() && v.Pos() < decl.Body.End() {
			return id.Name + sfx, true
		}
		return "", false
	}
	// result variables
	nres := sig.Results().Len()
	resNames := make([]string, nres)
	namedRes := false
	for i := 0; i < nres; i++ {
		rv := sig.Results().At(i)
		if rv.Name() != "" && rv.Name() != "_" {
			namedRes = true
			resNames[i] = rv.Name() + sfx
		} else {
			resNames[i] = fmt.Sprintf("r%d%s", i, sfx)
		}
	}
	label := "L" + sfx
	// edits on the callee body text
	type edit struct {
		s, e int
		text string
	}
	var edits []edit
	off := func(p token.Pos) int { return si.fset.Position(p).Offset }
	bodyStart, bodyEnd := off(decl.Body.Lbrace)+1, off(decl.Body.Rbrace)
	// text of a deferred call with the callee's identifiers renamed
	renamedText := func(e ast.Expr) string {
		src := calleeSrc[off(e.Pos()):off(e.End())]
		type ed struct {
			s, e int
			t    string
		}
		var eds []ed
		ast.Inspect(e, func(m ast.Node) bool {
			if sel, ok := m.(*ast.SelectorExpr); ok {
				// only the operand chain's root can be a local
				root := sel.X
				for {
					if s2, ok := root.(*ast.SelectorExpr); ok {
						root = s2.X
						continue
					}
					break
				}
				if id, ok := root.(*ast.Ident); ok {
					if nn, ok := rename(id); ok {
						eds = append(eds, ed{off(id.Pos()) - off(e.Pos()), off(id.End()) - off(e.Pos()), nn})
					}
				}
				return false
			}
			if id, ok := m.(*ast.Ident); ok {
				if nn, ok := rename(id); ok {
					eds = append(eds, ed{off(id.Pos()) - off(e.Pos()), off(id.End()) - off(e.Pos()), nn})
				}
			}
			return true
		})
		sort.Slice(eds, func(i, j int) bool { return eds[i].s > eds[j].s })
		out := append([]byte{}, src...)
		for _, x := range eds {
			out = append(append(append([]byte{}, out[:x.s]...), x.t...), out[x.e:]...)
		}
		return string(out)
	}
	flagName := func(k int) string { return fmt.Sprintf("deferOn%d%s", k, sfx) }
	recvName := func(k int) string { return fmt.Sprintf("deferRecv%d%s", k, sfx) }
	flaggedCall := func(d *ast.DeferStmt) string {
		k := flagged[d]
		var args []string
		for _, a := range d.Call.Args {
			args = append(args, renamedText(a))
		}
		if sel, ok := d.Call.Fun.(*ast.SelectorExpr); ok {
			return recvName(k) + "." + sel.Sel.Name + "(" + strings.Join(args, ", ") + ")"
		}
		return renamedText(d.Call.Fun) + "(" + strings.Join(args, ", ") + ")"
	}
	deferredAt := func(pos token.Pos) string {
		var parts []string
		for i := len(deferList) - 1; i >= 0; i-- {
			if deferList[i].End() <= pos {
				if k, isFlagged := flagged[deferList[i]]; isFlagged {
					parts = append(parts, "if "+flagName(k)+" { "+flaggedCall(deferList[i])+" }; ")
					continue
				}
				parts = append(parts, renamedText(deferList[i].Call)+"; ")
			}
		}
		return strings.Join(parts, "")
	}
	var walk func(n ast.Node, inLit bool)
	walk = func(n ast.Node, inLit bool) {
		ast.Inspect(n, func(m ast.Node) bool {
			switch x := m.(type) {
			case *ast.FuncLit:
				if x != n {
					walk(x.Body, true)
					// its parameter names
					walkIdents(x.Type, func(id *ast.Ident) {
						if nn, ok := rename(id); ok {
							edits = append(edits, edit{off(id.Pos()), off(id.End()), nn})
						}
					})
					return false
				}
			case *ast.Ident:
				if nn, ok := rename(x); ok {
					edits = append(edits, edit{off(x.Pos()), off(x.End()), nn})
				}
			case *ast.SelectorExpr:
				// only the operand can be a local
				walk(x.X, inLit)
				return false
			case *ast.KeyValueExpr:
				// struct literal keys are field names
				if _, isIdent := x.Key.(*ast.Ident); isIdent {
					if obj := si.info.Uses[x.Key.(*ast.Ident)]; obj != nil {
						if v, ok := obj.(*types.Var); ok && v.IsField() {
							walk(x.Value, inLit)
							return false
						}
					}
				}
			case *ast.DeferStmt:
				if k, isFlagged := flagged[x]; isFlagged && !inLit {
					text := flagName(k) + " = true"
					if sel, ok := x.Call.Fun.(*ast.SelectorExpr); ok {
						text += "; " + recvName(k) + " = " + renamedText(sel.X)
					}
					edits = append(edits, edit{off(x.Pos()), off(x.End()), text + " /* defer replayed at exits */"})
					return false
				}
				if simpleDefers[x] && !inLit {
					// the statement itself disappears (its call is replayed at the exits); identifiers inside are renamed
					// where they are replayed, from the renamed text below
					edits = append(edits, edit{off(x.Pos()), off(x.End()), "/* defer replayed at exits */"})
					return false
				}
			case *ast.ReturnStmt:
				if inLit {
					return true
				}
				kw := off(x.Pos())
				replay := deferredAt(x.Pos())
				switch {
				case len(x.Results) == 0:
					edits = append(edits, edit{kw, kw + len("return"), replay + "break " + label})
				default:
					edits = append(edits, edit{kw, kw + len("return"), strings.Join(resNames, ", ") + " ="})
					edits = append(edits, edit{off(x.End()), off(x.End()), "; " + replay + "break " + label})
				}
			}
			return true
		})
	}
	walk(decl.Body, false)
	sort.Slice(edits, func(i, j int) bool {
		if edits[i].s != edits[j].s {
			return edits[i].s > edits[j].s
		}
		return edits[i].e > edits[j].e
	})
	body := append([]byte{}, calleeSrc[bodyStart:bodyEnd]...)
	last := len(calleeSrc) + 1
	for _, e := range edits {
		if e.s < bodyStart || e.e > bodyEnd || e.e > last {
			continue // outside the body (signature identifiers) or overlapping
		}
		s, en := e.s-bodyStart, e.e-bodyStart
		body = append(append(append([]byte{}, body[:s]...), e.text...), body[en:]...)
		last = e.s
	}
	// prelude
	var b strings.Builder
	for i := 0; i < nres; i++ {
		fmt.Fprintf(&b, "var %s %s\n_ = %s\n", resNames[i], tstr(sig.Results().At(i).Type(), qual), resNames[i])
	}
	_ = namedRes
	for _, d := range deferList {
		k, isFlagged := flagged[d]
		if !isFlagged {
			continue
		}
		fmt.Fprintf(&b, "var %s bool\n_ = %s\n", flagName(k), flagName(k))
		if sel, ok := d.Call.Fun.(*ast.SelectorExpr); ok {
			fmt.Fprintf(&b, "var %s %s\n_ = %s\n", recvName(k), tstr(si.info.TypeOf(sel.X), qual), recvName(k))
		}
	}
	fmt.Fprintf(&b, "%s:\nfor {\n", label)
	for i, v := range paramVars {
		name := v.Name()
		argText := string(callerSrc[off(argExprs[i].Pos()):off(argExprs[i].End())])
		typ := tstr(v.Type(), qual)
		if sig.Variadic() && v == sig.Params().At(sig.Params().Len()-1) {
			typ = tstr(v.Type(), qual) // already a slice type
		}
		if name == "" || name == "_" {
			fmt.Fprintf(&b, "var _ %s = %s\n", typ, argText)
			continue
		}
		if _, subst := substName[name]; subst {
			continue
		}
		fmt.Fprintf(&b, "var %s%s %s = %s\n_ = %s%s\n", name, sfx, typ, argText, name, sfx)
	}
	b.Write(body)
	fmt.Fprintf(&b, "\n%sbreak %s\n}\n", deferredAt(decl.Body.Rbrace), label)
	// the carrier statement with the call replaced by the result variables
	rvars := strings.Join(resNames, ", ")
	stmtText := string(callerSrc[off(stmt.Pos()):off(stmt.End())])
	callS, callE := off(call.Pos())-off(stmt.Pos()), off(call.End())-off(stmt.Pos())
	switch c.kind {
	case "expr":
		if simple == stmt {
			stmtText = ""
		} else {
			// `if f(); cond {` cannot occur (ExprStmt as init is legal): drop the init
			is, ie := off(simple.Pos())-off(stmt.Pos()), off(simple.End())-off(stmt.Pos())
			stmtText = stmtText[:is] + stmtText[ie:]
		}
	case "assign", "return":
		if nres == 0 {
			return nil, fmt.Errorf("no results to assign")
		}
		stmtText = stmtText[:callS] + rvars + stmtText[callE:]
	case "cond":
		stmtText = stmtText[:callS] + resNames[0] + stmtText[callE:]
	}
	b.WriteString(stmtText)
	b.WriteString("\n")
	out := append([]byte{}, callerSrc[:off(stmt.Pos())]...)
	out = append(out, b.String()...)
	out = append(out, callerSrc[off(stmt.End()):]...)
	if len(addImports) > 0 {
		// after the package clause
		pe := off(file.Name.End())
		out = append(append(append([]byte{}, out[:pe]...), ("\n\n"+strings.Join(addImports, "\n")+"\n")...), out[pe:]...)
	}
	return out, nil
}

func calleeIdent(c *ast.CallExpr) *ast.Ident {
	fun := c.Fun
	switch ix := fun.(type) {
	case *ast.IndexExpr:
		fun = ix.X
	case *ast.IndexListExpr:
		fun = ix.X
	}
	switch f := fun.(type) {
	case *ast.Ident:
		return f
	case *ast.SelectorExpr:
		return f.Sel
	}
	return nil
}

func plainLvalue(e ast.Expr) bool {
	switch x := e.(type) {
	case *ast.Ident:
		return true
	case *ast.SelectorExpr:
		return plainLvalue(x.X)
	case *ast.IndexExpr:
		// x.f[i] with a plain container and a plain index: evaluating them before or after the callee is the same
		return plainLvalue(x.X) && pureOperand(x.Index)
	}
	return false
}

func containsNode(root ast.Node, target ast.Node) bool {
	found := false
	ast.Inspect(root, func(n ast.Node) bool {
		if n == target {
			found = true
		}
		return !found
	})
	return found
}

func walkIdents(n ast.Node, f func(*ast.Ident)) {
	ast.Inspect(n, func(m ast.Node) bool {
		if id, ok := m.(*ast.Ident); ok {
			f(id)
		}
		return true
	})
}

// pathTo returns the chain of nodes from target up to the file (target first).
func pathTo(file *ast.File, target ast.Node) []ast.Node {
	var stack, out []ast.Node
	ast.Inspect(file, func(n ast.Node) bool {
		if out != nil {
			return false
		}
		if n == nil {
			stack = stack[:len(stack)-1]
			return true
		}
		stack = append(stack, n)
		if n == target {
			for i := len(stack) - 1; i >= 0; i-- {
				out = append(out, stack[i])
			}
			return false
		}
		return true
	})
	return out
}

// hoistable: call is evaluated before anything else in stmt that could have an effect, and exactly once when stmt runs.
func hoistable(stmt ast.Stmt, call *ast.CallExpr) bool {
	var roots []ast.Expr // operand expressions of the statement in evaluation order
	switch x := stmt.(type) {
	case *ast.ExprStmt:
		roots = []ast.Expr{x.X}
	case *ast.AssignStmt:
		// index / selector operands on the left are evaluated first: only plain targets
		for _, l := range x.Lhs {
			if !plainLvalue(l) {
				return false
			}
		}
		roots = x.Rhs
	case *ast.ReturnStmt:
		roots = x.Results
	case *ast.SendStmt:
		if !pureOperand(x.Chan) {
			return false
		}
		roots = []ast.Expr{x.Value}
	case *ast.IfStmt:
		if x.Init != nil {
			if as, ok := x.Init.(*ast.AssignStmt); ok && containsNode(as, call) {
				return hoistable(as, call)
			}
			return false
		}
		roots = []ast.Expr{x.Cond}
	case *ast.RangeStmt:
		roots = []ast.Expr{x.X}
	case *ast.DeclStmt:
		gd, ok := x.Decl.(*ast.GenDecl)
		if !ok || gd.Tok != token.VAR || len(gd.Specs) != 1 {
			return false
		}
		roots = gd.Specs[0].(*ast.ValueSpec).Values
	default:
		return false
	}
	// walk the operands in evaluation order until the call is reached
	found := false
	var first func(e ast.Expr) bool // false: something impure comes before the call
	first = func(e ast.Expr) bool {
		if found {
			return true
		}
		if e == nil {
			return true
		}
		if ast.Expr(call) == e {
			found = true
			return true
		}
		if !containsNode(e, call) {
			return pureOperand(e)
		}
		switch x := e.(type) {
		case *ast.ParenExpr:
			return first(x.X)
		case *ast.CallExpr:
			// the function operand (receiver chain) first, then the arguments left to right
			if !first(x.Fun) {
				return false
			}
			for _, a := range x.Args {
				if !first(a) {
					return false
				}
				if found {
					return true
				}
			}
			return true
		case *ast.SelectorExpr:
			return first(x.X)
		case *ast.StarExpr:
			return first(x.X)
		case *ast.UnaryExpr:
			if x.Op == token.ARROW {
				return false
			}
			return first(x.X)
		case *ast.BinaryExpr:
			if x.Op == token.LAND || x.Op == token.LOR {
				// only the left operand is evaluated unconditionally
				if containsNode(x.Y, call) {
					return false
				}
				return first(x.X)
			}
			if !first(x.X) {
				return false
			}
			if found {
				return true
			}
			return first(x.Y)
		case *ast.IndexExpr:
			if !first(x.X) {
				return false
			}
			if found {
				return true
			}
			return first(x.Index)
		case *ast.SliceExpr:
			if containsNode(x.X, call) {
				return first(x.X)
			}
			return false
		case *ast.TypeAssertExpr:
			return first(x.X)
		case *ast.CompositeLit:
			for _, el := range x.Elts {
				v := el
				if kv, ok := el.(*ast.KeyValueExpr); ok {
					if !pureOperand(kv.Key) {
						return false
					}
					v = kv.Value
				}
				if !first(v) {
					return false
				}
				if found {
					return true
				}
			}
			return true
		case *ast.FuncLit:
			return false // evaluated later, possibly many times
		}
		return false
	}
	for _, r := range roots {
		if !first(r) {
			return false
		}
		if found {
			return true
		}
	}
	return false
}

// pureOperand: evaluating e has no effect and cannot fail: names, literals, field selections of names, conversions and
// len / cap of those.
func pureOperand(e ast.Expr) bool {
	switch x := e.(type) {
	case nil:
		return true
	case *ast.Ident, *ast.BasicLit:
		return true
	case *ast.ParenExpr:
		return pureOperand(x.X)
	case *ast.SelectorExpr:
		return pureOperand(x.X)
	case *ast.UnaryExpr:
		return (x.Op == token.SUB || x.Op == token.NOT || x.Op == token.ADD) && pureOperand(x.X)
	case *ast.BinaryExpr:
		if x.Op == token.QUO || x.Op == token.REM {
			return false
		}
		return pureOperand(x.X) && pureOperand(x.Y)
	case *ast.CallExpr:
		if id, ok := x.Fun.(*ast.Ident); ok && (id.Name == "len" || id.Name == "cap") && len(x.Args) == 1 {
			return pureOperand(x.Args[0])
		}
		return false
	}
	return false
}

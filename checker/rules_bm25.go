package main

// rules_bm25.go — BM25 text index rules (C03, parts of C06).

import (
	"fmt"
	"go/constant"
	"go/token"
	"go/types"
	"strings"

	"golang.org/x/tools/go/ssa"
)

type textKind struct {
	IndexT   types.Type
	SearchT  types.Type
	Execute  *ssa.Function
	Single   *ssa.Function
	Add      *ssa.Function
	Remove   *ssa.Function
	Flush    *ssa.Function
	DelField string
	IdxField string
}

func textKindOf(w *World) (*textKind, error) {
	ti, ts := w.Iface("TextIndex"), w.Iface("TextSearch")
	if ti == nil || ts == nil {
		return nil, fmt.Errorf("TextIndex/TextSearch interfaces not found")
	}
	impls := w.Implementers(ti)
	if len(impls) != 1 {
		return nil, fmt.Errorf("expected one TextIndex implementer, found %d", len(impls))
	}
	k := &textKind{IndexT: impls[0]}
	ns := w.Method(k.IndexT, "NewSearch")
	if ns == nil {
		return nil, fmt.Errorf("NewSearch missing")
	}
	allInstrs(ns, func(in ssa.Instruction) {
		if mi, ok := in.(*ssa.MakeInterface); ok && types.Implements(mi.X.Type(), ts) {
			k.SearchT = mi.X.Type()
		}
	})
	if k.SearchT == nil {
		return nil, fmt.Errorf("concrete text search type not found")
	}
	k.Execute = w.Method(k.SearchT, "Execute")
	k.Add, k.Remove, k.Flush = w.Method(k.IndexT, "Add"), w.Method(k.IndexT, "Remove"), w.Method(k.IndexT, "Flush")
	if k.Execute == nil || k.Add == nil || k.Remove == nil || k.Flush == nil {
		return nil, fmt.Errorf("Execute/Add/Remove/Flush missing")
	}
	for _, call := range callsIn(k.Execute, func(c *ssa.CallCommon) bool { return staticCallee(c) != nil }) {
		f := staticCallee(call.Common())
		if f.Signature.Recv() != nil && types.Identical(f.Signature.Recv().Type(), k.SearchT) && f.Signature.Results().Len() >= 1 && f.Signature.Results().Len() <= 2 &&
			tstr(f.Signature.Results().At(0).Type(), qual) == "[]TextResult" {
			k.Single = f
		}
	}
	if k.Single == nil {
		return nil, fmt.Errorf("per-query text search routine not found below Execute")
	}
	// soft-delete field: bitmap that Remove adds to
	c := NewCanon(w)
	for _, call := range callsIn(k.Remove, func(cc *ssa.CallCommon) bool { return calleeName(cc) == roaringBitmap+"Add" }) {
		s := c.S(call.Common().Args[0])
		if strings.HasPrefix(s, "P0.") {
			k.DelField = s[3:]
		}
	}
	if k.DelField == "" {
		return nil, fmt.Errorf("soft-delete bitmap of the text index not found")
	}
	k.IdxField = indexFieldOf(k.SearchT, k.IndexT)
	return k, nil
}

func hasField(T types.Type, name string) bool {
	if p, ok := T.(*types.Pointer); ok {
		T = p.Elem()
	}
	st, ok := T.Underlying().(*types.Struct)
	if !ok {
		return false
	}
	for i := 0; i < st.NumFields(); i++ {
		if roleFieldName(T, st.Field(i).Name()) == name {
			return true
		}
	}
	return false
}

// ruleBM25ADM: a document is scored ⇔ it is not soft-deleted and not filtered out; the scored id is the iterated posting id.
func ruleBM25ADM(r *Run, rule string, k *textKind) {
	w := r.W
	fn := k.Single
	name := w.Name(fn)
	r.Analysed(name)
	r.Doc(rule, "removed or ineligible documents are scored (returned), or live matching ones are skipped")
	c := NewCanon(w)
	var sinks []*ssa.MapUpdate
	for _, mu := range mapUpdatesOf(fn) {
		if _, ok := mu.Map.Type().Underlying().(*types.Map); ok && tstr(mu.Map.Type(), nil) == "map[uint32]float64" {
			sinks = append(sinks, mu)
		}
	}
	if len(sinks) != 1 {
		r.Unres(rule, "bm25:sink", fmt.Sprintf("%s: expected one score accumulation scores[doc] += …, found %d", name, len(sinks)))
		return
	}
	sink := sinks[0]
	site := w.InstrPos(sink) + " " + name
	loop := innermostLoop(loopsOf(fn), sink.Block())
	if loop == nil {
		r.Bad(rule, "bm25:loop", site, "score accumulation is not inside the posting loop")
		return
	}
	docC := c.S(sink.Key)
	delCanon := "P0." + k.IdxField + "." + k.DelField
	docField := builderField(w, k.SearchT, "WithDocumentIDs")
	filterCanon := "NewDocumentFilter(P0." + docField + ")"
	var problems []string
	classify := func(cond ssa.Value) (string, bool) {
		call, ok := cond.(*ssa.Call)
		if !ok {
			return "", false
		}
		n := calleeName(call.Common())
		switch {
		case n == roaringBitmap+"Contains" && c.S(call.Call.Args[0]) == delCanon:
			if a := c.S(call.Call.Args[1]); a != docC {
				problems = append(problems, "soft-delete test applied to "+a+", scored document is "+docC)
				return "", false
			}
			return "DEL", false
		case strings.HasSuffix(n, "DocumentFilter).ShouldSkip") || strings.HasSuffix(n, "DocumentFilter).IsEligible"):
			if a := c.S(call.Call.Args[0]); a != filterCanon {
				problems = append(problems, "document filter is "+a+", expected "+filterCanon)
				return "", false
			}
			if a := c.S(call.Call.Args[1]); a != docC {
				problems = append(problems, "document filter applied to "+a+", scored document is "+docC)
				return "", false
			}
			return "SKIP", strings.HasSuffix(n, "IsEligible")
		}
		return "", false
	}
	rows, trunc := iterationPaths(loop, classify)
	if trunc {
		r.Und(rule, "bm25:table", site, "too many paths")
		return
	}
	bad, states := tableCheck([]string{"DEL", "SKIP"}, rows, func(pr pathRow) string {
		if pr.P.Has(sink) {
			return "scored"
		}
		return "skipped"
	}, func(a map[string]bool) string {
		if !a["DEL"] && !a["SKIP"] {
			return "scored"
		}
		return "skipped"
	})
	bad = append(dedup(problems), bad...)
	if len(bad) > 0 {
		r.Bad(rule, "bm25:table", site, truncList(bad, 4))
	} else {
		r.Ok(rule, "bm25:table", site, fmt.Sprintf("%d body paths, %d states: scored ⇔ ¬DEL ∧ ¬SKIP for document %s", len(rows), states, docC))
	}
	// the scored document iterates the posting bitmap of a query token; tokens = tokenize(normalize(query))
	okIter := strings.Contains(docC, "Iterator(P0."+k.IdxField+".postings[") && strings.Contains(docC, "tokenize(normalize(P1))[range]")
	r.Check(okIter, rule, "bm25:iterates", site, "scored ids iterate postings[t] for every token t of tokenize(normalize(query))",
		"scored id "+docC+" does not iterate the postings of the normalised query tokens")
	// accumulation: scores[d] = scores[d] + score
	acc := false
	if bo, ok := sink.Value.(*ssa.BinOp); ok && bo.Op == token.ADD {
		l := c.S(bo.X)
		acc = strings.HasSuffix(l, "["+docC+"]") || strings.HasSuffix(c.S(bo.Y), "["+docC+"]")
	}
	r.Check(acc, rule, "bm25:accumulate", site, "per-token scores are accumulated (+=) per document", "score is overwritten, not accumulated, per document")
}

// ruleBM25Formula: the per-token score expression and idf are the textbook Okapi BM25 (structural comparison,
// commutative operands normalised).
func ruleBM25Formula(r *Run, rule string, k *textKind) {
	w := r.W
	fn := k.Single
	name := w.Name(fn)
	r.Doc(rule, "scores are not Okapi BM25 with idf = ln((N-df+0.5)/(df+0.5)+1)")
	var sink *ssa.MapUpdate
	for _, mu := range mapUpdatesOf(fn) {
		if tstr(mu.Map.Type(), nil) == "map[uint32]float64" {
			sink = mu
		}
	}
	if sink == nil {
		return
	}
	site := w.InstrPos(sink) + " " + name
	bo, ok := sink.Value.(*ssa.BinOp)
	if !ok {
		r.Und(rule, "bm25:formula", site, "accumulated value is not an addition")
		return
	}
	e := NewExpr(w)
	e.Leaf = func(v ssa.Value) (string, bool) {
		c := NewCanon(w)
		s := c.S(v)
		idx := "P0." + k.IdxField
		switch {
		case strings.HasPrefix(s, idx+".tf["):
			return "tf", true
		case strings.HasPrefix(s, idx+".docLengths["):
			return "dl", true
		case s == idx+".avgDocLen":
			return "avgdl", true
		case strings.HasPrefix(s, roaringBitmap+"GetCardinality("):
			return "df", true
		case strings.HasPrefix(s, "(*sync/atomic.Uint32).Load(") && strings.HasSuffix(s, ".numDocs)"):
			return "N", true
		case s == "G:K1":
			return "k1", true
		case s == "G:B":
			return "b", true
		}
		return "", false
	}
	var score ssa.Value = bo.Y
	if strings.Contains(NewCanon(w).S(bo.Y), "scores") || isMapLookup(bo.Y) {
		score = bo.X
	}
	got := e.S(score)
	// constants K1 = 1.2 and B = 0.75 are folded by the compiler front end: K1+1 = 2.2, 1-B = 0.25
	idf := eCall("math.Log", eAdd(eDiv(eAdd(eSub("N", "df"), eNum(0.5)), eAdd("df", eNum(0.5))), eNum(1)))
	want := eDiv(eMul(idf, eMul("tf", eNum(2.2))), eAdd("tf", eMul(eNum(1.2), eAdd(eNum(0.25), eMul(eNum(0.75), eDiv("dl", "avgdl"))))))
	// normalise both (sorting of commutative operands is done by the printer)
	r.Check(got == want, rule, "bm25:formula", site, "score = idf·tf·(k1+1)/(tf+k1·(1−b+b·dl/avgdl)), idf = ln((N−df+0.5)/(df+0.5)+1)",
		"score expression is "+got+"; textbook form is "+want)
}

func isMapLookup(v ssa.Value) bool {
	_, ok := v.(*ssa.Lookup)
	return ok
}

// ruleTokenize: every call of the tokenizer receives the result of the normaliser.
func ruleTokenize(r *Run, rule string) {
	w := r.W
	r.Doc(rule, "query tokens and document tokens are produced differently and never match")
	tok, norm := w.Fn("tokenize"), w.Fn("normalize")
	if tok == nil || norm == nil {
		r.Unres(rule, "tokenize", "tokenize/normalize helpers not found")
		return
	}
	n := 0
	for _, fn := range w.Funcs {
		for _, call := range callsIn(fn, func(c *ssa.CallCommon) bool { return staticCallee(c) == tok }) {
			n++
			arg := call.Common().Args[0]
			ok := false
			if ac, isCall := arg.(*ssa.Call); isCall && staticCallee(ac.Common()) == norm {
				ok = true
			}
			r.Check(ok, rule, "tokenize:"+w.Name(fn), w.InstrPos(call)+" "+w.Name(fn), "tokenize(normalize(·))", "tokenize is applied to text that was not normalised")
		}
	}
	if n < 2 {
		r.add(rule, "tokenize:floor", "-", fmt.Sprintf("%d tokenize call sites, floor is 2 (document side and query side)", n), Floor)
	}
	// normalize = NFKC then lower-casing (resolved callees)
	r.Analysed(w.Name(norm), w.Name(tok))
	hasNFKC, hasLower := false, false
	allInstrs(norm, func(in ssa.Instruction) {
		if c, ok := in.(ssa.CallInstruction); ok {
			n := calleeName(c.Common())
			if strings.Contains(n, "norm.Form).String") || strings.Contains(n, "norm.Form).Bytes") {
				if len(c.Common().Args) > 0 {
					if g, ok := c.Common().Args[0].(*ssa.Const); ok && g.Value != nil && g.Value.ExactString() == "2" { // norm.NFKC == 2
						hasNFKC = true
					}
				}
			}
			if n == "strings.ToLower" {
				// lower-casing is applied to the NFKC-normalised text (NFKC can introduce upper-case letters: ™ → TM)
				if len(c.Common().Args) > 0 && strings.Contains(NewCanon(w).S(c.Common().Args[0]), "norm.Form).String(") {
					hasLower = true
				}
			}
		}
	})
	// … on every path: each returned value is ToLower(NFKC(argument)) (resolved per return; a fast path that skips NFKC for
	// "simple" text is only sound for ASCII, and the rule cannot see that — it must go through NFKC or be reported)
	{
		cn := NewCanon(w)
		for _, ret := range returnsOf(norm) {
			var vals []ssa.Value
			var expand func(v ssa.Value, d int)
			expand = func(v ssa.Value, d int) {
				if ph, ok := v.(*ssa.Phi); ok && d < 4 {
					for _, e := range ph.Edges {
						expand(e, d+1)
					}
					return
				}
				vals = append(vals, v)
			}
			expand(ret.Results[0], 0)
			for _, v := range vals {
				sv := cn.S(v)
				if !(strings.HasPrefix(sv, "strings.ToLower(") && strings.Contains(sv, "norm.Form).String(") && strings.Contains(sv, "P0")) {
					hasLower = false
					r.Bad(rule, "normalize:every-path", w.InstrPos(ret)+" "+w.Name(norm), "a returned value is "+short(sv, 100)+", not lower(NFKC(text)): some texts skip compatibility folding (x² vs x2, ™ vs tm)")
				}
			}
		}
	}
	r.Check(hasNFKC && hasLower, rule, "normalize:nfkc-lower", w.Pos(norm.Pos())+" "+w.Name(norm), "normalize = lower(NFKC(text)), in this order",
		fmt.Sprintf("normalize is not lower(NFKC(text)): NFKC=%v, lower-casing applied to the NFKC result=%v", hasNFKC, hasLower))
	usesUAX := false
	allInstrs(tok, func(in ssa.Instruction) {
		if c, ok := in.(ssa.CallInstruction); ok && strings.Contains(calleeName(c.Common()), "uax29") {
			usesUAX = true
		}
	})
	r.Check(usesUAX, rule, "tokenize:uax29", w.Pos(tok.Pos())+" "+w.Name(tok), "tokenize segments with UAX#29", "tokenize does not use the UAX#29 segmenter")
}

// ruleBM25Stats: co-update of the statistics fields and avgDocLen recomputation.
func ruleBM25Stats(r *Run, rule string, k *textKind) {
	w := r.W
	r.Doc(rule, "N / average length / per-document lengths drift after remove, replace or flush")
	fields := []string{"docTokens", "docLengths", "numDocs", "totalTokens"}
	for _, f := range append(fields, "avgDocLen", "postings", "tf") {
		if !hasField(k.IndexT, f) {
			r.Unres(rule, "bm25:field:"+f, "BM25 index has no field "+f)
			return
		}
	}
	recvName := namedTypeName(k.IndexT)
	writers := 0
	for _, fn := range w.Funcs {
		if fn.Signature.Recv() == nil || namedTypeName(fn.Signature.Recv().Type()) != recvName {
			continue
		}
		if fn.Name() == "ReadFrom" || strings.HasPrefix(fn.Name(), "ReadFrom$") {
			continue
		}
		c := NewCanon(w)
		upd := map[string][]ssa.Instruction{}
		var avg []ssa.Instruction
		allInstrs(fn, func(in ssa.Instruction) {
			switch x := in.(type) {
			case *ssa.MapUpdate:
				s := c.S(x.Map)
				for _, f := range fields {
					if s == "P0."+f {
						upd[f] = append(upd[f], in)
					}
				}
			case *ssa.Store:
				s := c.S(x.Addr)
				if s == "P0.totalTokens" {
					// ignore the reset-to-zero that accompanies avgDocLen = 0
					if cst, ok := x.Val.(*ssa.Const); !ok || cst.Value == nil || constant.Sign(cst.Value) != 0 {
						upd["totalTokens"] = append(upd["totalTokens"], in)
					}
				}
				if s == "P0.avgDocLen" {
					avg = append(avg, in)
				}
			case *ssa.Call:
				n := calleeName(x.Common())
				if b, ok := x.Call.Value.(*ssa.Builtin); ok && b.Name() == "delete" {
					s := c.S(x.Call.Args[0])
					for _, f := range fields {
						if s == "P0."+f {
							upd[f] = append(upd[f], in)
						}
					}
				}
				if strings.HasSuffix(n, "atomic.Uint32).Add") && c.S(x.Call.Args[0]) == "P0.numDocs" {
					upd["numDocs"] = append(upd["numDocs"], in)
				}
				if strings.HasSuffix(n, "atomic.Uint32).Store") && c.S(x.Call.Args[0]) == "P0.numDocs" {
					upd["numDocs"] = append(upd["numDocs"], in)
				}
				if g := staticCallee(x.Common()); g != nil && g.Pkg == w.SPkg && len(x.Call.Args) > 0 && x.Call.Args[0] == ssa.Value(fn.Params[0]) {
					if len(storesToField(w, g, "P0", "avgDocLen")) > 0 {
						avg = append(avg, in)
					}
				}
			}
		})
		if len(upd) == 0 {
			continue
		}
		name := w.Name(fn)
		if strings.HasPrefix(fn.Name(), "New") {
			continue
		}
		writers++
		r.Analysed(name)
		site := w.Pos(fn.Pos()) + " " + name
		var missing []string
		for _, f := range fields {
			if len(upd[f]) == 0 {
				missing = append(missing, f)
			}
		}
		if len(missing) > 0 {
			r.Bad(rule, "stats:"+name+":co-update", site, "updates "+strings.Join(keysOf(upd), ",")+" but not "+strings.Join(missing, ","))
			continue
		}
		// every update of one field is accompanied by updates of the others on every path (before or after)
		ok := true
		detail := ""
		for f, sites := range upd {
			for _, u := range sites {
				for g, others := range upd {
					if g == f {
						continue
					}
					dominated := false
					for _, o := range others {
						if domInstr(o, u) {
							dominated = true
						}
					}
					// a saturating update (`if n > 0 { n-- }`): the test of the field's own value against zero stands for
					// the update — when it fails the counter is already at the floor it would be moved towards
					standIn := map[ssa.Instruction]bool{}
					cg := NewCanon(w)
					for _, o := range others {
						for b := o.Block(); b != nil; b = b.Idom() {
							d := b.Idom()
							if d == nil {
								break
							}
							iff, isIf := d.Instrs[len(d.Instrs)-1].(*ssa.If)
							if !isIf {
								continue
							}
							bo, isB := iff.Cond.(*ssa.BinOp)
							if !isB {
								continue
							}
							l, rr := cg.S(bo.X), cg.S(bo.Y)
							if (strings.Contains(l, "P0."+g) && rr == "c(0)") || (strings.Contains(rr, "P0."+g) && l == "c(0)") {
								if s0 := d.Succs[0]; len(s0.Preds) == 1 && (s0 == o.Block() || s0.Dominates(o.Block())) {
									standIn[iff] = true
								}
							}
						}
					}
					for g0 := range standIn {
						if domInstr(g0, u) {
							dominated = true
						}
					}
					if dominated {
						continue
					}
					isOther := func(in ssa.Instruction) bool {
						for _, o := range others {
							if o == in {
								return true
							}
						}
						return standIn[in]
					}
					esc := reachAvoid(fn, u, func(in ssa.Instruction) bool { _, isRet := in.(*ssa.Return); return isRet }, isOther)
					if esc != nil {
						ok = false
						detail = fmt.Sprintf("update of %s at %s reaches a return without an update of %s", f, w.InstrPos(u), g)
					}
				}
			}
		}
		r.Check(ok, rule, "stats:"+name+":co-update", site, "docTokens, docLengths, numDocs, totalTokens are updated together on every path", detail)
		// after any update, avgDocLen is recomputed before returning
		okAvg := len(avg) > 0
		detail = "avgDocLen is never recomputed"
		for _, sites := range upd {
			for _, u := range sites {
				isAvg := func(in ssa.Instruction) bool {
					for _, a := range avg {
						if a == in {
							return true
						}
					}
					return false
				}
				if esc := reachAvoid(fn, u, func(in ssa.Instruction) bool { _, isRet := in.(*ssa.Return); return isRet }, isAvg); esc != nil {
					okAvg = false
					detail = fmt.Sprintf("statistics update at %s reaches the return at %s without recomputing avgDocLen", w.InstrPos(u), w.InstrPos(esc))
				}
			}
		}
		r.Check(okAvg, rule, "stats:"+name+":avg", site, "avgDocLen is recomputed after every statistics update", detail)
	}
	if writers < 2 {
		r.add(rule, "stats:floor", "-", fmt.Sprintf("%d statistics writers found, floor is 2 (Add, removeInternal)", writers), Floor)
	}
	ruleBM25Deltas(r, rule, k)
}

func keysOf(m map[string][]ssa.Instruction) []string {
	var out []string
	for k := range m {
		out = append(out, k)
	}
	return out
}

// ruleBM25Deltas: Add adds exactly the stored document length to totalTokens and 1 to numDocs; the purge
// subtracts the stored length and 1; avgDocLen = totalTokens / numDocs.
func ruleBM25Deltas(r *Run, rule string, k *textKind) {
	w := r.W
	add := k.Add
	c := NewCanon(w)
	site := w.Pos(add.Pos()) + " " + w.Name(add)
	var lenStored, tokDelta, numDelta string
	allInstrs(add, func(in ssa.Instruction) {
		switch x := in.(type) {
		case *ssa.MapUpdate:
			if c.S(x.Map) == "P0.docLengths" {
				lenStored = c.S(x.Value)
			}
		case *ssa.Store:
			if c.S(x.Addr) == "P0.totalTokens" {
				tokDelta = c.S(x.Val)
			}
		case *ssa.Call:
			if strings.HasSuffix(calleeName(x.Common()), "atomic.Uint32).Add") && c.S(x.Call.Args[0]) == "P0.numDocs" {
				numDelta = c.S(x.Call.Args[1])
			}
		}
	})
	r.Check(tokDelta == "(P0.totalTokens+"+lenStored+")" && strings.HasPrefix(lenStored, "len(tokenize("), rule, "stats:add:delta", site,
		"Add: docLengths[id] = len(tokens) and totalTokens += that same length", "Add: docLengths[id]="+lenStored+" totalTokens="+tokDelta)
	r.Check(numDelta == "c(1)", rule, "stats:add:count", site, "Add: numDocs += 1", "Add: numDocs delta is "+numDelta)
	// purge
	var purge *ssa.Function
	for _, call := range callsIn(add, func(cc *ssa.CallCommon) bool { return staticCallee(cc) != nil }) {
		g := staticCallee(call.Common())
		if g.Pkg == w.SPkg && g.Signature.Recv() != nil && types.Identical(g.Signature.Recv().Type(), k.IndexT) && len(storesToField(w, g, "P0", "totalTokens")) > 0 {
			purge = g
		}
	}
	if purge == nil {
		r.Unres(rule, "stats:purge", "the hard-delete helper called by Add (replace) was not found")
		return
	}
	c2 := NewCanon(w)
	psite := w.Pos(purge.Pos()) + " " + w.Name(purge)
	okTok, okNum := false, false
	var tokS, numS string
	allInstrs(purge, func(in ssa.Instruction) {
		switch x := in.(type) {
		case *ssa.Store:
			if c2.S(x.Addr) == "P0.totalTokens" {
				s := c2.S(x.Val)
				if s == "(P0.totalTokens-P0.docLengths[P1])" {
					okTok = true
				}
				if s != "c(0)" {
					tokS = s
				}
			}
		case *ssa.Call:
			if strings.HasSuffix(calleeName(x.Common()), "atomic.Uint32).Add") && c2.S(x.Call.Args[0]) == "P0.numDocs" {
				numS = c2.S(x.Call.Args[1])
				if numS == "c(4294967295)" {
					okNum = true
				}
			}
		}
	})
	// the purge forgets the document everywhere: its postings and term frequencies for every one of its tokens, its
	// token list and its length
	{
		var tfDel, postRm, tokDel, lenDel bool
		allInstrs(purge, func(in ssa.Instruction) {
			call, ok := in.(*ssa.Call)
			if !ok {
				return
			}
			if b, isB := call.Call.Value.(*ssa.Builtin); isB && b.Name() == "delete" && len(call.Call.Args) == 2 && c2.S(call.Call.Args[1]) == "P1" {
				m := c2.S(call.Call.Args[0])
				switch {
				case strings.HasPrefix(m, "P0.tf[") && strings.Contains(m, "P0.docTokens[P1]"):
					tfDel = true
				case m == "P0.docTokens":
					tokDel = true
				case m == "P0.docLengths":
					lenDel = true
				}
			}
			if calleeName(call.Common()) == roaringBitmap+"Remove" && len(call.Call.Args) == 2 && c2.S(call.Call.Args[1]) == "P1" {
				if m := c2.S(call.Call.Args[0]); strings.HasPrefix(m, "P0.postings[") && strings.Contains(m, "P0.docTokens[P1]") {
					postRm = true
				}
			}
		})
		r.Check(tfDel && postRm && tokDel && lenDel, rule, "stats:purge:forgets", psite, "purge: for every token of the document its posting and its term frequency go, then its token list and its length",
			fmt.Sprintf("purge leaves a trace of the document: postings cleaned=%v, term frequencies deleted=%v, token list deleted=%v, length deleted=%v (a later Add of the same id counts on top of the stale entries)", postRm, tfDel, tokDel, lenDel))
	}
	// the statistics are zeroed only when the last document went, and recomputed otherwise
	{
		recomputes := func(in ssa.Instruction) bool {
			switch x := in.(type) {
			case *ssa.Store:
				return c2.S(x.Addr) == "P0.avgDocLen" && c2.S(x.Val) != "c(0)"
			case *ssa.Call:
				if g := staticCallee(x.Common()); g != nil && g.Pkg == w.SPkg && len(x.Call.Args) > 0 && x.Call.Args[0] == ssa.Value(purge.Params[0]) {
					for _, st := range storesToField(w, g, "P0", "avgDocLen") {
						if NewCanon(w).S(st.Val) != "c(0)" {
							return true
						}
					}
				}
			}
			return false
		}
		var emptySucc, liveSucc *ssa.BasicBlock
		var emptySuccs, liveSuccs []*ssa.BasicBlock
		undecidable := ""
		allInstrs(purge, func(in ssa.Instruction) {
			iff, ok := in.(*ssa.If)
			if !ok {
				return
			}
			bo, ok := iff.Cond.(*ssa.BinOp)
			if !ok || (!strings.Contains(c2.S(bo.X), "Load(P0.numDocs)") && !strings.Contains(c2.S(bo.X), "atomic.Uint32).Add(P0.numDocs,")) {
				return // (the value Add hands back is the count after the update)
			}
			k0, isK := bo.Y.(*ssa.Const)
			if !isK || k0.Value == nil {
				return
			}
			v := k0.Int64()
			t, f := iff.Block().Succs[0], iff.Block().Succs[1]
			switch {
			case bo.Op == token.GTR && v == 0, bo.Op == token.NEQ && v == 0, bo.Op == token.GEQ && v == 1, bo.Op == token.GEQ && v == 0:
				liveSucc, emptySucc = t, f // (an unsigned count is always ≥ 0: the other arm is dead)
			case bo.Op == token.EQL && v == 0, bo.Op == token.LSS && v == 1, bo.Op == token.LEQ && v == 0:
				emptySucc, liveSucc = t, f
			default:
				undecidable = c2.S(bo)
			}
			if emptySucc != nil {
				emptySuccs = append(emptySuccs, emptySucc)
				liveSuccs = append(liveSuccs, liveSucc)
			}
		})
		zeroOK, liveOK := true, false
		detail := ""
		if emptySucc != nil {
			allInstrs(purge, func(in ssa.Instruction) {
				st, ok := in.(*ssa.Store)
				if !ok || c2.S(st.Val) != "c(0)" {
					return
				}
				if a := c2.S(st.Addr); a != "P0.avgDocLen" && a != "P0.totalTokens" {
					return
				}
				guarded := false
				for _, es := range emptySuccs {
					if (es == st.Block() || es.Dominates(st.Block())) && len(es.Preds) == 1 {
						guarded = true
					}
				}
				// a clamp of the field itself (`if total < 0 { total = 0 }`) is not a reset
				for b := st.Block(); b != nil && !guarded; b = b.Idom() {
					d := b.Idom()
					if d == nil {
						break
					}
					if iff, isIf := d.Instrs[len(d.Instrs)-1].(*ssa.If); isIf && (d.Succs[0] == b || d.Succs[0].Dominates(b)) {
						if cb, isB := iff.Cond.(*ssa.BinOp); isB && cb.Op == token.LSS && c2.S(cb.X) == c2.S(st.Addr) && c2.S(cb.Y) == "c(0)" {
							guarded = true
						}
					}
				}
				if !guarded {
					zeroOK = false
					detail = "statistics are zeroed at " + w.InstrPos(st) + " on a path where documents may remain"
				}
			})
			for _, ls := range liveSuccs {
				for _, b := range purge.Blocks {
					if (ls == b || ls.Dominates(b)) && len(ls.Preds) == 1 {
						for _, in := range b.Instrs {
							if recomputes(in) {
								liveOK = true
							}
						}
					}
				}
			}
			// … or after the branches have joined again (`if n == 0 { total = 0 }; updateAvg()`): on every way on from
			// the live side
			if !liveOK {
				for _, ls := range liveSuccs {
					for _, b := range purge.Blocks {
						onlyEmpty := false
						for _, es := range emptySuccs {
							if (es == b || es.Dominates(b)) && len(es.Preds) == 1 {
								onlyEmpty = true
							}
						}
						if onlyEmpty || !(ls == b || blockReaches(ls, b)) {
							continue
						}
						for _, in := range b.Instrs {
							if recomputes(in) && reachAvoidAt(ls, 0, func(x ssa.Instruction) bool { _, isRet := x.(*ssa.Return); return isRet }, func(x ssa.Instruction) bool { return x == in }) == nil {
								liveOK = true
							}
						}
					}
				}
			}
			// … or before the emptiness test, on every way to it (the recomputation itself yields 0 for an empty index)
			if !liveOK {
				for _, ls := range liveSuccs {
					if len(ls.Preds) == 0 {
						continue
					}
					testBlk := ls.Preds[0]
					for _, b := range purge.Blocks {
						if !(b == testBlk || b.Dominates(testBlk)) {
							continue
						}
						for _, in := range b.Instrs {
							if recomputes(in) {
								liveOK = true
							}
						}
					}
				}
			}
			if !liveOK && detail == "" {
				detail = "while documents remain the average length is not recomputed"
			}
		} else {
			// no emptiness branch: the average must be recomputed unconditionally
			allInstrs(purge, func(in ssa.Instruction) {
				if recomputes(in) {
					liveOK = true
				}
				if st, ok := in.(*ssa.Store); ok && c2.S(st.Val) == "c(0)" {
					if a := c2.S(st.Addr); a == "P0.avgDocLen" || a == "P0.totalTokens" {
						zeroOK = false
						detail = "statistics are zeroed at " + w.InstrPos(st) + " without a test that no document is left"
					}
				}
			})
		}
		if undecidable != "" {
			zeroOK = false
			detail = "the emptiness test is " + undecidable
		}
		r.Check(zeroOK && liveOK, rule, "stats:purge:reset-only-when-empty", psite, "purge: statistics are reset to zero only when no document is left, and the average is recomputed while documents remain", "purge: "+detail)
	}
	r.Check(okTok, rule, "stats:purge:delta", psite, "purge: totalTokens -= docLengths[id]", "purge: totalTokens becomes "+tokS)
	r.Check(okNum, rule, "stats:purge:count", psite, "purge: numDocs -= 1", "purge: numDocs delta is "+numS)
	// avg = float64(totalTokens)/float64(numDocs)
	for _, fn := range w.Funcs {
		if fn.Signature.Recv() == nil || !types.Identical(fn.Signature.Recv().Type(), k.IndexT) || fn.Name() == "ReadFrom" {
			continue
		}
		c3 := NewCanon(w)
		for _, st := range storesToField(w, fn, "P0", "avgDocLen") {
			s := c3.S(st.Val)
			if s == "c(0)" {
				continue
			}
			ok := strings.HasPrefix(s, "(float64(P0.totalTokens)/float64(") && strings.Contains(s, "numDocs")
			r.Check(ok, rule, "stats:avg:"+w.Name(fn), w.InstrPos(st)+" "+w.Name(fn), "avgDocLen = totalTokens / numDocs", "avgDocLen is computed as "+s)
		}
	}
}

// ruleBM25Replace: in Add the purge of an existing document (and the clearing of its pending delete) precede every posting write.
func ruleBM25Replace(r *Run, rule string, k *textKind) {
	w := r.W
	fn := k.Add
	name := w.Name(fn)
	r.Analysed(name)
	r.Doc(rule, "the old text of a replaced document leaves a trace (df, tf, postings)")
	c := NewCanon(w)
	// the existence test: commaok lookup docTokens[id]
	var existsIf *ssa.If
	allInstrs(fn, func(in ssa.Instruction) {
		iff, ok := in.(*ssa.If)
		if !ok {
			return
		}
		if c.S(iff.Cond) == "P0.docTokens[P1]#1" {
			existsIf = iff
		}
	})
	site := w.Pos(fn.Pos()) + " " + name
	if existsIf == nil {
		// the purge helper may carry the test itself: it is then called unconditionally, before every index write, and
		// returns at once — before any write of its own — for an id that is not indexed
		var pc *ssa.Call
		allInstrs(fn, func(in ssa.Instruction) {
			call, ok := in.(*ssa.Call)
			if !ok || pc != nil {
				return
			}
			g := staticCallee(call.Common())
			if g != nil && g.Pkg == w.SPkg && len(call.Call.Args) == 2 && call.Call.Args[0] == ssa.Value(fn.Params[0]) && c.S(call.Call.Args[1]) == "P1" &&
				len(storesToField(w, g, "P0", "totalTokens")) > 0 {
				pc = call
			}
		})
		selfTest := false
		if pc != nil {
			g := staticCallee(pc.Common())
			cg := NewCanon(w)
			if len(g.Blocks) > 0 {
				if iff, ok := g.Blocks[0].Instrs[len(g.Blocks[0].Instrs)-1].(*ssa.If); ok {
					cond, neg := stripNot(iff.Cond)
					if cs := cg.S(cond); strings.HasSuffix(cs, "[P1]#1") && strings.HasPrefix(cs, "P0.") {
						absent := g.Blocks[0].Succs[1]
						if neg {
							absent = g.Blocks[0].Succs[0]
						}
						if len(absent.Instrs) > 0 {
							if _, isRet := absent.Instrs[len(absent.Instrs)-1].(*ssa.Return); isRet && len(absent.Instrs) <= 2 {
								selfTest = true
							}
						}
					}
				}
			}
			// nothing is written before the test
			for _, in := range g.Blocks[0].Instrs {
				switch in.(type) {
				case *ssa.Store, *ssa.MapUpdate:
					selfTest = false
				}
			}
		}
		okFirst := pc != nil
		if pc != nil {
			allInstrs(fn, func(in ssa.Instruction) {
				isW := false
				switch x := in.(type) {
				case *ssa.MapUpdate:
					isW = strings.HasPrefix(c.S(x.Map), "P0.")
				case *ssa.Call:
					isW = calleeName(x.Common()) == roaringBitmap+"Add" && strings.HasPrefix(c.S(x.Call.Args[0]), "P0.postings")
				}
				if isW && !domInstr(pc, in) {
					okFirst = false
				}
			})
		}
		if pc != nil && selfTest && okFirst {
			r.Ok(rule, "bm25:replace:test", site, "the purge helper tests itself whether the id is indexed (returning at once when it is not) and is called before every index write")
			return
		}
		r.Bad(rule, "bm25:replace:test", site, "Add does not test whether the id already exists")
		return
	}
	isPurge := func(in ssa.Instruction) bool {
		call, ok := in.(*ssa.Call)
		if !ok {
			return false
		}
		g := staticCallee(call.Common())
		return g != nil && g.Pkg == w.SPkg && len(call.Call.Args) == 2 && call.Call.Args[0] == ssa.Value(fn.Params[0]) && c.S(call.Call.Args[1]) == "P1" &&
			len(storesToField(w, g, "P0", "totalTokens")) > 0
	}
	isWrite := func(in ssa.Instruction) bool {
		switch x := in.(type) {
		case *ssa.MapUpdate:
			s := c.S(x.Map)
			return strings.HasPrefix(s, "P0.")
		case *ssa.Call:
			return calleeName(x.Common()) == roaringBitmap+"Add" && strings.HasPrefix(c.S(x.Call.Args[0]), "P0.postings")
		}
		return false
	}
	esc := reachAvoidAt(existsIf.Block().Succs[0], 0, isWrite, isPurge)
	r.Check(esc == nil, rule, "bm25:replace:purge-first", w.InstrPos(existsIf)+" "+name,
		"when the id exists, the purge of the old document precedes every index write", "an index write is reachable on the 'exists' path before the old document is purged")
	// the test dominates every write
	okDom := true
	allInstrs(fn, func(in ssa.Instruction) {
		if isWrite(in) && !domInstr(existsIf, in) {
			okDom = false
		}
	})
	r.Check(okDom, rule, "bm25:replace:test-first", site, "the existence test dominates every index write", "an index write is not dominated by the existence test")
}

// ruleBM25Flush: Flush purges every soft-deleted id before clearing the bitmap.
func ruleBM25Flush(r *Run, rule string, k *textKind) {
	w := r.W
	r.Doc(rule, "removed documents keep counting in the statistics after a flush, or are resurrected")
	var body *ssa.Function
	var clear *ssa.Call
	for _, f := range sameRecvCallees(w, k.Flush, 2) {
		c := NewCanon(w)
		for _, call := range callsIn(f, func(cc *ssa.CallCommon) bool { return calleeName(cc) == roaringBitmap+"Clear" }) {
			if cv, ok := call.(*ssa.Call); ok && c.S(cv.Call.Args[0]) == "P0."+k.DelField {
				body, clear = f, cv
			}
		}
	}
	if body == nil {
		r.Bad(rule, "bm25:flush:clear", w.Pos(k.Flush.Pos())+" "+w.Name(k.Flush), "Flush never clears the soft-delete bitmap")
		return
	}
	name := w.Name(body)
	r.Analysed(name)
	c := NewCanon(w)
	found := false
	allInstrs(body, func(in ssa.Instruction) {
		call, ok := in.(*ssa.Call)
		if !ok {
			return
		}
		g := staticCallee(call.Common())
		if g == nil || g.Pkg != w.SPkg || len(call.Call.Args) != 2 || len(storesToField(w, g, "P0", "totalTokens")) == 0 {
			return
		}
		arg := c.S(call.Call.Args[1])
		site := w.InstrPos(call) + " " + name
		found = true
		r.Check(strings.Contains(arg, "Iterator(P0."+k.DelField+")") || strings.Contains(arg, "ToArray(P0."+k.DelField+")"), rule, "bm25:flush:purge", site,
			"every id of the soft-delete bitmap is purged", "purged id "+arg+" does not iterate the soft-delete bitmap")
		l := innermostLoop(loopsOf(body), call.Block())
		r.Check(l != nil && l.Header.Dominates(clear.Block()) && !l.Blocks[clear.Block()], rule, "bm25:flush:order", site,
			"purge loop precedes Clear()", "the bitmap is cleared before the purge loop")
	})
	if !found {
		r.Bad(rule, "bm25:flush:purge", w.Pos(body.Pos())+" "+name, "Flush clears the bitmap without purging the soft-deleted documents")
	}
}

// ruleBM25TopK: heap-order consistency of the top-k selection.
func ruleBM25TopK(r *Run, rule string, k *textKind) {
	w := r.W
	fn := k.Single
	name := w.Name(fn)
	r.Doc(rule, "the k worst documents are kept, or results come back in ascending order")
	ruleHeapOrders(r, rule, map[string]string{"resultHeap": "asc"})
	c := NewCanon(w)
	site := w.Pos(fn.Pos()) + " " + name
	kField := builderField(w, k.SearchT, "WithK")
	kC := "P0." + kField
	var allLo, allHi, pushLt, replaceGt bool
	// the selection may live in a package helper that is handed k (topKResults(scores, k)): scan it with k = its parameter
	type scanT struct {
		fn *ssa.Function
		kC string
	}
	scans := []scanT{{fn, kC}}
	for _, cs := range callsIn(fn, func(cc *ssa.CallCommon) bool { g := staticCallee(cc); return g != nil && g.Pkg == w.SPkg && g != fn }) {
		g := staticCallee(cs.Common())
		for j, a := range cs.Common().Args {
			if c.S(a) == kC && callsNamed(g, "container/heap.Push", "container/heap.Pop") {
				scans = append(scans, scanT{g, fmt.Sprintf("P%d", j)})
				r.Analysed(w.Name(g))
			}
		}
	}
	for _, sc := range scans {
		kC := sc.kC
		allInstrs(sc.fn, func(in ssa.Instruction) {
			bo, ok := in.(*ssa.BinOp)
			if !ok {
				return
			}
			cmp, neg, ok := normCmp(c, bo)
			if !ok {
				return
			}
			switch {
			case !neg && cmp.Op == token.LEQ && cmp.L == kC && cmp.R == "c(0)":
				allLo = true // k <= 0
			case !neg && cmp.Op == token.LEQ && strings.HasPrefix(cmp.L, "len(make") && cmp.R == kC:
				allHi = true // len(scores) <= k
			// the heap branch spelled positively: k > 0 && k < len(scores)
			case !neg && cmp.Op == token.LSS && cmp.L == "c(0)" && cmp.R == kC:
				allLo = true // 0 < k
			case !neg && cmp.Op == token.LSS && cmp.L == kC && strings.HasPrefix(cmp.R, "len(make"):
				allHi = true // k < len(scores)
			case !neg && cmp.Op == token.LSS && strings.Contains(cmp.L, ".Len(") && cmp.R == kC:
				pushLt = true // h.Len() < k
			case !neg && (cmp.Op == token.LSS || cmp.Op == token.LEQ) && strings.HasSuffix(cmp.L, "[c(0)].Score") && strings.HasPrefix(cmp.R, "next("):
				replaceGt = true // root < score
			}
		})
	}
	r.Check(allLo && allHi, rule, "bm25:topk:all-branch", site, "all results ⇔ k ≤ 0 ∨ k ≥ |scores|", fmt.Sprintf("all-results branch condition not in the expected form (k≤0:%v, k≥n:%v)", allLo, allHi))
	r.Check(pushLt, rule, "bm25:topk:push", site, "push while |heap| < k", "heap is not filled while |heap| < k")
	r.Check(replaceGt, rule, "bm25:topk:replace", site, "replace the root ⇔ score > root (min-heap keeps the k best)", "root replacement is not `score > root`")
	// extraction loops fill the output from the back
	n := 0
	direct := map[*ssa.Call]bool{} // pops whose value is stored as it is
	defer func() {
		// pops whose value is converted on the way (`r := heap.Pop(h).(T); out[i] = U{Id: r.DocID, …}`): the fields of
		// out[i] written from the popped value, same index analysis
		for _, sc := range scans {
			allInstrs(sc.fn, func(in ssa.Instruction) {
				pop, ok := in.(*ssa.Call)
				if !ok || calleeName(pop.Common()) != "container/heap.Pop" || direct[pop] {
					return
				}
				var derives func(v ssa.Value, d int) bool
				derives = func(v ssa.Value, d int) bool {
					if d > 5 || v == nil {
						return false
					}
					if v == ssa.Value(pop) {
						return true
					}
					switch x := v.(type) {
					case *ssa.TypeAssert:
						return derives(x.X, d+1)
					case *ssa.Field:
						return derives(x.X, d+1)
					case *ssa.Convert:
						return derives(x.X, d+1)
					case *ssa.ChangeType:
						return derives(x.X, d+1)
					case *ssa.UnOp:
						if a, isA := x.X.(*ssa.FieldAddr); isA && x.Op == token.MUL {
							if al, isAl := a.X.(*ssa.Alloc); isAl {
								if sv := singleStore(al); sv != nil {
									return derives(sv, d+1)
								}
							}
						}
						if al, isAl := x.X.(*ssa.Alloc); isAl && x.Op == token.MUL {
							if sv := singleStore(al); sv != nil {
								return derives(sv, d+1)
							}
							// a composite literal filled field by field
							for _, ref := range *al.Referrers() {
								if fa, isFA := ref.(*ssa.FieldAddr); isFA {
									for _, rr := range *fa.Referrers() {
										if fst, isSt := rr.(*ssa.Store); isSt && fst.Addr == ssa.Value(fa) && derives(fst.Val, d+1) {
											return true
										}
									}
								}
							}
						}
					}
					return false
				}
				var ia *ssa.IndexAddr
				allInstrs(sc.fn, func(in2 ssa.Instruction) {
					st, ok := in2.(*ssa.Store)
					if !ok || ia != nil || !derives(st.Val, 0) {
						return
					}
					switch a := st.Addr.(type) {
					case *ssa.IndexAddr:
						ia = a
					case *ssa.FieldAddr:
						if x, isIA := a.X.(*ssa.IndexAddr); isIA {
							ia = x
						}
					}
				})
				if ia == nil {
					return
				}
				phi, ok := ia.Index.(*ssa.Phi)
				back := false
				if ok {
					haveInit, step := false, false
					for _, e := range phi.Edges {
						if b, ok := e.(*ssa.BinOp); ok {
							if b.Op == token.SUB && b.X == ssa.Value(phi) && c.S(b.Y) == "c(1)" {
								step = true
								continue
							}
							if b.Op == token.SUB && (strings.HasPrefix(c.S(b.X), "len(") || strings.Contains(c.S(b.X), ".Len(")) && c.S(b.Y) == "c(1)" {
								haveInit = true
							}
						}
					}
					back = haveInit && step
				}
				n++
				r.Check(back, rule, fmt.Sprintf("bm25:topk:extract#%d", n), w.InstrPos(pop)+" "+name, "min-heap is drained into the output back-to-front (descending order)",
					"heap Pop results are not written back-to-front")
			})
		}
		if n < 2 {
			r.add(rule, "bm25:topk:extract:floor", "-", fmt.Sprintf("%d heap extraction loops, floor is 2", n), Floor)
		}
	}()
	for _, sc := range scans {
		allInstrs(sc.fn, func(in ssa.Instruction) {
			st, ok := in.(*ssa.Store)
			if !ok {
				return
			}
			ia, ok := st.Addr.(*ssa.IndexAddr)
			if !ok {
				return
			}
			ta, ok := st.Val.(*ssa.TypeAssert)
			if !ok {
				return
			}
			pop, ok := ta.X.(*ssa.Call)
			if !ok || calleeName(pop.Common()) != "container/heap.Pop" {
				return
			}
			direct[pop] = true
			n++
			// the written index is i + off for a counter i that starts at len(X) + c0 and steps by −1; the first slot
			// written is the last one when c0 + off = −1 (i := len−1 … out[i];  i := len … out[i−1])
			var idxv ssa.Value = ia.Index
			off := 0
			if b, isB := idxv.(*ssa.BinOp); isB && b.Op == token.SUB && c.S(b.Y) == "c(1)" {
				if _, isPhi := b.X.(*ssa.Phi); isPhi {
					idxv, off = b.X, -1
				}
			}
			phi, ok := idxv.(*ssa.Phi)
			back := false
			if ok {
				c0, haveInit, step := 0, false, false
				for _, e := range phi.Edges {
					if b, ok := e.(*ssa.BinOp); ok {
						if b.Op == token.SUB && b.X == ssa.Value(phi) && c.S(b.Y) == "c(1)" {
							step = true
							continue
						}
						if b.Op == token.SUB && strings.HasPrefix(c.S(b.X), "len(") && c.S(b.Y) == "c(1)" {
							c0, haveInit = -1, true
						}
					}
					if strings.HasPrefix(c.S(e), "len(") || strings.Contains(c.S(e), ".Len(") {
						c0, haveInit = 0, true
					}
				}
				back = haveInit && step && c0+off == -1
			}
			r.Check(back, rule, fmt.Sprintf("bm25:topk:extract#%d", n), w.InstrPos(st)+" "+name, "min-heap is drained into the output back-to-front (descending order)",
				"heap Pop results are not written back-to-front")
		})
	}
}

// ruleConsts: named constants have the specified values.
func ruleConsts(r *Run, rule string, want map[string]string) {
	w := r.W
	r.Doc(rule, "scores computed with other parameters than the documented ones")
	for name, val := range want {
		o := w.Types.Scope().Lookup(name)
		site := "-"
		if o != nil {
			site = w.Pos(o.Pos())
		}
		switch x := o.(type) {
		case *types.Const:
			got := x.Val().ExactString()
			f, _ := constant.Float64Val(x.Val())
			r.Check(got == val || fmt.Sprint(f) == val, rule, "const:"+name, site, name+" = "+val, name+" = "+got+", specified "+val)
		case *types.Var:
			// package-level var: must be initialised to the value and never reassigned
			g := w.SPkg.Members[name]
			ok := false
			detail := "package variable initialiser not found"
			if gv, isG := g.(*ssa.Global); isG {
				stores := 0
				for _, fn := range w.Funcs {
					allInstrs(fn, func(in ssa.Instruction) {
						if st, isSt := in.(*ssa.Store); isSt && st.Addr == ssa.Value(gv) {
							stores++
							if cst, isC := st.Val.(*ssa.Const); isC && cst.Value != nil && fn.Name() == "init" {
								f, _ := constant.Float64Val(cst.Value)
								if fmt.Sprint(f) == val {
									ok = true
								}
								detail = fmt.Sprintf("%s initialised to %v", name, f)
							} else {
								ok = false
								detail = name + " is written outside its initialiser in " + w.Name(fn)
							}
						}
					})
				}
				if initFn := w.SPkg.Func("init"); initFn != nil {
					allInstrs(initFn, func(in ssa.Instruction) {
						if st, isSt := in.(*ssa.Store); isSt && st.Addr == ssa.Value(gv) {
							stores++
							if cst, isC := st.Val.(*ssa.Const); isC && cst.Value != nil {
								f, _ := constant.Float64Val(cst.Value)
								ok = fmt.Sprint(f) == val
								detail = fmt.Sprintf("%s initialised to %v", name, f)
							}
						}
					})
				}
			}
			r.Check(ok, rule, "const:"+name, site, name+" = "+val+" (package variable, written only by its initialiser)", detail)
		default:
			r.Unres(rule, "const:"+name, name+" not found")
		}
	}
}

// ruleTextRemoveMarks: Remove of an existing, not yet removed document marks it; it never purges eagerly
// (statistics keep counting it until Flush, as the property states).
func ruleTextRemoveMarks(r *Run, rule string, k *textKind) {
	w := r.W
	fn := k.Remove
	name := w.Name(fn)
	r.Analysed(name)
	r.Doc(rule, "a removed document keeps being returned, or statistics change before the flush")
	c := NewCanon(w)
	marks := 0
	var mark ssa.Instruction
	allInstrs(fn, func(in ssa.Instruction) {
		if call, ok := in.(*ssa.Call); ok && calleeName(call.Common()) == roaringBitmap+"Add" &&
			c.S(call.Call.Args[0]) == "P0."+k.DelField && c.S(call.Call.Args[1]) == "P1" {
			marks++
			mark = in
		}
	})
	site := w.Pos(fn.Pos()) + " " + name
	r.Check(marks == 1, rule, "bm25:remove:mark", site, "Remove marks the id in the soft-delete bitmap", "Remove does not mark the argument id exactly once")
	if mark != nil {
		// the mark is reached when the document exists and is not yet deleted: the existence test dominates it
		dom := false
		allInstrs(fn, func(in ssa.Instruction) {
			if iff, ok := in.(*ssa.If); ok {
				s := c.S(iff.Cond)
				if strings.Contains(s, "P0.docTokens[P1]#1") && domInstr(iff, mark) {
					dom = true
				}
			}
		})
		r.Check(dom, rule, "bm25:remove:exists", site, "only existing documents are marked", "the mark is not dominated by the existence test (a dangling mark corrupts a later Flush)")
	}
	// no eager statistics change
	eager := false
	allInstrs(fn, func(in ssa.Instruction) {
		if call, ok := in.(*ssa.Call); ok {
			if g := staticCallee(call.Common()); g != nil && g.Pkg == w.SPkg && len(storesToField(w, g, "P0", "totalTokens")) > 0 {
				eager = true
			}
		}
	})
	r.Check(!eager, rule, "bm25:remove:lazy", site, "Remove does not touch the statistics (they change at Flush)", "Remove purges eagerly: statistics change before the flush")
}

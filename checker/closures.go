package main

// closures.go — local function literals bound to a variable that is only ever called. The pinned tree's own (inventory in
// closures_gen.go, `cometlint -dumpclosures`) are what the rules were written against; any other one is a helper in
// disguise (a body split into `collect := func() {…}; collect()`), and the normaliser inlines its calls like those of an
// unknown named helper.

import (
	"go/ast"
	"go/token"
	"go/types"
)

type closureVar struct {
	Obj   types.Object
	Lit   *ast.FuncLit
	Def   ast.Stmt // the defining statement (v := func… / var v = func…)
	Calls []*ast.CallExpr
	Blank []ast.Stmt // `_ = v` statements (left by the inliner's parameter prelude): not a use
	Only  bool       // every use is a plain call outside the literal itself, not deferred and not started as a goroutine
}

// localClosures lists the closure variables of a function declaration.
func localClosures(info *types.Info, fd *ast.FuncDecl) []*closureVar {
	if fd.Body == nil {
		return nil
	}
	var out []*closureVar
	byObj := map[types.Object]*closureVar{}
	ast.Inspect(fd.Body, func(n ast.Node) bool {
		switch x := n.(type) {
		case *ast.AssignStmt:
			if x.Tok == token.DEFINE && len(x.Lhs) == 1 && len(x.Rhs) == 1 {
				if id, ok := x.Lhs[0].(*ast.Ident); ok {
					if lit, ok := x.Rhs[0].(*ast.FuncLit); ok {
						if obj := info.Defs[id]; obj != nil {
							cv := &closureVar{Obj: obj, Lit: lit, Def: x, Only: true}
							byObj[obj] = cv
							out = append(out, cv)
						}
					}
				}
			}
		case *ast.DeclStmt:
			if gd, ok := x.Decl.(*ast.GenDecl); ok && gd.Tok == token.VAR && len(gd.Specs) == 1 {
				if vs, ok := gd.Specs[0].(*ast.ValueSpec); ok && len(vs.Names) == 1 && len(vs.Values) == 1 {
					if lit, ok := vs.Values[0].(*ast.FuncLit); ok {
						if obj := info.Defs[vs.Names[0]]; obj != nil {
							cv := &closureVar{Obj: obj, Lit: lit, Def: x, Only: true}
							byObj[obj] = cv
							out = append(out, cv)
						}
					}
				}
			}
		}
		return true
	})
	if len(out) == 0 {
		return nil
	}
	// classify the uses
	callFun := map[*ast.Ident]*ast.CallExpr{}
	special := map[*ast.CallExpr]bool{} // deferred / go
	blank := map[*ast.Ident]ast.Stmt{}
	ast.Inspect(fd.Body, func(n ast.Node) bool {
		switch x := n.(type) {
		case *ast.AssignStmt:
			if x.Tok == token.ASSIGN && len(x.Lhs) == 1 && len(x.Rhs) == 1 {
				if l, ok := x.Lhs[0].(*ast.Ident); ok && l.Name == "_" {
					if rid, ok := x.Rhs[0].(*ast.Ident); ok {
						blank[rid] = x
					}
				}
			}
		case *ast.CallExpr:
			if id, ok := x.Fun.(*ast.Ident); ok {
				callFun[id] = x
			}
		case *ast.DeferStmt:
			special[x.Call] = true
		case *ast.GoStmt:
			special[x.Call] = true
		}
		return true
	})
	ast.Inspect(fd.Body, func(n ast.Node) bool {
		id, ok := n.(*ast.Ident)
		if !ok {
			return true
		}
		cv := byObj[info.Uses[id]]
		if cv == nil {
			return true
		}
		if st, isBlank := blank[id]; isBlank {
			cv.Blank = append(cv.Blank, st)
			return true
		}
		call := callFun[id]
		switch {
		case call == nil, special[call]:
			cv.Only = false
		case id.Pos() >= cv.Lit.Pos() && id.Pos() < cv.Lit.End():
			cv.Only = false // recursion
		case call.Pos() < cv.Def.End():
			cv.Only = false
		default:
			cv.Calls = append(cv.Calls, call)
		}
		return true
	})
	return out
}

package main

// rules_hybrid2.go — C06.FLAGS: the per-modality bookkeeping of the hybrid index decided as truth tables over the
// success paths of the add routine, of Remove and of the rollback helper. The dominance-based rules next door (ATOMIC, RM)
// find *that* a guard mentions the right flag; these tables decide *when* each sub-index call runs.

import (
	"fmt"
	"go/constant"
	"go/token"
	"sort"
	"strings"

	"golang.org/x/tools/go/ssa"
)

// successRows: classified feasible paths of fn from the entry to a return whose error is nil.
func successRows(fn *ssa.Function, classify classifyFn) ([]pathRow, bool) {
	paths, trunc := enumPaths(fn.Blocks[0], walkCfg{MaxVisits: 1, MaxPaths: 40000 * pathScale, Decide: decideOnPath})
	var rows []pathRow
	for _, p := range paths {
		if p.End != EndReturn || !p.Feasible() {
			continue
		}
		if errIndex(fn) >= 0 && pathErrClass(p) == ErrNonNil {
			continue
		}
		if row := classifyPath(p, classify); !row.Conflict {
			rows = append(rows, row)
		}
	}
	return rows, trunc
}

// nilAtom: cond is `X != nil` / `X == nil` for canonical X; returns (atom name for "X is non-nil", inverted).
func nilCmp(c *Canon, cond ssa.Value) (x string, nonNil bool, ok bool) {
	bo, isB := cond.(*ssa.BinOp)
	if !isB || (bo.Op != token.EQL && bo.Op != token.NEQ) {
		return "", false, false
	}
	l, rr := c.S(bo.X), c.S(bo.Y)
	if l == "nil" {
		l, rr = rr, l
	}
	if rr != "nil" {
		return "", false, false
	}
	return l, bo.Op == token.NEQ, true
}

// nonEmptyCmp: cond says something about len(X) against 0 (or X against ""); returns X and whether cond means "non-empty".
func nonEmptyCmp(c *Canon, cond ssa.Value) (x string, nonEmpty bool, ok bool) {
	bo, isB := cond.(*ssa.BinOp)
	if !isB {
		return "", false, false
	}
	cmp, neg, okN := normCmp(c, bo)
	if !okN {
		return "", false, false
	}
	isLen := func(s string) (string, bool) {
		if strings.HasPrefix(s, "len(") && strings.HasSuffix(s, ")") {
			return s[4 : len(s)-1], true
		}
		return "", false
	}
	switch {
	case cmp.Op == token.LSS && cmp.L == "c(0)": // 0 < len
		if x, ok := isLen(cmp.R); ok {
			return x, !neg, true
		}
	case cmp.Op == token.LEQ && cmp.R == "c(0)": // len <= 0
		if x, ok := isLen(cmp.L); ok {
			return x, neg, true
		}
	case cmp.Op == token.EQL: // len == 0, x == ""
		other := ""
		switch {
		case cmp.L == "c(0)":
			other = cmp.R
		case cmp.R == "c(0)":
			other = cmp.L
		}
		if x, ok := isLen(other); ok {
			return x, neg, true
		}
		if cmp.L == `c("")` {
			return cmp.R, neg, true
		}
		if cmp.R == `c("")` {
			return cmp.L, neg, true
		}
	}
	return "", false, false
}

func ruleHybridFlagTables(r *Run, k *hybridKind, rule string) {
	w := r.W
	r.Doc(rule, "a sub-index is written, rolled back or cleaned for the wrong documents: a document keeps answering in a modality after Remove, a failed Add stays visible, or a document without some modality cannot be added / removed")
	type modality struct {
		name, idx, flag string
		payload         int // parameter index of the payload in the add routine
	}
	mods := []modality{{"vector", "P0.vectorIndex", "hasVector", 2}, {"text", "P0.textIndex", "hasText", 3}, {"metadata", "P0.metadataIndex", "hasMetadata", 4}}

	// ---------------------------------------------------------------- add routine
	fn := k.AddInt
	// the payload parameters by type (their order is the helper's own business)
	mods[0].payload = paramOfType(fn, 2, "[]float32")
	mods[1].payload = paramOfType(fn, 3, "string")
	mods[2].payload = paramOfType(fn, 4, "map[string]interface{}", "map[string]any")
	name := w.Name(fn)
	r.Analysed(name)
	c := NewCanon(w)
	adds := map[string]*ssa.Call{}
	for _, a := range invokesOf(fn, "Add") {
		adds[c.S(a.Call.Value)] = a
	}
	classifyAdd := func(cond ssa.Value) (string, bool) {
		if x, nonNil, ok := nilCmp(c, cond); ok {
			for _, m := range mods {
				if x == m.idx {
					return "IDX:" + m.name, !nonNil
				}
				if x == fmt.Sprintf("P%d", m.payload) {
					return "GIVEN:" + m.name, !nonNil
				}
			}
		}
		if x, nonEmpty, ok := nonEmptyCmp(c, cond); ok {
			for _, m := range mods {
				if x == fmt.Sprintf("P%d", m.payload) {
					return "NONEMPTY:" + m.name, !nonEmpty
				}
			}
		}
		return "", false
	}
	if len(fn.Params) >= 5 && len(adds) == 3 {
		rows, trunc := successRows(fn, classifyAdd)
		if trunc || len(rows) == 0 {
			r.Und(rule, "flags:add:paths", w.Pos(fn.Pos())+" "+name, "the add routine has too many paths to enumerate")
		} else {
			for _, m := range mods {
				add := adds[m.idx]
				if add == nil {
					r.Unres(rule, "flags:add:"+m.name, "sub-index Add on "+m.idx+" not found")
					continue
				}
				atoms := []string{"IDX:" + m.name, "GIVEN:" + m.name, "NONEMPTY:" + m.name}
				if m.name == "text" {
					atoms = []string{"IDX:" + m.name, "NONEMPTY:" + m.name} // a string is never nil
				}
				bad, states := tableCheck(atoms, rows, func(row pathRow) string {
					if row.P.Has(add) {
						return "add"
					}
					return "skip"
				}, func(asg map[string]bool) string {
					given, hasGiven := asg["GIVEN:"+m.name]
					if hasGiven && !given && asg["NONEMPTY:"+m.name] {
						return "-" // a nil slice / map has no elements
					}
					if !asg["IDX:"+m.name] {
						if (!hasGiven || given) && asg["NONEMPTY:"+m.name] {
							return "skip" // payload for a modality that is not configured: ignored, never a nil dereference
						}
						return "skip"
					}
					if (!hasGiven || given) && asg["NONEMPTY:"+m.name] {
						return "add"
					}
					return "skip"
				})
				r.Check(len(bad) == 0, rule, "flags:add:when:"+m.name, w.InstrPos(add)+" "+name,
					fmt.Sprintf("the %s sub-index receives the document exactly when it is configured and the document has a %s part (%d states over the success paths)", m.name, m.name, states),
					"the "+m.name+" sub-index Add does not run exactly for `configured ∧ part present`: "+truncList(bad, 3))
				// the flag ends up true on exactly the success paths that ran the sub-add: the value stored into it — a
				// constant, or a variable resolved along the path — is compared per path (no store: the zero value, false)
				var flagStores []*ssa.Store
				allInstrs(fn, func(in ssa.Instruction) {
					if st, ok := in.(*ssa.Store); ok {
						if fa, ok := st.Addr.(*ssa.FieldAddr); ok && fieldName(fa.X.Type(), fa.Field) == m.flag {
							flagStores = append(flagStores, st)
						}
					}
				})
				if len(flagStores) == 0 {
					r.Bad(rule, "flags:add:flag:"+m.name, w.InstrPos(add)+" "+name, "the add routine never records "+m.flag+": Remove will not clean the "+m.name+" sub-index")
					continue
				}
				mismatch := ""
				for _, row := range rows {
					flag, known := false, true
					for _, in := range row.P.Instrs() {
						st, isSt := in.(*ssa.Store)
						if !isSt {
							continue
						}
						mine := false
						for _, fs := range flagStores {
							if fs == st {
								mine = true
							}
						}
						if !mine {
							continue
						}
						v := resolveOnPath(row.P, forwardLocalLoad(st.Val))
						if cst, isC := v.(*ssa.Const); isC && cst.Value != nil && cst.Value.Kind() == constant.Bool {
							flag = constant.BoolVal(cst.Value)
						} else {
							known = false
						}
					}
					if !known {
						mismatch = "the value recorded in " + m.flag + " on a success path is not determined by the path"
					} else if flag != row.P.Has(add) {
						mismatch = fmt.Sprintf("a success path runs the sub-add: %v, leaves %s = %v", row.P.Has(add), m.flag, flag)
					}
				}
				r.Check(mismatch == "", rule, "flags:add:flag:"+m.name, w.InstrPos(flagStores[0])+" "+name, m.flag+" is true after exactly the success paths that added to the "+m.name+" sub-index", mismatch)
			}
		}
	} else {
		r.Unres(rule, "flags:add:shape", fmt.Sprintf("%s: expected (id, vector, text, metadata) parameters and 3 sub-index Add calls (found %d parameters, %d calls)", name, len(fn.Params), len(adds)))
	}

	// ---------------------------------------------------------------- Remove
	rmFn := k.Remove
	rname := w.Name(rmFn)
	cr := NewCanon(w)
	removes := map[string]*ssa.Call{}
	for _, a := range invokesOf(rmFn, "Remove") {
		removes[cr.S(a.Call.Value)] = a
	}
	classifyRm := func(cond ssa.Value) (string, bool) {
		s := cr.S(cond)
		for _, m := range mods {
			if strings.HasSuffix(s, "."+m.flag) && strings.Contains(s, "docInfo[") {
				return "HAS:" + m.name, false
			}
		}
		if x, nonNil, ok := nilCmp(cr, cond); ok {
			for _, m := range mods {
				if x == m.idx {
					return "IDX:" + m.name, !nonNil
				}
			}
		}
		return "", false
	}
	if len(removes) == 3 {
		rows, trunc := successRows(rmFn, classifyRm)
		if trunc || len(rows) == 0 {
			r.Und(rule, "flags:remove:paths", w.Pos(rmFn.Pos())+" "+rname, "Remove has too many paths to enumerate")
		} else {
			for _, m := range mods {
				rm := removes[m.idx]
				if rm == nil {
					r.Unres(rule, "flags:remove:"+m.name, "sub-index Remove on "+m.idx+" not found")
					continue
				}
				bad, states := tableCheck([]string{"HAS:" + m.name, "IDX:" + m.name}, rows, func(row pathRow) string {
					if row.P.Has(rm) {
						return "remove"
					}
					return "skip"
				}, func(asg map[string]bool) string {
					switch {
					case asg["HAS:"+m.name] && asg["IDX:"+m.name]:
						return "remove"
					case asg["HAS:"+m.name]:
						return "-" // recorded as added to an index that does not exist
					}
					return "skip" // nothing was added there: a removal would fail with "not found"
				})
				r.Check(len(bad) == 0, rule, "flags:remove:when:"+m.name, w.InstrPos(rm)+" "+rname,
					fmt.Sprintf("a successful Remove cleans the %s sub-index exactly when the document was added there (%d states)", m.name, states),
					"a successful Remove does not clean the "+m.name+" sub-index exactly for `"+m.flag+"`: "+truncList(bad, 3))
			}
		}
	}

	// ---------------------------------------------------------------- rollback helper(s) of the add routine
	for _, call := range callsIn(fn, func(cc *ssa.CallCommon) bool {
		g := staticCallee(cc)
		return g != nil && g.Pkg == w.SPkg && g != fn && len(invokesOf(g, "Remove")) > 0
	}) {
		g := staticCallee(call.Common())
		cg := NewCanon(w)
		classifyRb := func(cond ssa.Value) (string, bool) {
			s := cg.S(cond)
			for _, m := range mods {
				if strings.HasSuffix(s, "."+m.flag) {
					return "HAS:" + m.name, false
				}
			}
			return "", false
		}
		paths, trunc := enumPaths(g.Blocks[0], walkCfg{MaxVisits: 1, MaxPaths: 4000, Decide: decideOnPath})
		if trunc {
			continue
		}
		var rows []pathRow
		for _, p := range paths {
			if p.End == EndReturn && p.Feasible() {
				if row := classifyPath(p, classifyRb); !row.Conflict {
					rows = append(rows, row)
				}
			}
		}
		var keys []string
		byIdx := map[string]*ssa.Call{}
		for _, rm := range invokesOf(g, "Remove") {
			s := cg.S(rm.Call.Value)
			keys = append(keys, s)
			byIdx[s] = rm
		}
		sort.Strings(keys)
		for _, s := range keys {
			rm := byIdx[s]
			var m *modality
			for i := range mods {
				if strings.HasSuffix(s, strings.TrimPrefix(mods[i].idx, "P0")) {
					m = &mods[i]
				}
			}
			if m == nil {
				continue
			}
			decidedHere := false
			for _, row := range rows {
				if _, has := row.Atoms["HAS:"+m.name]; has {
					decidedHere = true
				}
				if row.Unknown == 0 && row.P.Has(rm) {
					decidedHere = true // unconditional compensation
				}
			}
			if !decidedHere {
				r.Note(rule, "flags:rollback:"+w.Name(g)+":"+m.name, w.InstrPos(rm)+" "+w.Name(g), "the rollback is keyed on something else than the document's "+m.flag+" flag (a parameter, a local): when it runs is not decided here")
				continue
			}
			bad, _ := tableCheck([]string{"HAS:" + m.name}, rows, func(row pathRow) string {
				if row.P.Has(rm) {
					return "remove"
				}
				return "skip"
			}, func(asg map[string]bool) string {
				if asg["HAS:"+m.name] {
					return "remove"
				}
				return "remove|skip" // removing what was not added only yields an ignored "not found"
			})
			r.Check(len(bad) == 0, rule, "flags:rollback:"+w.Name(g)+":"+m.name, w.InstrPos(rm)+" "+w.Name(g),
				"the rollback removes the document from the "+m.name+" sub-index whenever it had been added there",
				"the rollback does not remove from the "+m.name+" sub-index whenever "+m.flag+" is set: "+truncList(bad, 3))
		}
	}
}

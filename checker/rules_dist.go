package main

// rules_dist.go — distance functions (C18): immutability, zero-vector guard, clamp table, batch/element agreement,
// definitional expression shapes, kind factory.

import (
	"fmt"
	"go/token"
	"go/types"
	"sort"
	"strings"

	"golang.org/x/tools/go/ssa"
)

// paramRoot returns the parameter a slice/pointer value is derived from by slicing / indexing / ranging (nil if none).
func paramRoot(v ssa.Value) *ssa.Parameter {
	for i := 0; i < 12; i++ {
		switch x := v.(type) {
		case *ssa.Parameter:
			return x
		case *ssa.Slice:
			v = x.X
		case *ssa.IndexAddr:
			v = x.X
		case *ssa.Index:
			v = x.X
		case *ssa.FieldAddr:
			v = x.X
		case *ssa.UnOp:
			if x.Op != token.MUL {
				return nil
			}
			// load of an element address: the loaded slice (e.g. queries[i]) still belongs to the parameter
			v = x.X
		case *ssa.Alloc:
			if sv := singleStore(x); sv != nil {
				v = sv
			} else {
				return nil
			}
		case *ssa.ChangeType:
			v = x.X
		case *ssa.Phi:
			// all edges must agree
			var root *ssa.Parameter
			for _, e := range x.Edges {
				if e == ssa.Value(x) {
					continue
				}
				r := paramRootShallow(e)
				if r == nil || (root != nil && r != root) {
					return nil
				}
				root = r
			}
			return root
		default:
			return nil
		}
	}
	return nil
}

func paramRootShallow(v ssa.Value) *ssa.Parameter {
	for i := 0; i < 6; i++ {
		switch x := v.(type) {
		case *ssa.Parameter:
			return x
		case *ssa.Slice:
			v = x.X
		case *ssa.ChangeType:
			v = x.X
		default:
			return nil
		}
	}
	return nil
}

// writesThroughParams lists stores (and copy/append-in-place destinations) whose target memory belongs to a slice / map /
// pointer parameter of fn. skip excludes parameters by index (e.g. the receiver).
func writesThroughParams(w *World, fn *ssa.Function, skip map[int]bool) []string {
	var out []string
	allInstrs(fn, func(in ssa.Instruction) {
		switch x := in.(type) {
		case *ssa.Store:
			if isLocalCell(x.Addr) {
				return
			}
			if p := paramRoot(x.Addr); p != nil && !skip[paramIndex(p)] {
				switch p.Type().Underlying().(type) {
				case *types.Slice, *types.Pointer, *types.Map:
					out = append(out, fmt.Sprintf("store through parameter %s at %s", p.Name(), w.InstrPos(in)))
				}
			}
		case *ssa.MapUpdate:
			if p := paramRoot(x.Map); p != nil && !skip[paramIndex(p)] {
				out = append(out, fmt.Sprintf("map update of parameter %s at %s", p.Name(), w.InstrPos(in)))
			}
		case *ssa.Call:
			if b, ok := x.Call.Value.(*ssa.Builtin); ok {
				switch b.Name() {
				case "copy", "clear":
					if p := paramRoot(x.Call.Args[0]); p != nil && !skip[paramIndex(p)] {
						out = append(out, fmt.Sprintf("%s into parameter %s at %s", b.Name(), p.Name(), w.InstrPos(in)))
					}
				case "delete":
					if p := paramRoot(x.Call.Args[0]); p != nil && !skip[paramIndex(p)] {
						out = append(out, fmt.Sprintf("delete from parameter %s at %s", p.Name(), w.InstrPos(in)))
					}
				case "append":
					// append(param[:n], …) may write into the caller's backing array
					if sl, ok := x.Call.Args[0].(*ssa.Slice); ok {
						if p := paramRoot(sl.X); p != nil && !skip[paramIndex(p)] {
							out = append(out, fmt.Sprintf("append onto a reslice of parameter %s at %s", p.Name(), w.InstrPos(in)))
						}
					}
				}
			}
			// sort.Slice / sort.Float64s etc. on a parameter
			n := calleeName(x.Common())
			if strings.HasPrefix(n, "sort.") && len(x.Call.Args) > 0 {
				a := x.Call.Args[0]
				if mi, ok := a.(*ssa.MakeInterface); ok {
					a = mi.X
				}
				if p := paramRoot(a); p != nil && !skip[paramIndex(p)] {
					out = append(out, fmt.Sprintf("%s sorts parameter %s in place at %s", n, p.Name(), w.InstrPos(in)))
				}
			}
		}
	})
	return out
}

// ruleImmutableParams checks a list of functions for writes through their parameters.
func ruleImmutableParams(r *Run, rule string, fns []*ssa.Function, skipRecv bool) {
	w := r.W
	r.Doc(rule, "the function modifies its caller's data")
	for _, fn := range fns {
		if fn == nil {
			continue
		}
		name := w.Name(fn)
		r.Analysed(name)
		skip := map[int]bool{}
		if skipRecv && fn.Signature.Recv() != nil {
			skip[0] = true
		}
		ws := writesThroughParams(w, fn, skip)
		site := w.Pos(fn.Pos()) + " " + name
		if len(ws) > 0 {
			r.Bad(rule, "imm:"+name, site, strings.Join(ws, "; "))
		} else {
			r.Ok(rule, "imm:"+name, site, "no store / copy / append-in-place / sort through any parameter")
		}
	}
}

// accLoop describes an accumulation loop `acc = f(acc, elems)`.
type accLoop struct {
	Phi    *ssa.Phi
	Init   string
	Update string // normal form with the accumulator as "acc"
}

// distExpr builds an expression printer whose leaves are named by role.
func distExpr(w *World, fn *ssa.Function, acc *ssa.Phi, names map[int]string) *Expr {
	e := NewExpr(w)
	e.Leaf = func(v ssa.Value) (string, bool) {
		if acc != nil && v == ssa.Value(acc) {
			return "acc", true
		}
		if u, ok := v.(*ssa.UnOp); ok && u.Op == token.MUL {
			if ia, ok := u.X.(*ssa.IndexAddr); ok {
				if p := paramRoot(ia.X); p != nil {
					if n, ok := names[paramIndex(p)]; ok {
						return n, true
					}
				}
			}
		}
		if p, ok := v.(*ssa.Parameter); ok {
			if n, ok := names[paramIndex(p)]; ok {
				return n, true
			}
		}
		return "", false
	}
	return e
}

// accumulators finds the loop-header phis of fn that are float accumulators (not range indices) and renders their update.
func accumulators(w *World, fn *ssa.Function, names map[int]string) []accLoop {
	var out []accLoop
	for _, b := range fn.Blocks {
		for _, in := range b.Instrs {
			phi, ok := in.(*ssa.Phi)
			if !ok {
				break
			}
			if phi.Comment == "rangeindex" || !isFloat32(phi.Type()) {
				continue
			}
			// loop header: some edge comes from a block dominated by b
			var back ssa.Value
			var init ssa.Value
			for i, e := range phi.Edges {
				if b.Dominates(b.Preds[i]) {
					back = e
				} else {
					init = e
				}
			}
			if back == nil || init == nil {
				continue
			}
			ex := distExpr(w, fn, phi, names)
			out = append(out, accLoop{Phi: phi, Init: ex.S(init), Update: ex.S(back)})
		}
	}
	return out
}

func ruleDistance(r *Run, p string) {
	w := r.W
	di := w.Iface("Distance")
	if di == nil {
		r.Unres(p+".KIND", "distance", "Distance interface not found")
		return
	}
	impls := w.Implementers(di)
	if len(impls) != 3 {
		r.add(p+".KIND", "distance:floor", "-", fmt.Sprintf("%d Distance implementations, expected 3", len(impls)), Floor)
	}
	var immFns []*ssa.Function
	sqDiff := eAdd("acc", eMul(eSub("x", "y"), eSub("x", "y")))
	dot := eAdd("acc", eMul("x", "y"))
	type defn struct{ update, result string }
	defs := map[string]defn{
		"euclidean": {sqDiff, eCall("math.Sqrt", "acc")},
		"l2Squared": {sqDiff, "acc"},
		"cosine":    {dot, eSub("1", "clamp")},
	}
	r.Doc(p+".DEF", "the distance computed is not the metric's definition")
	r.Doc(p+".BATCH", "batch evaluation differs from element-wise evaluation")
	r.Doc(p+".CLAMP", "cosine distance leaves [0,2] / is wrong for (anti)parallel vectors")
	r.Doc(p+".ZERO", "a zero vector is normalised (division by zero: NaN components) instead of being rejected")
	for _, T := range impls {
		tn := namedTypeName(T)
		calc, batch := w.Method(T, "Calculate"), w.Method(T, "CalculateBatch")
		pre, prein := w.Method(T, "Preprocess"), w.Method(T, "PreprocessInPlace")
		if calc == nil || batch == nil || pre == nil || prein == nil {
			r.Unres(p+".KIND", "distance:"+tn, "methods missing")
			continue
		}
		immFns = append(immFns, calc, batch, pre)
		d, known := defs[tn]
		if !known {
			r.Unres(p+".DEF", "distance:"+tn, "no definition table for distance implementation "+tn)
			continue
		}
		for _, fn := range []*ssa.Function{calc, batch} {
			name := w.Name(fn)
			r.Analysed(name)
			site := w.Pos(fn.Pos()) + " " + name
			accs := accumulators(w, fn, map[int]string{1: "x", 2: "y"})
			if fn == batch && len(accs) == 0 {
				// element-wise delegation: results[i] = Calculate(receiver, queries[i], target) for every i
				cb := NewCanon(w)
				okDel := false
				allInstrs(fn, func(in ssa.Instruction) {
					st, ok := in.(*ssa.Store)
					if !ok {
						return
					}
					ia, ok := st.Addr.(*ssa.IndexAddr)
					if !ok {
						return
					}
					if _, ok := ia.X.(*ssa.MakeSlice); !ok {
						return
					}
					call, ok := st.Val.(*ssa.Call)
					if !ok || staticCallee(call.Common()) != calc || len(call.Call.Args) != 3 {
						return
					}
					if cb.S(ia) == cb.S(ia.X)+"[range]" && cb.S(call.Call.Args[0]) == "P0" && cb.S(call.Call.Args[1]) == "P1[range]" && cb.S(call.Call.Args[2]) == "P2" {
						okDel = true
					}
				})
				if okDel {
					r.Ok(p+".DEF", "def:"+name+":acc", site, "batch element i = Calculate(queries[i], target) of the same implementation (checked above)")
					if strings.Contains(name, "cosine") {
						// the clamp of the element-wise kernel is the batch's clamp
						r.Ok(p+".CLAMP", "clamp:"+name, site, "the batch delegates to Calculate element-wise: its clamp applies")
					}
					okLen := false
					allInstrs(fn, func(in ssa.Instruction) {
						if mk, ok := in.(*ssa.MakeSlice); ok && NewCanon(w).S(mk.Len) == "len(P1)" {
							okLen = true
						}
					})
					r.Check(okLen, p+".BATCH", "batch:"+name+":len", site, "one result per query", "result slice is not len(queries) long")
					continue
				}
			}
			if len(accs) != 1 {
				r.Und(p+".DEF", "def:"+name+":acc", site, fmt.Sprintf("%d accumulation loops found, expected 1", len(accs)))
				continue
			}
			a := accs[0]
			r.Check(a.Update == d.update && a.Init == "0", p+".DEF", "def:"+name+":acc", site, "accumulator: acc₀ = 0, acc ← "+d.update,
				"accumulator starts at "+a.Init+" and is updated as "+a.Update+"; definition is "+d.update)
			// x and y are read at the same index, which ranges over the whole first operand
			sameIdx := sameIndexOperands(w, fn, a.Phi)
			r.Check(sameIdx, p+".DEF", "def:"+name+":index", site, "both operands are read at the same index", "operands are read at different indices")
			// result expression
			var res ssa.Value
			if fn == calc {
				for _, ret := range returnsOf(fn) {
					res = ret.Results[0]
				}
			} else {
				allInstrs(fn, func(in ssa.Instruction) {
					if st, ok := in.(*ssa.Store); ok {
						if ia, ok := st.Addr.(*ssa.IndexAddr); ok {
							if _, ok := ia.X.(*ssa.MakeSlice); ok {
								res = st.Val
							}
						}
					}
				})
			}
			if res == nil {
				r.Und(p+".DEF", "def:"+name+":result", site, "result value not found")
				continue
			}
			ex := distExpr(w, fn, a.Phi, map[int]string{})
			clampPhi := ""
			if tn == "cosine" {
				// 1 - P where P is the clamp join
				if bo, ok := stripFloatConv(res).(*ssa.BinOp); ok && bo.Op == token.SUB {
					if ph, ok := bo.Y.(*ssa.Phi); ok {
						inner := ex.Leaf
						ex.Leaf = func(v ssa.Value) (string, bool) {
							if v == ssa.Value(ph) {
								return "clamp", true
							}
							return inner(v)
						}
						clampPhi = ph.Name()
						ruleClamp(r, p+".CLAMP", fn, a.Phi, ph, bo)
					}
				}
			}
			got := ex.S(res)
			_ = clampPhi
			r.Check(got == d.result, p+".DEF", "def:"+name+":result", site, "result = "+d.result, "result is "+got+"; definition is "+d.result)
			if fn == batch {
				// one result per query, stored at the query's index
				okLen := false
				allInstrs(fn, func(in ssa.Instruction) {
					if mk, ok := in.(*ssa.MakeSlice); ok && NewCanon(w).S(mk.Len) == "len(P1)" {
						okLen = true
					}
				})
				r.Check(okLen, p+".BATCH", "batch:"+name+":len", site, "one result per query", "result slice is not len(queries) long")
			}
		}
		// BATCH: same (update, result) on both — follows from both matching the definition; recorded explicitly
		r.Ok(p+".BATCH", "batch:"+tn+":agrees", w.Pos(batch.Pos())+" "+w.Name(batch), "CalculateBatch and Calculate reduce to the same accumulator and result expressions (see "+p+".DEF)")
		// preprocessing
		if tn == "cosine" {
			for _, fn := range []*ssa.Function{pre, prein} {
				ruleNormalise(r, p, fn, true)
			}
		} else {
			// identity preprocessing: Preprocess returns its argument, PreprocessInPlace does nothing and returns nil
			okPre := true
			for _, ret := range returnsOf(pre) {
				if ret.Results[0] != ssa.Value(pre.Params[1]) || classifyErr(ret) != ErrNil {
					okPre = false
				}
			}
			r.Check(okPre, p+".DEF", "def:"+w.Name(pre), w.Pos(pre.Pos())+" "+w.Name(pre), "preprocessing is the identity", "preprocessing of a Euclidean-family metric is not the identity")
			okIn := len(writesThroughParams(w, prein, map[int]bool{0: true})) == 0
			for _, ret := range returnsOf(prein) {
				if classifyErr(ret) != ErrNil {
					okIn = false
				}
			}
			r.Check(okIn, p+".DEF", "def:"+w.Name(prein), w.Pos(prein.Pos())+" "+w.Name(prein), "in-place preprocessing is a no-op", "in-place preprocessing of a Euclidean-family metric modifies the vector or fails")
		}
	}
	for _, n := range []string{"Norm", "Scale", "Normalize"} {
		immFns = append(immFns, w.Fn(n))
	}
	ruleImmutableParams(r, p+".IMM", immFns, true)
	// helpers
	if fn := w.Fn("Norm"); fn != nil {
		accs := accumulators(w, fn, map[int]string{0: "x"})
		ok := len(accs) == 1 && accs[0].Update == eAdd("acc", eMul("x", "x")) && accs[0].Init == "0"
		res := ""
		if len(accs) == 1 {
			for _, ret := range returnsOf(fn) {
				res = distExpr(w, fn, accs[0].Phi, nil).S(ret.Results[0])
			}
		}
		r.Check(ok && res == eCall("math.Sqrt", "acc"), p+".DEF", "def:Norm", w.Pos(fn.Pos())+" Norm", "Norm = sqrt(Σ x²)", "Norm is "+res)
	}
	if fn := w.Fn("Scale"); fn != nil {
		var res ssa.Value
		allInstrs(fn, func(in ssa.Instruction) {
			if st, ok := in.(*ssa.Store); ok {
				if ia, ok := st.Addr.(*ssa.IndexAddr); ok {
					if _, ok := ia.X.(*ssa.MakeSlice); ok {
						res = st.Val
					}
				}
			}
		})
		got := ""
		if res != nil {
			got = distExpr(w, fn, nil, map[int]string{0: "x", 1: "s"}).S(res)
		}
		r.Check(got == eMul("x", "s"), p+".DEF", "def:Scale", w.Pos(fn.Pos())+" Scale", "Scale(v,s)[i] = v[i]·s", "Scale element is "+got)
	}
	for _, n := range []string{"Normalize", "NormalizeInPlace"} {
		if fn := w.Fn(n); fn != nil {
			ruleNormalise(r, p, fn, false)
		}
	}
	ruleDistanceFactory(r, p+".SWITCH")
}

func stripFloatConv(v ssa.Value) ssa.Value {
	for {
		switch x := v.(type) {
		case *ssa.Convert:
			v = x.X
		case *ssa.ChangeType:
			v = x.X
		default:
			return v
		}
	}
}

// sameIndexOperands: in the loop of accumulator phi, every element load of the two operand parameters uses one index value.
func sameIndexOperands(w *World, fn *ssa.Function, acc *ssa.Phi) bool {
	c := NewCanon(w)
	idx := map[string]bool{}
	loop := innermostLoop(loopsOf(fn), acc.Block())
	if loop == nil {
		return false
	}
	allInstrs(fn, func(in ssa.Instruction) {
		ia, ok := in.(*ssa.IndexAddr)
		if !ok || !loop.Blocks[in.Block()] {
			return
		}
		if _, isF := ia.Type().(*types.Pointer).Elem().Underlying().(*types.Basic); !isF {
			return
		}
		if p := paramRoot(ia.X); p != nil {
			idx[c.idx(ia.Index)] = true
		}
	})
	return len(idx) == 1
}

// ruleClamp: ORD table over (dot, -1, 1) of the value subtracted from 1.
func ruleClamp(r *Run, rule string, fn *ssa.Function, dot, join *ssa.Phi, sub *ssa.BinOp) {
	w := r.W
	name := w.Name(fn)
	site := w.InstrPos(sub) + " " + name
	// the constant 1 on the left
	if s, _ := constString(sub.X); s != "1" {
		r.Bad(rule, "clamp:"+name+":one-minus", site, "the result is not 1 − clamp(dot)")
		return
	}
	// start: first block with a comparison of dot against ±1
	var start *ssa.BasicBlock
	for _, b := range fn.Blocks {
		for _, in := range b.Instrs {
			if bo, ok := in.(*ssa.BinOp); ok && (bo.X == ssa.Value(dot) || bo.Y == ssa.Value(dot)) {
				switch bo.Op {
				case token.LSS, token.GTR, token.LEQ, token.GEQ:
					if start == nil {
						start = b
					}
				}
			}
		}
	}
	if start == nil {
		r.Bad(rule, "clamp:"+name, site, "the dot product is never compared with the bounds ±1")
		return
	}
	syms := []string{"dot", "-1", "1"}
	var bad []string
	rows := 0
	for _, ord := range weakOrders(3) {
		rank := map[string]int{}
		for i, s := range syms {
			rank[s] = ord[i]
		}
		if rank["-1"] >= rank["1"] {
			continue
		}
		rows++
		symOf := func(v ssa.Value) string {
			if v == ssa.Value(dot) {
				return "dot"
			}
			if s, ok := constString(v); ok {
				if s == "1" || s == "-1" {
					return s
				}
			}
			return ""
		}
		decide := func(cond ssa.Value, p *Path) (bool, bool) {
			cnd, neg := stripNot(cond)
			bo, ok := cnd.(*ssa.BinOp)
			if !ok {
				return false, false
			}
			l, rr := symOf(bo.X), symOf(bo.Y)
			if l == "" || rr == "" {
				return false, false
			}
			rel := relOf(rank[l], rank[rr])
			var v bool
			switch bo.Op {
			case token.LSS:
				v = rel == LT
			case token.LEQ:
				v = rel != GT
			case token.GTR:
				v = rel == GT
			case token.GEQ:
				v = rel != LT
			case token.EQL:
				v = rel == EQ
			case token.NEQ:
				v = rel != EQ
			default:
				return false, false
			}
			return v != neg, true
		}
		paths, _ := enumPaths(start, walkCfg{Decide: decide, Stop: func(b *ssa.BasicBlock) bool { return b == sub.Block() }, MaxVisits: 1, MaxPaths: 50})
		want := "dot"
		if rank["dot"] > rank["1"] {
			want = "1"
		} else if rank["dot"] < rank["-1"] {
			want = "-1"
		}
		st := orderString(rank, syms)
		if len(paths) != 1 {
			bad = append(bad, st+": not decided by comparisons of dot with ±1 alone")
			continue
		}
		p := paths[0]
		p.Blocks = append(p.Blocks) // the stop block is the last element
		e := p.PhiEdge(join)
		got := "?"
		switch {
		case e == ssa.Value(dot):
			got = "dot"
		case e != nil:
			if s, ok := constString(e); ok {
				got = s
			}
		}
		// equal ranks: either representative is fine
		okRow := got == want || (got == "1" && rank["dot"] == rank["1"]) || (got == "-1" && rank["dot"] == rank["-1"]) ||
			(got == "dot" && (rank["dot"] == rank["1"] || rank["dot"] == rank["-1"]))
		if !okRow {
			bad = append(bad, fmt.Sprintf("%s: 1 − %s, specification says 1 − %s", st, got, want))
		}
	}
	if len(bad) > 0 {
		r.Bad(rule, "clamp:"+name, site, strings.Join(bad, " | "))
	} else {
		r.Ok(rule, "clamp:"+name, site, fmt.Sprintf("%d weak orders of (dot,−1,1): value used is 1 if dot>1, −1 if dot<−1, dot otherwise ⇒ result ∈ [0,2]", rows))
	}
}

// ruleNormalise: x[i]·(1/sqrt(Σx²)) with the norm == 0 guard dominating the division.
func ruleNormalise(r *Run, p string, fn *ssa.Function, mustReject bool) {
	w := r.W
	name := w.Name(fn)
	r.Analysed(name)
	site := w.Pos(fn.Pos()) + " " + name
	pi := 0
	if fn.Signature.Recv() != nil {
		pi = 1
	}
	accs := accumulators(w, fn, map[int]string{pi: "x"})
	var accPhi *ssa.Phi
	var normCall ssa.Value
	switch {
	case len(accs) == 1:
		a := accs[0]
		accPhi = a.Phi
		r.Check(a.Update == eAdd("acc", eMul("x", "x")) && a.Init == "0", p+".DEF", "def:"+name+":norm", site, "norm² = Σ x²", "norm accumulator is "+a.Update)
	case len(accs) == 0:
		// the norm is taken from the package's Norm helper (itself checked to be sqrt(Σ x²) under def:Norm)
		nf := w.Fn("Norm")
		for _, call := range callsIn(fn, func(cc *ssa.CallCommon) bool { return nf != nil && staticCallee(cc) == nf }) {
			if v, ok := call.(*ssa.Call); ok && len(v.Call.Args) == 1 {
				if pr, ok := v.Call.Args[0].(*ssa.Parameter); ok && paramIndex(pr) == pi {
					normCall = v
				}
			}
		}
		if normCall == nil {
			r.Und(p+".DEF", "def:"+name+":norm", site, "norm accumulation loop not found")
			return
		}
		r.Ok(p+".DEF", "def:"+name+":norm", site, "norm = Norm(x), the checked sqrt(Σ x²) helper")
	default:
		r.Und(p+".DEF", "def:"+name+":norm", site, "norm accumulation loop not found")
		return
	}
	// division 1/norm
	var div *ssa.BinOp
	allInstrs(fn, func(in ssa.Instruction) {
		if bo, ok := in.(*ssa.BinOp); ok && bo.Op == token.QUO {
			div = bo
		}
	})
	if div == nil {
		r.Bad(p+".DEF", "def:"+name+":scale", site, "no division by the norm")
		return
	}
	ex := distExpr(w, fn, accPhi, map[int]string{pi: "x"})
	if normCall != nil {
		inner := ex.Leaf
		ex.Leaf = func(v ssa.Value) (string, bool) {
			if v == normCall {
				return eCall("math.Sqrt", "acc"), true
			}
			return inner(v)
		}
	}
	ds := ex.S(div)
	r.Check(ds == eDiv("1", eCall("math.Sqrt", "acc")), p+".DEF", "def:"+name+":scale", w.InstrPos(div)+" "+name, "scale = 1/sqrt(Σx²)", "scale is "+ds)
	// element: x·scale, stored at the same index it was read from
	okElem := false
	allInstrs(fn, func(in ssa.Instruction) {
		st, ok := in.(*ssa.Store)
		if !ok {
			return
		}
		if _, ok := st.Addr.(*ssa.IndexAddr); !ok {
			return
		}
		if ex.S(st.Val) == eMul("x", ds) {
			okElem = true
		}
	})
	r.Check(okElem, p+".DEF", "def:"+name+":element", site, "each component is x·scale", "normalised component is not x·(1/norm)")
	// every success return has passed the scaling loop: no early "already normalised" exit leaves the vector as it was
	var scaleLoop *Loop
	loops := loopsOf(fn)
	allInstrs(fn, func(in ssa.Instruction) {
		st, ok := in.(*ssa.Store)
		if !ok {
			return
		}
		if _, ok := st.Addr.(*ssa.IndexAddr); ok && ex.S(st.Val) == eMul("x", ds) {
			scaleLoop = innermostLoop(loops, st.Block())
		}
	})
	if scaleLoop != nil {
		zeroRet := func(ret *ssa.Return) bool {
			// the zero-vector exit of the error-less variants (returns the zero copy / nothing) is the guarded branch
			if errIndex(fn) >= 0 {
				return false
			}
			for b := ret.Block(); b != nil; b = b.Idom() {
				d := b.Idom()
				if d == nil {
					break
				}
				if iff, ok := d.Instrs[len(d.Instrs)-1].(*ssa.If); ok {
					if bo, ok := iff.Cond.(*ssa.BinOp); ok && bo.Op == token.EQL && isZeroConst(bo.Y) && bo.X == div.Y && (d.Succs[0] == b || d.Succs[0].Dominates(b)) {
						return true
					}
				}
			}
			return false
		}
		esc := successEscapes(fn, func(in ssa.Instruction) bool { return in.Block() == scaleLoop.Header }, func(ret *ssa.Return) bool { return !zeroRet(ret) })
		if esc != nil {
			r.Bad(p+".DEF", "def:"+name+":always-scales", w.InstrPos(esc)+" "+name, "a success return is reachable without running the scaling loop: some non-zero vectors are left un-normalised")
		} else {
			r.Ok(p+".DEF", "def:"+name+":always-scales", site, "every success return of a non-zero vector has passed the scaling loop")
		}
	}
	// the zero guard dominates the division
	guard := false
	rejects := false
	for b := div.Block(); b != nil; b = b.Idom() {
		d := b.Idom()
		if d == nil {
			break
		}
		iff, ok := d.Instrs[len(d.Instrs)-1].(*ssa.If)
		if !ok {
			continue
		}
		bo, ok := iff.Cond.(*ssa.BinOp)
		if !ok || (bo.Op != token.EQL && bo.Op != token.NEQ) || !isZeroConst(bo.Y) || bo.X != div.Y {
			continue
		}
		zeroSucc, nzSucc := d.Succs[0], d.Succs[1]
		if bo.Op == token.NEQ {
			zeroSucc, nzSucc = nzSucc, zeroSucc
		}
		if nzSucc == b || nzSucc.Dominates(b) {
			guard = true
			if ret, ok := zeroSucc.Instrs[len(zeroSucc.Instrs)-1].(*ssa.Return); ok && (errIndex(fn) < 0 || classifyErr(ret) == ErrNonNil) {
				rejects = errIndex(fn) >= 0
				if errIndex(fn) >= 0 {
					// must be the zero-vector sentinel
					rejects = strings.Contains(NewCanon(w).S(resultValue(ret, errIndex(fn))), "ErrZeroVector")
				}
			}
		}
	}
	r.Check(guard, p+".ZERO", "zero:"+name+":guard", w.InstrPos(div)+" "+name, "the division by the norm is dominated by the norm == 0 test", "the norm is divided by without a dominating zero test")
	if mustReject {
		r.Check(rejects, p+".ZERO", "zero:"+name+":rejects", site, "a zero vector is rejected with ErrZeroVector", "a zero vector is not rejected with ErrZeroVector")
	}
}

// ruleDistanceFactory: NewDistance maps every declared kind to its implementation and rejects everything else.
func ruleDistanceFactory(r *Run, rule string) {
	w := r.W
	r.Doc(rule, "a distance kind is served by another metric's implementation")
	fn := w.Fn("NewDistance")
	if fn == nil {
		r.Unres(rule, "NewDistance", "not found")
		return
	}
	r.Analysed("NewDistance")
	kinds := declaredConsts(w, "DistanceKind")
	domain := sortedKeys(kinds)
	reach := constReach(fn, func(v ssa.Value) bool { return v == ssa.Value(fn.Params[0]) }, domain)
	want := map[string]string{"l2": "euclidean", "l2_squared": "l2Squared", "cosine": "cosine"}
	got := map[string][]string{}
	for _, ret := range returnsOf(fn) {
		impl := "error"
		if classifyErr(ret) == ErrNil {
			impl = "?"
			if mi, ok := resultValue(ret, 0).(*ssa.MakeInterface); ok {
				impl = namedTypeName(mi.X.Type())
			}
		}
		for k := range reach[ret.Block()] {
			got[k] = append(got[k], impl)
		}
	}
	var bad []string
	for _, k := range domain {
		g := dedup(got[k])
		if len(g) != 1 || g[0] != want[k] {
			bad = append(bad, fmt.Sprintf("%q → %v, expected %s", k, g, want[k]))
		}
	}
	if g := dedup(got[otherVal]); len(g) != 1 || g[0] != "error" {
		bad = append(bad, fmt.Sprintf("unknown kinds → %v, expected an error", g))
	}
	sort.Strings(bad)
	site := w.Pos(fn.Pos()) + " NewDistance"
	if len(bad) > 0 || len(domain) != 3 {
		r.Bad(rule, "factory:NewDistance", site, fmt.Sprintf("declared kinds %v; ", domain)+strings.Join(bad, "; "))
	} else {
		r.Ok(rule, "factory:NewDistance", site, "l2→euclidean, l2_squared→l2Squared, cosine→cosine, anything else → error")
	}
}

package main

func init() {
	register("C08", propMeta{
		Explanation: "Structural necessary conditions of 'an acknowledged write stays visible': template/instance separation at every live-instance construction of the storage layer; a memtable leaves the queue only after its flush succeeded, every frozen memtable is flushed, the segment is registered after its files were written and closed; the search lists memtables before segments and covers both snapshots completely, then merges per id; compaction writes ≺ registers ≺ unregisters ≺ deletes and consumes each input's index; freeze handshake (frozen tested under the memtable lock inside the queue lock; freeze takes the memtable lock); mergeResults table.",
		NotDecided:  "ID-set equality with an in-memory reference under all schedules; visibility under every interleaving of the background workers (only the ordering preconditions).",
		Assumptions: []string{"sync.RWMutex semantics", "sub-indexes satisfy C01-C07"},
	}, func(r *Run) {
		ruleErrProp(r, "C08.ERRPROP", "storage")
		k, err := storeKindOf(r.W)
		if err != nil {
			r.Unres("C08.KIND", "store", err.Error())
			return
		}
		ruleTemplates(r, "C08.TMPL")
		ruleFlushOrdering(r, "C08.SEQ.flush", k)
		ruleSearchOrdering(r, "C08.SEQ.search", k)
		ruleCompactOrdering(r, "C08", k)
		ruleFreezeHandshake(r, "C08.FROZEN")
		ruleMerge(r, "C08")
		ruleStoreParams(r, "C08.PARAMS", k)
		ruleStoreForwardGuards(r, "C08.PARAMS", k)
		if ruleBuilders(r, "C08.BLD", k.SearchT) < 11 {
			r.add("C08.BLD", "floor", "-", "fewer than 11 builder methods on the persistent search type", Floor)
		}
		r.FloorCheck("C08.SEQ.flush", 6)
		r.FloorCheck("C08.SEQ.search", 4)
		rulePolarity(r, "C08.POLARITY", k)
		r.FloorCheck("C08.SEQ.compact", 3)
		r.FloorCheck("C08.FROZEN", 6)
	})

	register("C09", propMeta{
		Explanation: "Structural necessary conditions of 'data acknowledged by Flush or Close survives a restart': Flush and the final flush of Close rotate a non-empty active memtable first (count bumped on every successful add), the flush error is what Flush returns and what Close returns (recorded by the worker, read after wg.Wait); every gzip writer and file created on the flush / compaction write path is closed in a checked loop before registration; each component file is created iff its template is configured and is the target of the matching WriteTo writer; every frozen memtable is flushed; segment ids: counter touched only by its initialiser and allocator, base-10 parse, maximum over every segment-like file name, fresh id for every new path; template/instance separation on load; hybrid stream grammar agreement (C07.FMT1 for the hybrid kind).",
		NotDecided:  "power-loss durability (no fsync; the property speaks of process restart); behaviour of other processes.",
		Assumptions: []string{"os / gzip contracts: Close reports write errors", "sync.WaitGroup happens-before"},
	}, func(r *Run) {
		ruleErrProp(r, "C09.ERRPROP", "storage")
		k, err := storeKindOf(r.W)
		if err != nil {
			r.Unres("C09.KIND", "store", err.Error())
			return
		}
		ruleActiveFlushed(r, "C09.ACTIVE", k)
		// a segment written by Flush must load into the configured templates after a restart: the parameters the readers
		// compare are fixed at construction (FMT12 over all serialisable kinds)
		for _, sk := range serKinds(r.W) {
			ruleCtorParamsImmutable(r, "C09.FMT12", sk)
		}
		ruleDurabilityErrors(r, "C09.ERR", k)
		ruleSegmentParts(r, "C09.PARTS", k)
		ruleFlushOrdering(r, "C09.SEQ.flush", k)
		ruleSegmentIDs(r, "C09.ID", k)
		ruleTemplates(r, "C09.TMPL")
		ruleSegmentLoad(r, "C09", k)
		r.FloorCheck("C09.ACTIVE", 5)
		r.FloorCheck("C09.ERR", 15)
		r.FloorCheck("C09.PARTS", 12)
		r.FloorCheck("C09.ID", 8)
	})

	register("C10", propMeta{
		Explanation: "Structural necessary conditions of 'a crash at any point leaves a reopenable, consistent directory': opening decodes nothing and can fail only for a nil config, provider creation or the directory listing (no per-segment fallible step); a segment that fails to load is skipped by the search; a segment is cached only after the single decode over all components succeeded and the stream was verified to EOF (gzip trailer of the last component, no trailing bytes); file-system mutations occur only in the flush / compaction / lock functions, deletions only in compaction after the merged segment was written and registered; segment ids are never reused (C09.ID); readers reject truncation (C16.FMT4).",
		NotDecided:  "actual decode behaviour on each byte prefix of gzip data; atomicity of individual file-system calls.",
		Assumptions: []string{"os.Create truncates / creates; os.Remove removes one name", "gzip.Reader verifies CRC and length when read to EOF"},
	}, func(r *Run) {
		ruleErrProp(r, "C10.ERRPROP", "storage")
		k, err := storeKindOf(r.W)
		if err != nil {
			r.Unres("C10.KIND", "store", err.Error())
			return
		}
		ruleOpenIsLazy(r, "C10.OPEN", k)
		ruleSegmentLoad(r, "C10", k)
		ruleWhoMayWriteFiles(r, "C10.OLD", k)
		ruleCompactOrdering(r, "C10", k)
		ruleSegmentIDs(r, "C10.ID", k)
		// "a Flush that completed is durable when the crash comes": the rotation guard and the counter it reads (C09.ACTIVE)
		ruleActiveFlushed(r, "C10.ACTIVE", k)
		ruleTemplates(r, "C10.TMPL")
		ruleFMT(r, "C10", false, false, false, true, false, false, false, false)
		r.FloorCheck("C10.OPEN", 3)
		r.FloorCheck("C10.WHOLE", 5)
		r.FloorCheck("C10.OLD", 8)
	})

	register("C16", propMeta{
		Explanation: "Premises of the static prefix argument (DESIGN section 4, C16), machine-checked on the eight readers: every fallible read is checked with exactly `err != nil` and returned at once, success only after all reads (FMT4); header fields written from construction parameters are compared by a condition consisting of that comparison alone, mismatch ⇒ error (FMT3); magic / version agree per kind and are pairwise distinct (FMT5); writer and reader grammars agree so that every byte offset lies inside a read (FMT1); receiver state is assigned only after the last fallible step for the six kinds the property names (FMT8; reported, not claimed, for IVFPQ and hybrid); segments: cached only after decode + verification to EOF, load errors skip the segment.",
		NotDecided:  "behaviour on arbitrarily corrupted (non-prefix) bytes; gzip framing details.",
		Assumptions: []string{"io.ReadFull / binary.Read fail on short input", "gzip.Reader verifies its trailer when read to EOF"},
	}, func(r *Run) {
		ruleFMT(r, "C16", true, false, true, true, true, true, false, true)
		if k, err := storeKindOf(r.W); err == nil {
			ruleSegmentLoad(r, "C16.SEG", k)
		} else {
			r.Unres("C16.KIND", "store", err.Error())
		}
		r.FloorCheck("C16.FMT4", 30)
		r.FloorCheck("C16.FMT3", 10)
		r.FloorCheck("C16.FMT5", 16)
		r.FloorCheck("C16.FMT8", 6)
	})

	register("C17", propMeta{
		Explanation: "Structural necessary conditions of 'a directory has at most one owner': the lock file is opened with O_CREATE|O_EXCL (constant-evaluated) in the store directory without a preceding check; a successful acquisition records the file (release depends on it), a failure after creation removes it; release removes the file; every failure of the provider constructor / Open after acquisition releases; only MkdirAll precedes acquisition; Close tests-and-sets closed in one write-locked section, a second Close fails before any effect, the lock is released after wg.Wait on every completed Close; every operation reads closed under the mutex and fails before touching queue / segments / provider.",
		NotDecided:  "cross-process atomicity of O_EXCL (OS contract), stale locks after a crash, what an operation racing with Close must do.",
		Assumptions: []string{"O_CREATE|O_EXCL is atomic on the file system"},
	}, func(r *Run) {
		k, err := storeKindOf(r.W)
		if err != nil {
			r.Unres("C17.KIND", "store", err.Error())
			return
		}
		ruleOwnership(r, "C17", k)
		r.FloorCheck("C17.EXCL", 3)
		r.FloorCheck("C17.RELEASE", 7)
		r.FloorCheck("C17.CLOSED", 7)
	})
}

package main

// rules_errprop.go — ERRPROP: an error that was just found non-nil is not turned into success. For every branch
// `if e != nil` on an error-typed value whose taken arm ends in a return of a function that has an error result, that
// return carries a non-nil error. (Swallowing is how an unstored document gets acknowledged and how an invalid query
// becomes an empty answer.) Arms that do something else than return — skip an element, record the error, fall back —
// are not constrained here.

import (
	"fmt"
	"go/token"
	"go/types"
	"path/filepath"
	"strings"

	"golang.org/x/tools/go/ssa"
)

func ruleErrProp(r *Run, rule string, files ...string) {
	w := r.W
	r.Doc(rule, "a failure is acknowledged as success: the caller is told nil although the operation did not happen")
	n := 0
	for _, fn := range w.Funcs {
		if errIndex(fn) < 0 || fn.Pos() == token.NoPos {
			continue
		}
		base := filepath.Base(w.Fset.Position(fn.Pos()).Filename)
		match := false
		for _, f := range files {
			if strings.HasPrefix(base, f) {
				match = true
			}
		}
		if !match {
			continue
		}
		ord := 0
		allInstrs(fn, func(in ssa.Instruction) {
			iff, ok := in.(*ssa.If)
			if !ok {
				return
			}
			bo, ok := iff.Cond.(*ssa.BinOp)
			if !ok || (bo.Op != token.NEQ && bo.Op != token.EQL) {
				return
			}
			isNil := func(y ssa.Value) bool { k, ok := y.(*ssa.Const); return ok && k.Value == nil }
			var e ssa.Value
			switch {
			case isNil(bo.Y):
				e = bo.X
			case isNil(bo.X):
				e = bo.Y
			default:
				return
			}
			if !types.Identical(e.Type(), errorType) {
				return
			}
			// only errors that come out of a call (not a parameter the caller may legitimately pass as nil-or-not)
			switch x := e.(type) {
			case *ssa.Extract, *ssa.Call:
			case *ssa.Phi, *ssa.UnOp:
				_ = x
			default:
				return
			}
			arm := iff.Block().Succs[0]
			if bo.Op == token.EQL {
				arm = iff.Block().Succs[1]
			}
			if len(arm.Preds) != 1 {
				return
			}
			ret, isRet := arm.Instrs[len(arm.Instrs)-1].(*ssa.Return)
			if !isRet {
				return
			}
			n++
			ord++
			cls := classifyErr(ret)
			r.Check(cls == ErrNonNil, rule, fmt.Sprintf("errprop:%s#%d", w.Name(fn), ord), w.InstrPos(ret)+" "+w.Name(fn),
				"the failure found at the branch is returned as a failure", "an error was found non-nil at "+w.InstrPos(iff)+", yet the return that follows reports success (nil): the failure is swallowed")
		})
	}
	if n == 0 {
		r.add(rule, "errprop:floor", "-", "no error branch ending in a return was found in "+strings.Join(files, ","), Floor)
	}
}

package main

func init() {
	register("C04", propMeta{
		Explanation: "Structural necessary conditions of 'metadata filters return exactly the satisfying documents': freshness of every bitmap handed out or mutated in place below the metadata search (value-flow from New/Clone/CompareValue vs. index-owned storage); operator coverage and dispatch decided by finite-domain reachability over the 11 declared operators (categorical / numeric / local split, unsupported ⇒ error); the answer of every numeric operator followed as a set expression over the BSI comparisons and evaluated at every point of a signed finite model (document with / without the field, stored value and operands over -2..2; the library's EQ / LT / GT / RANGE are undetermined across signs, only LE / GE are exact), with operand provenance; universe of negations (Clone(allDocs) / Clone(existence)); Not as a fix-point-free involution; AND/OR connectives; Remove covers every container Add writes and keeps field kinds stable; numeric type sets and the rounded two-decimal conversion agree between Add and the operand side; key codec and the existence prefix match.",
		NotDecided:  "the roaring library itself: its LE / GE comparisons on a 64-plane BSI are trusted (read, and confirmed against an oracle over random int64 values, DESIGN 11.13); field names containing ':'.",
		Assumptions: []string{"roaring.New/BitmapOf/Clone/CompareValue return fresh storage; BSI.GetExistenceBitmap returns internal storage", "roaring And/Or/AndNot semantics", "roaring BitSliceIndexing v1.9.4 compareValue: LE and GE are exact over int64 on a 64-plane BSI; EQ, LT, GT and RANGE compare magnitudes when stored value and operand differ in sign"},
	}, func(r *Run) {
		ruleErrProp(r, "C04.ERRPROP", "metadata_index")
		k, err := metaKindOf(r.W)
		if err != nil {
			r.Unres("C04.KIND", "metadata", err.Error())
			return
		}
		ruleMetaFresh(r, "C04.FRESH", k)
		ruleMetaOps(r, "C04.OPS", k)
		ruleMetaNot(r, "C04.NOT")
		ruleMetaLogic(r, "C04.LOGIC", k)
		ruleMetaRemoveCovers(r, "C04.RM", k)
		ruleMetaTypes(r, "C04.TYPES", k)
		ruleMetaKey(r, "C04.KEY", k)
		ruleFilterBuilders(r, "C04.BUILD")
		ruleMetaBSIWidth(r, "C04.BSI")
		nb := 0
		for _, T := range builderTypes(r.W, "MetadataSearch") {
			nb += ruleBuilders(r, "C04.BLD", T)
		}
		if nb < 2 {
			r.add("C04.BLD", "floor", "-", "fewer than 2 builder methods on the metadata search type", Floor)
		}
		r.FloorCheck("C04.OPS", 15)
		r.FloorCheck("C04.LOGIC", 4)
	})
}

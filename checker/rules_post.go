package main

// rules_post.go — result post-processing laws (C19): aggregation, limit, autocut, fusion, merge, kind factories.

import (
	"fmt"
	"go/constant"
	"go/token"
	"go/types"
	"sort"
	"strings"

	"golang.org/x/tools/go/ssa"
)

// ---------------------------------------------------------------- aggregation

func ruleAggregations(r *Run, p string) {
	w := r.W
	r.Doc(p+".AGG", "an id appears twice, results are unsorted / in the wrong direction, or scores are combined by the wrong rule")
	type spec struct {
		iface, dir string
	}
	n := 0
	for _, sp := range []spec{{"VectorAggregation", "asc"}, {"TextAggregation", "desc"}} {
		iface := w.Iface(sp.iface)
		if iface == nil {
			r.Unres(p+".AGG", sp.iface, "interface not found")
			continue
		}
		for _, T := range w.Implementers(iface) {
			fn := w.Method(T, "Aggregate")
			kindFn := w.Method(T, "Kind")
			if fn == nil || kindFn == nil {
				continue
			}
			n++
			kind := ""
			for _, ret := range returnsOf(kindFn) {
				kind, _ = constString(ret.Results[0])
			}
			ruleOneAggregation(r, p+".AGG", fn, sp.dir, kind)
		}
	}
	if n != 6 {
		r.add(p+".AGG", "agg:floor", "-", fmt.Sprintf("%d aggregation implementations, expected 6", n), Floor)
	}
}

func ruleOneAggregation(r *Run, rule string, fn *ssa.Function, dir, kind string) {
	w := r.W
	name := w.Name(fn)
	r.Analysed(name)
	c := NewCanon(w)
	site := w.Pos(fn.Pos()) + " " + name
	// (1) the sort call and its direction
	var sortCall *ssa.Call
	var sortedCell *ssa.Alloc
	var sortedVal ssa.Value
	for _, call := range callsIn(fn, func(cc *ssa.CallCommon) bool { return isSortCall(cc) }) {
		sortCall = call.(*ssa.Call)
		sortedCell = cellOf(sortCall.Call.Args[0])
	}
	if sortCall != nil && sortedCell == nil {
		// slices.SortFunc takes the slice itself (no conversion to any, no closure capturing it): the sorted value is a
		// plain SSA value; give it a cell-like identity through the variable it is stored in, if any
		sortedVal = sortCall.Call.Args[0]
	}
	if sortCall == nil || (sortedCell == nil && sortedVal == nil) {
		r.Bad(rule, "agg:"+name+":sorted", site, "the aggregated list is never sorted")
		return
	}
	{
		d, field, why := sortDirection(w, sortCall.Common())
		if d == "" {
			r.Und(rule, "agg:"+name+":order", site, why)
		} else {
			r.Check(d == dir && strings.HasSuffix(field, ".Score"), rule, "agg:"+name+":order", w.InstrPos(sortCall)+" "+name, "sorted "+dir+" by Score (best first for this modality)", "comparator is "+d+" on "+field+", expected "+dir+" on Score")
		}
	}
	// (2) returns: the input only when it is empty, otherwise the sorted list after the sort
	for i, ret := range returnsOf(fn) {
		v := resultValue(ret, 0)
		key := fmt.Sprintf("agg:%s:return#%d", name, i)
		rs := w.InstrPos(ret) + " " + name
		if v == ssa.Value(fn.Params[1]) {
			ok := guardedBy(c, ret, func(cmp Cmp, neg bool) (bool, bool) {
				if cmp.Op == token.EQL && (cmp.L == "len(P1)" || cmp.R == "len(P1)") && (cmp.L == "c(0)" || cmp.R == "c(0)") {
					return !neg, true
				}
				return false, false
			})
			r.Check(ok, rule, key, rs, "the input is returned unchanged only when it is empty", "the input list is returned without aggregation although it is not empty (no de-duplication, no ordering)")
			continue
		}
		ok := (sortedCell != nil && (cellOf(v) == sortedCell || (len(ret.Results) > 0 && cellOf(ret.Results[0]) == sortedCell)) || sortedCell == nil && v == sortedVal) && domInstr(sortCall, ret)
		r.Check(ok, rule, key, rs, "returns the aggregated list after sorting it", "returned value is not the sorted aggregated list")
	}
	// (3) one output per distinct id: every append to the sorted list happens once per key of a map ranged completely
	var outAppends []*ssa.Call
	if sortedCell != nil {
		allInstrs(fn, func(in ssa.Instruction) {
			if call, ok := isBuiltinCall(in, "append"); ok {
				for _, ref := range *call.Referrers() {
					if st, ok := ref.(*ssa.Store); ok && st.Addr == ssa.Value(sortedCell) {
						outAppends = append(outAppends, call)
					}
				}
			}
		})
	} else {
		seen := map[ssa.Value]bool{}
		var walk func(v ssa.Value, depth int)
		walk = func(v ssa.Value, depth int) {
			if seen[v] || depth > 6 {
				return
			}
			seen[v] = true
			switch x := v.(type) {
			case *ssa.Phi:
				for _, e := range x.Edges {
					walk(e, depth+1)
				}
			case *ssa.Call:
				if ac, isAppend := isBuiltinCall(x, "append"); isAppend {
					outAppends = append(outAppends, ac)
					walk(ac.Call.Args[0], depth+1)
				}
			}
		}
		walk(sortedVal, 0)
	}
	if len(outAppends) == 0 && sortedCell != nil {
		// the list is built as a plain value (by an inlined collect helper) and stored into the sorted variable once:
		// the appends of the accumulator that reaches that store
		for _, ref := range *sortedCell.Referrers() {
			st, ok := ref.(*ssa.Store)
			if !ok || st.Addr != ssa.Value(sortedCell) {
				continue
			}
			seen := map[ssa.Value]bool{}
			var walk func(v ssa.Value, depth int)
			walk = func(v ssa.Value, depth int) {
				if seen[v] || depth > 6 {
					return
				}
				seen[v] = true
				switch x := v.(type) {
				case *ssa.Phi:
					for _, e := range x.Edges {
						walk(e, depth+1)
					}
				case *ssa.Call:
					if ac, isAppend := isBuiltinCall(x, "append"); isAppend {
						outAppends = append(outAppends, ac)
						walk(ac.Call.Args[0], depth+1)
					}
				}
			}
			walk(st.Val, 0)
		}
	}
	if len(outAppends) != 1 {
		r.Bad(rule, "agg:"+name+":one-per-id", site, fmt.Sprintf("%d appends to the output list, expected exactly one (per distinct id)", len(outAppends)))
		return
	}
	app := outAppends[0]
	loops := loopsOf(fn)
	loop := innermostLoop(loops, app.Block())
	perKey := false
	var perID ssa.Value // the ranged per-id map
	if loop != nil {
		// the loop must be a range over a map
		for _, in := range loop.Header.Instrs {
			if nx, ok := in.(*ssa.Next); ok {
				if rg, ok := nx.Iter.(*ssa.Range); ok {
					if _, isMap := rg.X.Type().Underlying().(*types.Map); isMap {
						perKey = true
						perID = rg.X
					}
				}
			}
		}
	}
	r.Check(perKey, rule, "agg:"+name+":one-per-id", w.InstrPos(app)+" "+name, "one output element per key of the per-id map", "the output append is not executed once per key of a per-id map")
	if perID == nil {
		return
	}
	// the emitted id is the map key
	elems, _ := appendedElems(app)
	if len(elems) == 1 {
		if f, ok := litFields(elems[0]); ok {
			idv := f["Id"]
			if idv == nil {
				idv = f["Node"]
			}
			ids := ""
			if idv != nil {
				ids = c.S(idv)
			}
			okID := strings.Contains(ids, "next(range(") && strings.Contains(ids, ")#1")
			r.Check(okID, rule, "agg:"+name+":id", w.InstrPos(app)+" "+name, "the emitted id is the per-id map's key", "the emitted id is "+ids)
			// a node looked up by id in a side map: that map must have been given every input's node under its id
			if lk, isLk := idv.(*ssa.Lookup); isLk && f["Node"] != nil {
				given := false
				for _, mu := range mapUpdatesOf(fn) {
					if mu.Map == lk.X && c.S(mu.Key) == "get:id(P1[range].Node)" && c.S(mu.Value) == "P1[range].Node" {
						given = true
					}
				}
				r.Check(given, rule, "agg:"+name+":node", w.InstrPos(app)+" "+name, "the node emitted for an id is the node of an input result with that id",
					"the emitted node is looked up in a map that is never given the input results' nodes under their ids: every output carries an empty node")
			}
		}
	}
	// (4) every input result is filed under its own id
	filed := false
	for _, mu := range mapUpdatesOf(fn) {
		ks := c.S(mu.Key)
		if ks == "get:id(P1[range].Node)" || ks == "P1[range].Id" {
			filed = true
		}
	}
	if !filed {
		// the grouping step extracted into a package function: g(…, results, …) files its parameter by id, hands the
		// map back, and that result is the per-id map ranged over here
		for _, cs := range callsIn(fn, func(cc *ssa.CallCommon) bool { g := staticCallee(cc); return g != nil && g.Pkg == w.SPkg }) {
			call, ok := cs.(*ssa.Call)
			if !ok {
				continue
			}
			g := staticCallee(call.Common())
			for j, a := range call.Call.Args {
				if a != ssa.Value(fn.Params[1]) {
					continue
				}
				gc := NewCanon(w)
				for _, mu := range mapUpdatesOf(g) {
					ks := gc.S(mu.Key)
					if ks != fmt.Sprintf("get:id(P%d[range].Node)", j) && ks != fmt.Sprintf("P%d[range].Id", j) {
						continue
					}
					// the updated map is returned …
					for _, ret := range returnsOf(g) {
						for ri, res := range ret.Results {
							if res != mu.Map {
								continue
							}
							// … and is the map this function emits from
							src := perID
							if ex, ok := src.(*ssa.Extract); ok && ex.Tuple == ssa.Value(call) && ex.Index == ri {
								filed = true
							}
							if src == ssa.Value(call) && len(ret.Results) == 1 {
								filed = true
							}
						}
					}
				}
				if filed {
					r.Analysed(w.Name(g))
				}
			}
		}
	}
	r.Check(filed, rule, "agg:"+name+":files-by-id", site, "every input result is filed under its own id (range over the whole input)", "input results are not filed under their own id")
	// (5) combination rule
	ruleAggCombination(r, rule, fn, kind, elems)
}

// ruleAggCombination: definitional shape of sum / max / mean.
func ruleAggCombination(r *Run, rule string, fn *ssa.Function, kind string, elems []ssa.Value) {
	w := r.W
	name := w.Name(fn)
	site := w.Pos(fn.Pos()) + " " + name
	key := "agg:" + name + ":rule:" + kind
	if len(elems) != 1 {
		return
	}
	f, ok := litFields(elems[0])
	if !ok || f["Score"] == nil {
		r.Und(rule, key, site, "emitted element is not a literal with a Score")
		return
	}
	score := f["Score"]
	e := NewExpr(w)
	var accPhi *ssa.Phi
	var sumHelper *ssa.Function
	e.Leaf = func(v ssa.Value) (string, bool) {
		if accPhi != nil && v == ssa.Value(accPhi) {
			return "acc", true
		}
		switch x := v.(type) {
		case *ssa.Call:
			// Σ over the id's score list computed by a package helper (sumScores(scores))
			if g := staticCallee(x.Common()); g != nil && g.Pkg == w.SPkg && len(x.Call.Args) == 1 && isSumFn(w, g) {
				if ex, ok := x.Call.Args[0].(*ssa.Extract); ok && ex.Index == 2 {
					if _, ok := ex.Tuple.(*ssa.Next); ok {
						sumHelper = g
						return "acc", true
					}
				}
			}
			if b, ok := x.Call.Value.(*ssa.Builtin); ok && b.Name() == "len" {
				// the number of scores filed under the id being emitted
				if ex, ok := x.Call.Args[0].(*ssa.Extract); ok && ex.Index == 2 {
					if _, ok := ex.Tuple.(*ssa.Next); ok {
						return "n", true
					}
				}
				return "len:" + NewCanon(w).S(x.Call.Args[0]), true
			}
		case *ssa.UnOp:
			if x.Op == token.MUL {
				if fa, ok := x.X.(*ssa.FieldAddr); ok {
					return "f:" + fieldName(fa.X.Type(), fa.Field), true
				}
				if _, ok := x.X.(*ssa.IndexAddr); ok {
					return "x", true
				}
			}
		case *ssa.Extract:
			if _, ok := x.Tuple.(*ssa.Next); ok && x.Index == 2 {
				return "v", true
			}
			if _, ok := x.Tuple.(*ssa.Lookup); ok && x.Index == 0 {
				return "old", true
			}
		case *ssa.Lookup:
			return "old", true
		case *ssa.Field:
			return "f:" + fieldName(x.X.Type(), x.Field), true
		}
		return "", false
	}
	// accumulator loops (vector kinds): float phi at a loop header with a back edge
	type acc struct {
		phi    *ssa.Phi
		init   ssa.Value
		update ssa.Value
	}
	var accs []acc
	for _, b := range fn.Blocks {
		for _, in := range b.Instrs {
			phi, ok := in.(*ssa.Phi)
			if !ok {
				break
			}
			if phi.Comment == "rangeindex" || !isFloat32(phi.Type()) {
				continue
			}
			var back, init ssa.Value
			for i, ed := range phi.Edges {
				if b.Dominates(b.Preds[i]) {
					back = ed
				} else {
					init = ed
				}
			}
			if back != nil && init != nil {
				accs = append(accs, acc{phi, init, back})
			}
		}
	}
	c := NewCanon(w)
	switch {
	case len(accs) == 1 && (kind == "sum" || kind == "mean"):
		accPhi = accs[0].phi
		upd := e.S(accs[0].update)
		init := e.S(accs[0].init)
		got := e.S(score)
		want := "acc"
		if kind == "mean" {
			want = eDiv("acc", "n")
		}
		r.Check(upd == eAdd("acc", "x") && init == "0" && got == want, rule, key, site, "score = "+want+" with acc = Σ scores of the id",
			fmt.Sprintf("accumulator %s (init %s), emitted score %s; expected acc←add(acc,x), score %s", upd, init, got, want))
	case len(accs) == 1 && kind == "max":
		// max := scores[0]; for s in scores[1:]: if s > max { max = s }
		accPhi = accs[0].phi
		loop := innermostLoop(loopsOf(fn), accPhi.Block())
		ok := false
		if loop != nil {
			rows, _ := iterationPaths(loop, func(cond ssa.Value) (string, bool) {
				bo, isBo := cond.(*ssa.BinOp)
				if !isBo {
					return "", false
				}
				l, rr := e.S(bo.X), e.S(bo.Y)
				switch {
				case l == "x" && rr == "acc" && bo.Op == token.GTR, l == "acc" && rr == "x" && bo.Op == token.LSS:
					return "GT", false
				case l == "x" && rr == "acc" && bo.Op == token.LEQ, l == "acc" && rr == "x" && bo.Op == token.GEQ:
					return "GT", true
				}
				return "", false
			})
			bad, _ := tableCheck([]string{"GT"}, rows, func(pr pathRow) string {
				if pr.P.End != EndStop || pr.P.Blocks[len(pr.P.Blocks)-1] != loop.Header {
					return "exit"
				}
				ed := pr.P.PhiEdge(accPhi)
				if ed == ssa.Value(accPhi) {
					return "keep"
				}
				if e.S(ed) == "x" {
					return "take"
				}
				return "other"
			}, func(a map[string]bool) string {
				if a["GT"] {
					return "take"
				}
				return "keep"
			})
			ok = len(bad) == 0 && e.S(score) == "acc" && e.S(accs[0].init) == "x"
		}
		r.Check(ok, rule, key, site, "score = maximum of the id's scores (take ⇔ s > max, starting from the first)", "the maximum is not computed as `if s > max { max = s }` from the first score")
	case len(accs) == 0 && (kind == "sum" || kind == "mean") && func() bool { e.S(score); return sumHelper != nil }():
		got := e.S(score)
		want := "acc"
		if kind == "mean" {
			want = eDiv("acc", "n")
		}
		r.Analysed(w.Name(sumHelper))
		r.Check(got == want, rule, key, site, "score = "+want+" with acc = "+w.Name(sumHelper)+"(scores of the id), a checked Σ",
			fmt.Sprintf("emitted score %s; expected %s", got, want))
	case len(accs) == 0 && kind == "sum":
		// text: docScores[id] += score
		ok := false
		for _, mu := range mapUpdatesOf(fn) {
			if e.S(mu.Value) == eAdd("old", "f:Score") || e.S(mu.Value) == eAdd("old", "x") {
				ok = true
			}
		}
		r.Check(ok && e.S(score) == "v", rule, key, site, "per-id map accumulates with += and the sum is emitted", "text sum is not `m[id] += score` / emitted value is "+e.S(score))
	case len(accs) == 0 && kind == "max":
		// store ⇔ ¬exists ∨ score > existing
		var sink *ssa.MapUpdate
		for _, mu := range mapUpdatesOf(fn) {
			sink = mu
		}
		ok := false
		if sink != nil {
			loop := innermostLoop(loopsOf(fn), sink.Block())
			if loop != nil {
				rows, _ := iterationPaths(loop, func(cond ssa.Value) (string, bool) {
					if ex, isEx := cond.(*ssa.Extract); isEx && ex.Index == 1 {
						if _, isL := ex.Tuple.(*ssa.Lookup); isL {
							return "EX", false
						}
					}
					if bo, isBo := cond.(*ssa.BinOp); isBo {
						l, rr := e.S(bo.X), e.S(bo.Y)
						isS := func(s string) bool { return s == "f:Score" || s == "x" }
						switch {
						case isS(l) && rr == "old" && bo.Op == token.GTR, l == "old" && isS(rr) && bo.Op == token.LSS:
							return "GT", false
						case isS(l) && rr == "old" && bo.Op == token.LEQ, l == "old" && isS(rr) && bo.Op == token.GEQ:
							return "GT", true
						}
					}
					return "", false
				})
				bad, _ := tableCheck([]string{"EX", "GT"}, rows, func(pr pathRow) string {
					if pr.P.Has(sink) {
						return "store"
					}
					return "keep"
				}, func(a map[string]bool) string {
					if !a["EX"] || a["GT"] {
						return "store"
					}
					return "keep"
				})
				ok = len(bad) == 0 && (e.S(sink.Value) == "f:Score" || e.S(sink.Value) == "x")
			}
		}
		r.Check(ok && e.S(score) == "v", rule, key, site, "store ⇔ id new ∨ score > stored; the stored maximum is emitted", "text max does not keep the maximum per id")
	case len(accs) == 0 && kind == "mean":
		got := e.S(score)
		// the accumulator record: one float field (the running sum) and one integer field (the count), whatever they are called
		sumF, cntF := "sum", "count"
		allInstrs(fn, func(in ssa.Instruction) {
			if fa, ok := in.(*ssa.FieldAddr); ok {
				if pt, ok := fa.X.Type().Underlying().(*types.Pointer); ok {
					if stt, ok := pt.Elem().Underlying().(*types.Struct); ok && stt.NumFields() == 2 {
						var fl, it string
						for i := 0; i < 2; i++ {
							if b, isB := stt.Field(i).Type().Underlying().(*types.Basic); isB {
								switch {
								case b.Info()&types.IsFloat != 0:
									fl = stt.Field(i).Name()
								case b.Info()&types.IsInteger != 0:
									it = stt.Field(i).Name()
								}
							}
						}
						if fl != "" && it != "" {
							sumF, cntF = fl, it
						}
					}
				}
			}
		})
		okExpr := got == eDiv("f:"+sumF, "f:"+cntF)
		// sum += score and count++ for every input
		sumUpd, cntUpd := false, false
		allInstrs(fn, func(in ssa.Instruction) {
			if st, ok := in.(*ssa.Store); ok {
				if fa, ok := st.Addr.(*ssa.FieldAddr); ok {
					switch fieldName(fa.X.Type(), fa.Field) {
					case sumF:
						if s := e.S(st.Val); s == eAdd("f:"+sumF, "f:Score") || s == eAdd("f:"+sumF, "x") {
							sumUpd = true
						}
					case cntF:
						if c.S(st.Val) == "("+c.S(fa)+"+c(1))" {
							cntUpd = true
						}
					}
				}
			}
		})
		r.Check(okExpr && sumUpd && cntUpd, rule, key, site, "mean = sum/count with sum += score and count++ per input", fmt.Sprintf("mean emitted as %s (sum update %v, count update %v)", got, sumUpd, cntUpd))
	default:
		r.Und(rule, key, site, fmt.Sprintf("aggregation shape not recognised (%d accumulators, kind %q)", len(accs), kind))
	}
}

// ---------------------------------------------------------------- limit / autocut

func ruleLimitAutocut(r *Run, p string) {
	w := r.W
	rule := p + ".LIMIT"
	r.Doc(rule, "limiting / autocut returns something that is not a prefix of its input, or panics on a bound")
	c := NewCanon(w)
	san := sanitizeFn(w)
	if lim := w.Fn("LimitResults"); lim != nil && san != nil {
		r.Analysed("LimitResults")
		ok := false
		for _, ret := range returnsOf(lim) {
			if sl, isSl := ret.Results[0].(*ssa.Slice); isSl && sl.X == ssa.Value(lim.Params[0]) && sl.Low == nil {
				if call, isCall := sl.High.(*ssa.Call); isCall && staticCallee(call.Common()) != nil && staticCallee(call.Common()).Origin() == nil && staticCallee(call.Common()) == san {
					if c.S(call.Call.Args[0]) == "P1" && c.S(call.Call.Args[1]) == "len(P0)" {
						ok = true
					}
				}
			}
		}
		r.Check(ok, rule, "limit:LimitResults", w.Pos(lim.Pos())+" LimitResults", "returns results[:sanitizeK(k, len(results))]", "LimitResults does not return results[:sanitizeK(k, len(results))]")
	} else {
		r.Unres(rule, "limit:LimitResults", "LimitResults / sanitizeK not found")
	}
	if ac := w.Fn("AutocutResults"); ac != nil {
		r.Analysed("AutocutResults")
		site := w.Pos(ac.Pos()) + " AutocutResults"
		var idRet, cutRet bool
		for _, ret := range returnsOf(ac) {
			v := ret.Results[0]
			if v == ssa.Value(ac.Params[0]) {
				// identity: guarded by cutoff == -1 || len == 0
				idRet = true
				continue
			}
			if sl, ok := v.(*ssa.Slice); ok && sl.X == ssa.Value(ac.Params[0]) && sl.Low == nil {
				if call, ok := sl.High.(*ssa.Call); ok && strings.HasSuffix(calleeName(call.Common()), ".Autocut") {
					// scores: make([]float32, len(results)), scores[i] = GetScore(results[i]), cutoff forwarded
					sc := call.Call.Args[0]
					mk, isMk := sc.(*ssa.MakeSlice)
					okLen := isMk && c.S(mk.Len) == "len(P0)"
					okFill := false
					if isMk {
						for _, ref := range *mk.Referrers() {
							if ia, ok := ref.(*ssa.IndexAddr); ok && isAllIndex(ia.Index) {
								for _, rr := range *ia.Referrers() {
									if st, ok := rr.(*ssa.Store); ok && strings.Contains(c.S(st.Val), "GetScore(") && strings.Contains(c.S(st.Val), "P0[range]") {
										okFill = true
									}
								}
							}
						}
					}
					cutRet = okLen && okFill && c.S(call.Call.Args[1]) == "P1"
				}
			}
		}
		// the identity branch condition
		idCond := false
		allInstrs(ac, func(in ssa.Instruction) {
			if bo, ok := in.(*ssa.BinOp); ok && bo.Op == token.EQL {
				l, rr := c.S(bo.X), c.S(bo.Y)
				if (l == "P1" && rr == "c(-1)") || (l == "len(P0)" && rr == "c(0)") {
					idCond = true
				}
			}
		})
		r.Check(idRet && idCond, rule, "limit:AutocutResults:identity", site, "cutoff == -1 ∨ empty ⇒ input returned unchanged", "the disabled / empty case does not return the input unchanged")
		r.Check(cutRet, rule, "limit:AutocutResults:prefix", site, "otherwise results[:Autocut(scores of results, cutoff)]", "the cut is not results[:Autocut(scores, cutoff)] with scores[i] = results[i].GetScore()")
	}
	if au := w.Fn("Autocut"); au != nil {
		r.Analysed("Autocut")
		// every return operand is len(param) or the index of a range over a slice made with len(param)
		bad := ""
		for _, ret := range returnsOf(au) {
			v := ret.Results[0]
			s := c.S(v)
			ok := s == "len(P0)"
			if !ok && isRangeIndex(v) {
				// range over diff, diff = make(len(P0))
				ok = rangeBoundIs(c, au, v, "len(P0)")
			}
			if ph, isPhi := v.(*ssa.Phi); !ok && isPhi {
				// counted loop for i := k; i < len(diff); i++ (k ≥ 0)
				if init, bound, isLoop := countedLoop(ph); isLoop && init >= 0 {
					ok = boundIsLenOf(c, bound, "len(P0)")
				}
				// for i := k; i <= len(diff)-1; i++
				if init, bound, isLoop := countedLoopIncl(ph); !ok && isLoop && init >= 0 {
					if sub, isSub := bound.(*ssa.BinOp); isSub && sub.Op == token.SUB && c.S(sub.Y) == "c(1)" {
						ok = boundIsLenOf(c, sub.X, "len(P0)")
					}
				}
			}
			if !ok {
				bad = s + " at " + w.InstrPos(ret)
			}
		}
		r.Check(bad == "", rule, "limit:Autocut:returns", w.Pos(au.Pos())+" Autocut", "every returned cut index is len(input) or an index of a range over a slice of that length ⇒ within [0,len]", "Autocut can return "+bad)
		// index arithmetic: every element access diff[i±k] / yValues[...] is in a region where the accessed index is provably within the slice
		// (i-1 needs i ≥ 1: guarded by the i == 0 skip)
		okSkip := false
		allInstrs(au, func(in ssa.Instruction) {
			if bo, ok := in.(*ssa.BinOp); ok && bo.Op == token.EQL && isAllIndex(bo.X) && isZeroConst(bo.Y) {
				okSkip = true
			}
			// or the traversal starts at 1: every diff[i-k] read is indexed by a counted loop variable with init ≥ 1
			if ph, ok := in.(*ssa.Phi); ok {
				init, _, isLoop := countedLoop(ph)
				if !isLoop {
					init, _, isLoop = countedLoopIncl(ph)
				}
				if isLoop && init >= 1 {
					indexes := false
					for _, ref := range *ph.Referrers() {
						if _, ok := ref.(*ssa.IndexAddr); ok {
							indexes = true
						}
					}
					if indexes {
						okSkip = true
					}
				}
			}
		})
		r.Check(okSkip, rule, "limit:Autocut:skip-first", w.Pos(au.Pos())+" Autocut", "index 0 is skipped before diff[i-1] is read", "diff[i-1] is read without skipping i == 0")
		// short inputs return early
		okShort := false
		allInstrs(au, func(in ssa.Instruction) {
			if bo, ok := in.(*ssa.BinOp); ok {
				cmp, neg, ok := normCmp(c, bo)
				if ok && !neg && cmp.Op == token.LEQ && cmp.L == "len(P0)" && cmp.R == "c(1)" {
					okShort = true
				}
			}
		})
		r.Check(okShort, rule, "limit:Autocut:short", w.Pos(au.Pos())+" Autocut", "inputs of length ≤ 1 return early (no division by len−1 = 0)", "inputs of length ≤ 1 are not returned early")
	}
}

// boundIsLenOf: bound is want, or len(x) with x a slice made with length want.
func boundIsLenOf(c *Canon, bound ssa.Value, want string) bool {
	if c.S(bound) == want {
		return true
	}
	if call, ok := bound.(*ssa.Call); ok {
		if b, ok := call.Call.Value.(*ssa.Builtin); ok && b.Name() == "len" {
			if mk, ok := call.Call.Args[0].(*ssa.MakeSlice); ok && c.S(mk.Len) == want {
				return true
			}
		}
	}
	return false
}

// rangeBoundIs: v is the induction value of a rotated range loop whose bound has canonical form want or is the len of a
// slice made with that length.
func rangeBoundIs(c *Canon, fn *ssa.Function, v ssa.Value, want string) bool {
	bo, ok := v.(*ssa.BinOp)
	if !ok {
		return false
	}
	// find the loop condition: v < bound
	for _, ref := range *bo.Referrers() {
		cmp, ok := ref.(*ssa.BinOp)
		if !ok || cmp.Op != token.LSS || cmp.X != v {
			continue
		}
		s := c.S(cmp.Y)
		if s == want {
			return true
		}
		if call, ok := cmp.Y.(*ssa.Call); ok {
			if b, ok := call.Call.Value.(*ssa.Builtin); ok && b.Name() == "len" {
				if mk, ok := call.Call.Args[0].(*ssa.MakeSlice); ok && c.S(mk.Len) == want {
					return true
				}
			}
		}
	}
	return false
}

// ---------------------------------------------------------------- fusion

func ruleFusions(r *Run, p string) {
	w := r.W
	fi := w.Iface("Fusion")
	if fi == nil {
		r.Unres(p+".KEYS", "fusion", "Fusion interface not found")
		return
	}
	r.Doc(p+".KEYS", "a fusion drops or invents ids, or combines the two scores by another rule than its kind defines")
	r.Doc(p+".RRF", "reciprocal-rank fusion ranks worst-first in some modality")
	var imm []*ssa.Function
	impls := w.Implementers(fi)
	if len(impls) != 4 {
		r.add(p+".KEYS", "fusion:floor", "-", fmt.Sprintf("%d fusion implementations, expected 4", len(impls)), Floor)
	}
	for _, T := range impls {
		fn := w.Method(T, "Combine")
		kf := w.Method(T, "Kind")
		if fn == nil || kf == nil {
			continue
		}
		imm = append(imm, fn)
		kind := ""
		for _, ret := range returnsOf(kf) {
			kind, _ = constString(ret.Results[0])
		}
		ruleOneFusion(r, p, fn, kind)
	}
	if rk := w.Fn("scoreMapToRanks"); rk != nil {
		imm = append(imm, rk)
		ruleRanks(r, p+".RRF", rk)
	}
	ruleImmutableParams(r, p+".IMM", imm, true)
}

type fusionWrite struct {
	loop  int    // 1: first range loop (vector side), 2: second (text side)
	over  string // canonical of the ranged map
	guard string // EX / GT states under which the write happens, rendered
}

func ruleOneFusion(r *Run, p string, fn *ssa.Function, kind string) {
	w := r.W
	name := w.Name(fn)
	r.Analysed(name)
	rule := p + ".KEYS"
	site := w.Pos(fn.Pos()) + " " + name
	c := NewCanon(w)
	// the returned map
	var out *ssa.MakeMap
	for _, ret := range returnsOf(fn) {
		if mm, ok := ret.Results[0].(*ssa.MakeMap); ok {
			out = mm
		}
	}
	if out == nil {
		r.Und(rule, "fusion:"+name+":out", site, "returned map is not a fresh make(map)")
		return
	}
	// range-over-map loops in source order
	type rloop struct {
		loop *Loop
		over string
		next *ssa.Next
	}
	var rls []rloop
	for _, l := range loopsOf(fn) {
		for _, in := range l.Header.Instrs {
			if nx, ok := in.(*ssa.Next); ok {
				if rg, ok := nx.Iter.(*ssa.Range); ok {
					rls = append(rls, rloop{l, c.S(rg.X), nx})
				}
			}
		}
	}
	sort.Slice(rls, func(i, j int) bool { return rls[i].loop.Header.Index < rls[j].loop.Header.Index })
	e := NewExpr(w)
	var curNext *ssa.Next
	e.Leaf = func(v ssa.Value) (string, bool) {
		switch x := v.(type) {
		case *ssa.Extract:
			if x.Tuple == ssa.Value(curNext) && x.Index == 2 {
				return "s", true
			}
			if _, ok := x.Tuple.(*ssa.Lookup); ok && x.Index == 0 {
				return "ref", true
			}
		case *ssa.Lookup:
			return "ref", true
		case *ssa.UnOp:
			if x.Op == token.MUL {
				if fa, ok := x.X.(*ssa.FieldAddr); ok {
					switch fieldName(fa.X.Type(), fa.Field) {
					case "VectorWeight":
						return "wv", true
					case "TextWeight":
						return "wt", true
					case "K":
						return "K", true
					}
				}
			}
		}
		return "", false
	}
	type tbl map[string]string // state -> outcome
	got := map[string]tbl{}
	for _, rl := range rls {
		curNext = rl.next
		side := ""
		switch {
		case rl.over == "P1" || strings.HasPrefix(rl.over, "scoreMapToRanks(P1,"):
			side = "V"
		case rl.over == "P2" || strings.HasPrefix(rl.over, "scoreMapToRanks(P2,"):
			side = "T"
		default:
			r.Und(rule, "fusion:"+name+":loop", site, "loop ranges over "+rl.over)
			continue
		}
		if kind == "reciprocal_rank" {
			wantOver := map[string]string{"V": "scoreMapToRanks(P1,c(true))", "T": "scoreMapToRanks(P2,c(false))"}[side]
			r.Check(rl.over == wantOver, p+".RRF", "rrf:"+name+":ranks:"+side, site, side+" ranks = "+wantOver+" (vector ascending = best first, text descending = best first)", side+" side ranges over "+rl.over+", expected "+wantOver)
		}
		var sinks []*ssa.MapUpdate
		for _, mu := range mapUpdatesOf(fn) {
			if mu.Map == ssa.Value(out) && rl.loop.Blocks[mu.Block()] {
				sinks = append(sinks, mu)
			}
		}
		rows, _ := iterationPaths(rl.loop, func(cond ssa.Value) (string, bool) {
			if ex, ok := cond.(*ssa.Extract); ok && ex.Index == 1 {
				if _, ok := ex.Tuple.(*ssa.Lookup); ok {
					return "EX", false
				}
			}
			if bo, ok := cond.(*ssa.BinOp); ok {
				l, rr := e.S(bo.X), e.S(bo.Y)
				switch {
				case l == "s" && rr == "ref" && bo.Op == token.GTR, l == "ref" && rr == "s" && bo.Op == token.LSS:
					return "GT", false // s > ref
				case l == "s" && rr == "ref" && bo.Op == token.LSS, l == "ref" && rr == "s" && bo.Op == token.GTR:
					return "LT", false // s < ref
				case l == "s" && rr == "ref" && bo.Op == token.LEQ, l == "ref" && rr == "s" && bo.Op == token.GEQ:
					return "GT", true
				case l == "s" && rr == "ref" && bo.Op == token.GEQ, l == "ref" && rr == "s" && bo.Op == token.LEQ:
					return "LT", true
				}
			}
			return "", false
		})
		t := tbl{}
		for _, st := range []struct{ ex, gt, lt bool }{{false, false, false}, {true, true, false}, {true, false, true}, {true, false, false}} {
			outs := map[string]bool{}
			for _, pr := range rows {
				ok := true
				for a, v := range pr.Atoms {
					want := map[string]bool{"EX": st.ex, "GT": st.gt, "LT": st.lt}[a]
					if v != want {
						ok = false
					}
				}
				if !ok {
					continue
				}
				o := "none"
				for _, mu := range sinks {
					if pr.P.Has(mu) {
						ks := c.S(mu.Key)
						if ks != c.S(rl.next)+"#1" {
							o = "badkey:" + ks
						} else {
							// the value may be chosen earlier and carried in a variable: the operand it received on this path;
							// storing back the value just looked up under the same key changes nothing
							rv := resolveOnPath(pr.P, mu.Value)
							o = e.S(rv)
							if o == "ref" {
								var lk *ssa.Lookup
								switch x := rv.(type) {
								case *ssa.Extract:
									lk, _ = x.Tuple.(*ssa.Lookup)
								case *ssa.Lookup:
									lk = x
								}
								if lk != nil && lk.X == ssa.Value(out) {
									o = "none"
								}
							}
						}
					}
				}
				outs[o] = true
			}
			key := fmt.Sprintf("EX=%v", st.ex)
			if st.ex {
				switch {
				case st.gt:
					key += ",s>ref"
				case st.lt:
					key += ",s<ref"
				default:
					key += ",s=ref"
				}
			}
			t[key] = strings.Join(sortedStrings(outs), "|")
		}
		got[side] = t
	}
	rrf := eDiv("1", eAdd("K", "s"))
	specs := map[string]map[string]tbl{
		"weighted_sum": {
			"V": {"EX=false": eMul("s", "wv"), "EX=true,s>ref": eMul("s", "wv"), "EX=true,s<ref": eMul("s", "wv"), "EX=true,s=ref": eMul("s", "wv")},
			"T": {"EX=false": eMul("s", "wt"), "EX=true,s>ref": eAdd("ref", eMul("s", "wt")), "EX=true,s<ref": eAdd("ref", eMul("s", "wt")), "EX=true,s=ref": eAdd("ref", eMul("s", "wt"))},
		},
		"reciprocal_rank": {
			"V": {"EX=false": rrf, "EX=true,s>ref": rrf, "EX=true,s<ref": rrf, "EX=true,s=ref": rrf},
			"T": {"EX=false": rrf, "EX=true,s>ref": eAdd("ref", rrf), "EX=true,s<ref": eAdd("ref", rrf), "EX=true,s=ref": eAdd("ref", rrf)},
		},
		"max": {
			"V": {"EX=false": "s", "EX=true,s>ref": "s", "EX=true,s<ref": "s", "EX=true,s=ref": "s"},
			"T": {"EX=false": "s", "EX=true,s>ref": "s", "EX=true,s<ref": "none", "EX=true,s=ref": "none|s"},
		},
		"min": {
			"V": {"EX=false": "none", "EX=true,s>ref": "ref", "EX=true,s<ref": "s", "EX=true,s=ref": "ref|s"},
		},
	}
	sp, known := specs[kind]
	if !known {
		r.Unres(rule, "fusion:"+name+":kind", "no specification table for fusion kind "+kind)
		return
	}
	var bad []string
	for side, want := range sp {
		g := got[side]
		if g == nil {
			bad = append(bad, "no loop over the "+side+" side")
			continue
		}
		for st, wo := range want {
			go_ := g[st]
			ok := go_ == wo
			if strings.Contains(wo, "|") { // tie: either alternative
				ok = false
				for _, alt := range strings.Split(wo, "|") {
					if go_ == alt {
						ok = true
					}
				}
			}
			if !ok {
				bad = append(bad, fmt.Sprintf("%s side, %s: writes %s, specification says %s", side, st, go_, wo))
			}
		}
	}
	for side := range got {
		if _, ok := sp[side]; !ok {
			// min: no writes from the text loop allowed
			for st, o := range got[side] {
				if o != "none" {
					bad = append(bad, fmt.Sprintf("%s side, %s: writes %s, specification says none", side, st, o))
				}
			}
		}
	}
	sort.Strings(bad)
	if len(bad) > 0 {
		r.Bad(rule, "fusion:"+name+":table", site, truncList(bad, 5))
	} else {
		r.Ok(rule, "fusion:"+name+":table", site, fmt.Sprintf("%s: key/value table over (id present in the other map, order of the two scores) equals the specification (%d rows)", kind, 4*len(sp)))
	}
}

// ruleRanks: the exchange sort of scoreMapToRanks orders best-first; ranks are positions.
func ruleRanks(r *Run, rule string, fn *ssa.Function) {
	w := r.W
	name := w.Name(fn)
	r.Analysed(name)
	site := w.Pos(fn.Pos()) + " " + name
	c := NewCanon(w)
	// swap stores: stores into elements of the sorted slice inside the double loop
	var swaps []*ssa.Store
	allInstrs(fn, func(in ssa.Instruction) {
		st, ok := in.(*ssa.Store)
		if !ok {
			return
		}
		if ia, ok := st.Addr.(*ssa.IndexAddr); ok {
			if _, isPhi := ia.Index.(*ssa.Phi); isPhi && !isLocalCell(st.Addr) {
				swaps = append(swaps, st)
			}
		}
	})
	if len(swaps) < 2 {
		// ordered with sort.Slice: less(i, j) decided by evaluation over (ascending, s_i ? s_j, tie-break)
		if rankBySortSlice(r, rule, fn, site) {
			return
		}
		r.Und(rule, "ranks:swap", site, "swap of two elements not found")
		return
	}
	loop := innermostLoop(loopsOf(fn), swaps[0].Block())
	if loop == nil {
		r.Und(rule, "ranks:loop", site, "inner loop not found")
		return
	}
	sym := func(v ssa.Value) string {
		s := c.S(v)
		if strings.HasSuffix(s, ".score") && strings.Contains(s, "[phi@") {
			// element i (outer index) or j (inner index): distinguish by the phi's block
			if u, ok := v.(*ssa.UnOp); ok {
				if fa, ok := u.X.(*ssa.FieldAddr); ok {
					if ia, ok := fa.X.(*ssa.IndexAddr); ok {
						if ph, ok := ia.Index.(*ssa.Phi); ok {
							if ph.Block() == loop.Header {
								return "sj"
							}
							return "si"
						}
					}
				}
			}
		}
		return ""
	}
	cmpAtom := func(l, rr string, op token.Token) string {
		switch {
		case l == "si" && rr == "sj" && op == token.GTR, l == "sj" && rr == "si" && op == token.LSS:
			return "I>J"
		case l == "si" && rr == "sj" && op == token.LSS, l == "sj" && rr == "si" && op == token.GTR:
			return "I<J"
		}
		return ""
	}
	var predCall *ssa.Call // swap predicate extracted into a pure package function
	rows, _ := iterationPaths(loop, func(cond ssa.Value) (string, bool) {
		if cond == ssa.Value(fn.Params[1]) {
			return "ASC", false
		}
		if bo, ok := cond.(*ssa.BinOp); ok {
			if a := cmpAtom(sym(bo.X), sym(bo.Y), bo.Op); a != "" {
				return a, false
			}
		}
		if call, ok := cond.(*ssa.Call); ok {
			if g := staticCallee(call.Common()); g != nil && g.Pkg == w.SPkg && (predCall == nil || predCall == call) {
				predCall = call
				return "PRED", false
			}
		}
		return "", false
	})
	if predCall != nil {
		// the loop swaps ⇔ PRED; PRED's own table over (ASC, I>J, I<J) is evaluated on the helper's body
		badP, _ := tableCheck([]string{"PRED"}, rows, func(pr pathRow) string {
			if pr.P.Has(swaps[0]) {
				return "swap"
			}
			return "keep"
		}, func(a map[string]bool) string {
			if a["PRED"] {
				return "swap"
			}
			return "keep"
		})
		g := staticCallee(predCall.Common())
		r.Analysed(w.Name(g))
		role := map[int]string{}
		for i, a := range predCall.Call.Args {
			if a == ssa.Value(fn.Params[1]) {
				role[i] = "ASC"
			} else if sy := sym(a); sy != "" {
				role[i] = sy
			}
		}
		states := 0
		for _, asc := range []bool{false, true} {
			for _, rel := range []string{"I>J", "I<J", "I=J"} {
				states++
				got, ok := evalBoolFn(g, func(v ssa.Value) (bool, bool) {
					switch x := v.(type) {
					case *ssa.Parameter:
						if role[paramIndex(x)] == "ASC" {
							return asc, true
						}
					case *ssa.BinOp:
						px, okx := x.X.(*ssa.Parameter)
						py, oky := x.Y.(*ssa.Parameter)
						if okx && oky {
							switch cmpAtom(role[paramIndex(px)], role[paramIndex(py)], x.Op) {
							case "I>J":
								return rel == "I>J", true
							case "I<J":
								return rel == "I<J", true
							}
						}
					}
					return false, false
				})
				want := (asc && rel == "I>J") || (!asc && rel == "I<J")
				if !ok {
					badP = append(badP, fmt.Sprintf("ASC=%v %s: %s is not decided by the order flag and strict comparisons of its two scores", asc, rel, w.Name(g)))
				} else if got != want {
					badP = append(badP, fmt.Sprintf("ASC=%v %s: %s answers %v, specification says %v", asc, rel, w.Name(g), got, want))
				}
			}
		}
		if len(badP) > 0 {
			r.Bad(rule, "ranks:swap-table", site, truncList(badP, 4))
		} else {
			r.Ok(rule, "ranks:swap-table", site, fmt.Sprintf("swap ⇔ %s(s_i, s_j, ascending); %d states of that predicate: true ⇔ (ascending ∧ s_i > s_j) ∨ (¬ascending ∧ s_i < s_j)", w.Name(g), states))
		}
	}
	bad, states := tableCheck([]string{"ASC", "I>J", "I<J"}, rows, func(pr pathRow) string {
		if pr.P.Has(swaps[0]) {
			return "swap"
		}
		return "keep"
	}, func(a map[string]bool) string {
		if a["I>J"] && a["I<J"] {
			return "-"
		}
		if (a["ASC"] && a["I>J"]) || (!a["ASC"] && a["I<J"]) {
			return "swap"
		}
		return "keep"
	})
	if predCall != nil {
		// decided above
	} else if len(bad) > 0 {
		r.Bad(rule, "ranks:swap-table", site, truncList(bad, 4))
	} else {
		r.Ok(rule, "ranks:swap-table", site, fmt.Sprintf("%d states: swap ⇔ (ascending ∧ s_i > s_j) ∨ (¬ascending ∧ s_i < s_j), i < j ⇒ best first", states))
	}
	// ranks[id] = position
	okRank := false
	for _, mu := range mapUpdatesOf(fn) {
		if isRangeIndex(mu.Value) && strings.HasSuffix(c.S(mu.Key), "[range].docID") {
			okRank = true
		}
		// counted loop over the sorted slice: ranks[sorted[i].docID] = i
		if ph, ok := mu.Value.(*ssa.Phi); ok && strings.HasSuffix(c.S(mu.Key), "[range].docID") {
			if fa, ok := unloadAddr(mu.Key).(*ssa.FieldAddr); ok {
				if ia, ok := fa.X.(*ssa.IndexAddr); ok && ia.Index == ssa.Value(ph) {
					okRank = true
				}
				// through a local copy of the element: ds := sorted[i]; ranks[ds.docID] = i
				if al, ok := fa.X.(*ssa.Alloc); ok && isAllIndex(ph) {
					if sv := singleStore(al); sv != nil {
						if ia, ok := unloadAddr(sv).(*ssa.IndexAddr); ok && ia.Index == ssa.Value(ph) {
							okRank = true
						}
					}
				}
			}
			// through a copy of the element: ds := sorted[i]; ranks[ds.docID] = i
			if fl, ok := mu.Key.(*ssa.Field); ok {
				if ia, ok := unloadAddr(fl.X).(*ssa.IndexAddr); ok && ia.Index == ssa.Value(ph) && isAllIndex(ph) {
					okRank = true
				}
			}
		}
	}
	r.Check(okRank, rule, "ranks:position", site, "rank of an id = its position in the sorted order", "rank is not the position of the id in the sorted order")
	// loop bounds: i in [0,len-1), j in (i, len)
	okBounds := 0
	allInstrs(fn, func(in ssa.Instruction) {
		if bo, ok := in.(*ssa.BinOp); ok && bo.Op == token.LSS {
			if ph, ok := bo.X.(*ssa.Phi); ok {
				rs := c.S(bo.Y)
				if strings.HasPrefix(rs, "(len(") && strings.HasSuffix(rs, "-c(1))") {
					for _, e := range ph.Edges {
						if isZeroConst(e) {
							okBounds++
						}
					}
				}
				if strings.HasPrefix(rs, "len(") {
					for _, e := range ph.Edges {
						if s := c.S(e); strings.HasSuffix(s, "+c(1))") && strings.HasPrefix(s, "(phi@") {
							okBounds++
							break
						}
					}
				}
			}
		}
	})
	r.Check(okBounds >= 2, rule, "ranks:bounds", site, "exchange sort compares every pair i<j", "exchange sort loop bounds do not cover every pair")
}

// isSumFn: g(xs []float32) float32 returns Σ xs: one float accumulator, init 0, update acc+x with x an element of the
// parameter ranged over completely, and the accumulator is what every return hands back.
func isSumFn(w *World, g *ssa.Function) bool {
	if len(g.Params) != 1 || g.Signature.Results().Len() != 1 || !isFloat32(g.Signature.Results().At(0).Type()) {
		return false
	}
	accs := accumulators(w, g, map[int]string{0: "x"})
	if len(accs) != 1 || accs[0].Init != "0" || accs[0].Update != eAdd("acc", "x") {
		return false
	}
	// x is the ranged element of the parameter
	c := NewCanon(w)
	ranged := false
	allInstrs(g, func(in ssa.Instruction) {
		if ia, ok := in.(*ssa.IndexAddr); ok && c.S(ia) == "P0[range]" {
			ranged = true
		}
	})
	if !ranged {
		return false
	}
	for _, ret := range returnsOf(g) {
		if ret.Results[0] != ssa.Value(accs[0].Phi) {
			return false
		}
	}
	return true
}

// rankBySortSlice: scoreMapToRanks orders its pairs with sort.Slice. For every valuation of (ascending flag, relation of
// the two scores, relation of a tie-break key): less(i,j) ⇔ (ascending ∧ s_i < s_j) ∨ (¬ascending ∧ s_i > s_j) whenever
// the scores differ. Also the rank assignment ranks[sorted[i].docID] = i.
func rankBySortSlice(r *Run, rule string, fn *ssa.Function, site string) bool {
	w := r.W
	var sortCall *ssa.Call
	for _, call := range callsIn(fn, func(cc *ssa.CallCommon) bool {
		return calleeName(cc) == "sort.Slice" || calleeName(cc) == "sort.SliceStable"
	}) {
		sortCall = call.(*ssa.Call)
	}
	if sortCall == nil {
		return false
	}
	cmp := closureArg(sortCall.Common(), 1)
	if cmp == nil {
		return false
	}
	r.Analysed(w.Name(cmp))
	mc, _ := sortCall.Call.Args[1].(*ssa.MakeClosure)
	np := len(cmp.Params)
	if np < 2 || mc == nil {
		return false
	}
	pi, pj := "P"+itoa(np-2), "P"+itoa(np-1)
	cc := NewCanon(w)
	// which free variable is the ascending flag?
	ascFV := ""
	for i, b := range mc.Bindings {
		if b == ssa.Value(fn.Params[1]) {
			ascFV = fmt.Sprintf("FV%d", i)
		}
		if a, ok := b.(*ssa.Alloc); ok {
			if sv := singleStore(a); sv == ssa.Value(fn.Params[1]) {
				ascFV = fmt.Sprintf("FV%d", i)
			}
		}
	}
	var bad []string
	states := 0
	for _, asc := range []bool{false, true} {
		for _, srel := range []int{-1, 0, 1} {
			for _, trel := range []int{-1, 1} {
				states++
				got, ok := evalBoolFn(cmp, func(v ssa.Value) (bool, bool) {
					s := cc.S(v)
					if ascFV != "" && s == ascFV {
						return asc, true
					}
					bo, isBo := v.(*ssa.BinOp)
					if !isBo {
						return false, false
					}
					l, rr := cc.S(bo.X), cc.S(bo.Y)
					rel := 0
					known := false
					orient := func(a, b string) (int, bool) {
						li, lj := strings.Contains(a, "["+pi+"]"), strings.Contains(a, "["+pj+"]")
						ri, rj := strings.Contains(b, "["+pi+"]"), strings.Contains(b, "["+pj+"]")
						switch {
						case li && !lj && rj && !ri:
							return 1, true
						case lj && !li && ri && !rj:
							return -1, true
						}
						return 0, false
					}
					o, okO := orient(l, rr)
					if !okO {
						return false, false
					}
					if strings.HasSuffix(l, ".score") && strings.HasSuffix(rr, ".score") {
						rel, known = srel*o, true
					} else {
						rel, known = trel*o, true
					}
					if !known {
						return false, false
					}
					switch bo.Op {
					case token.LSS:
						return rel < 0, true
					case token.GTR:
						return rel > 0, true
					case token.LEQ:
						return rel <= 0, true
					case token.GEQ:
						return rel >= 0, true
					case token.EQL:
						return rel == 0, true
					case token.NEQ:
						return rel != 0, true
					}
					return false, false
				})
				if !ok {
					bad = append(bad, fmt.Sprintf("ASC=%v s_i?s_j=%d: comparator not decided by the order flag and comparisons of the two elements", asc, srel))
					continue
				}
				if srel == 0 {
					continue // ties: any total order
				}
				want := (asc && srel < 0) || (!asc && srel > 0)
				if got != want {
					bad = append(bad, fmt.Sprintf("ASC=%v s_i?s_j=%d: less=%v, specification says %v", asc, srel, got, want))
				}
			}
		}
	}
	if ascFV == "" {
		bad = append(bad, "the comparator does not see the ascending flag")
	}
	if len(bad) > 0 {
		r.Bad(rule, "ranks:swap-table", site, truncList(dedup(bad), 4))
	} else {
		r.Ok(rule, "ranks:swap-table", site, fmt.Sprintf("sort.Slice comparator, %d states: less(i,j) ⇔ (ascending ∧ s_i < s_j) ∨ (¬ascending ∧ s_i > s_j) when the scores differ ⇒ best first", states))
	}
	// ranks[id] = position, assigned after the sort
	c := NewCanon(w)
	okRank := false
	for _, mu := range mapUpdatesOf(fn) {
		if (isRangeIndex(mu.Value) || isCountedIndex(mu.Value)) && strings.HasSuffix(c.S(mu.Key), "[range].docID") && domInstr(sortCall, mu) {
			okRank = true
		}
	}
	r.Check(okRank, rule, "ranks:position", site, "rank of an id = its position in the sorted order", "rank is not the position of the id in the sorted order")
	r.Ok(rule, "ranks:bounds", site, "sort.Slice orders the whole slice")
	return true
}

func isCountedIndex(v ssa.Value) bool {
	ph, ok := v.(*ssa.Phi)
	if !ok {
		return false
	}
	init, _, isLoop := countedLoop(ph)
	return isLoop && init == 0
}

// unloadAddr: the address a loaded value was read from (or v itself).
func unloadAddr(v ssa.Value) ssa.Value {
	if u, ok := v.(*ssa.UnOp); ok && u.Op == token.MUL {
		return u.X
	}
	return v
}

// evalBoolFn interprets a loop-free, effect-free boolean function under a valuation of its atoms (parameters and
// comparisons of parameters): the result is decided, or ok is false when the body does anything else.
func evalBoolFn(g *ssa.Function, val func(ssa.Value) (bool, bool)) (bool, bool) {
	if len(g.Blocks) == 0 {
		return false, false
	}
	env := map[ssa.Value]bool{}
	var eval func(v ssa.Value) (bool, bool)
	eval = func(v ssa.Value) (bool, bool) {
		if b, ok := env[v]; ok {
			return b, true
		}
		switch x := v.(type) {
		case *ssa.Const:
			if x.Value != nil && x.Value.Kind() == constant.Bool {
				return constant.BoolVal(x.Value), true
			}
		case *ssa.UnOp:
			if x.Op == token.NOT {
				b, ok := eval(x.X)
				return !b, ok
			}
		}
		return val(v)
	}
	b := g.Blocks[0]
	var prev *ssa.BasicBlock
	for steps := 0; steps < 64; steps++ {
		for _, in := range b.Instrs {
			switch x := in.(type) {
			case *ssa.Phi:
				for i, p := range b.Preds {
					if p == prev {
						if bv, ok := eval(x.Edges[i]); ok {
							env[x] = bv
						} else {
							return false, false
						}
					}
				}
			case *ssa.BinOp, *ssa.UnOp, *ssa.DebugRef, *ssa.FieldAddr, *ssa.IndexAddr, *ssa.Index, *ssa.Field, *ssa.Convert, *ssa.ChangeType, *ssa.Extract:
			case *ssa.Call:
				// only calls whose value the valuation defines (pure queries such as Contains), or pure getters
				if _, ok := val(x); !ok {
					if g := staticCallee(x.Common()); g == nil {
						return false, false
					} else if _, pure := isPureGetter(g); !pure {
						return false, false
					}
				}
			case *ssa.If:
				c, ok := eval(x.Cond)
				if !ok {
					return false, false
				}
				prev = b
				if c {
					b = b.Succs[0]
				} else {
					b = b.Succs[1]
				}
			case *ssa.Jump:
				prev = b
				b = b.Succs[0]
			case *ssa.Return:
				if len(x.Results) != 1 {
					return false, false
				}
				return eval(x.Results[0])
			default:
				return false, false // calls, stores, loads: not a pure predicate
			}
		}
	}
	return false, false
}

// ---------------------------------------------------------------- merge

func ruleMerge(r *Run, p string) {
	w := r.W
	rule := p + ".MERGE"
	r.Doc(rule, "merging store results loses ids, duplicates them, or keeps a lower score")
	fn := w.Fn("mergeResults")
	if fn == nil {
		r.Unres(rule, "merge", "mergeResults not found")
		return
	}
	r.Analysed("mergeResults")
	site := w.Pos(fn.Pos()) + " mergeResults"
	c := NewCanon(w)
	var sink *ssa.MapUpdate
	for _, mu := range mapUpdatesOf(fn) {
		sink = mu
	}
	if sink == nil {
		r.Bad(rule, "merge:table", site, "no per-id map update")
		return
	}
	loop := innermostLoop(loopsOf(fn), sink.Block())
	if loop == nil {
		r.Bad(rule, "merge:table", site, "per-id update is not in a loop over the results")
		return
	}
	newS := "P0[range].Score"
	rows, _ := iterationPaths(loop, func(cond ssa.Value) (string, bool) {
		if ex, ok := cond.(*ssa.Extract); ok && ex.Index == 1 {
			if _, ok := ex.Tuple.(*ssa.Lookup); ok {
				return "EX", false
			}
		}
		if bo, ok := cond.(*ssa.BinOp); ok {
			l, rr := c.S(bo.X), c.S(bo.Y)
			isOld := func(s string) bool { return strings.Contains(s, "[P0[range].ID]") }
			switch {
			case l == newS && isOld(rr) && bo.Op == token.GTR, isOld(l) && rr == newS && bo.Op == token.LSS:
				return "GT", false
			case l == newS && isOld(rr) && bo.Op == token.LEQ, isOld(l) && rr == newS && bo.Op == token.GEQ:
				return "GT", true
			}
		}
		return "", false
	})
	// every update of the per-id map in that loop (first sighting and replacement may be two statements)
	var sinks []*ssa.MapUpdate
	for _, mu := range mapUpdatesOf(fn) {
		if mu.Map == sink.Map && loop.Blocks[mu.Block()] {
			sinks = append(sinks, mu)
		}
	}
	bad, states := tableCheck([]string{"EX", "GT"}, rows, func(pr pathRow) string {
		for _, sk := range sinks {
			if pr.P.Has(sk) {
				return "store"
			}
		}
		return "keep"
	}, func(a map[string]bool) string {
		if !a["EX"] || a["GT"] {
			return "store"
		}
		return "keep"
	})
	okVal := len(sinks) > 0
	for _, sk := range sinks {
		if c.S(sk.Key) != "P0[range].ID" || c.S(sk.Value) != newS {
			okVal = false
		}
	}
	if len(bad) > 0 || !okVal {
		r.Bad(rule, "merge:table", w.InstrPos(sink)+" mergeResults", truncList(bad, 4)+fmt.Sprintf(" key=%s value=%s", c.S(sink.Key), c.S(sink.Value)))
	} else {
		r.Ok(rule, "merge:table", w.InstrPos(sink)+" mergeResults", fmt.Sprintf("%d states: store ⇔ id new ∨ score > stored; scoreMap[id] = score", states))
	}
	// output: one element per key of the score map, (id, score) = (key, value)
	okOut := false
	allInstrs(fn, func(in ssa.Instruction) {
		if call, ok := isBuiltinCall(in, "append"); ok {
			elems, _ := appendedElems(call)
			if len(elems) == 1 {
				if f, ok := litFields(elems[0]); ok && f["ID"] != nil && f["Score"] != nil {
					ids, sc := c.S(f["ID"]), c.S(f["Score"])
					if strings.HasSuffix(ids, ")#1") && strings.HasSuffix(sc, ")#2") && strings.TrimSuffix(ids, "#1") == strings.TrimSuffix(sc, "#2") && strings.Contains(ids, "next(range(") {
						okOut = true
					}
				}
			}
		}
	})
	r.Check(okOut, rule, "merge:output", site, "one output per key of the score map with that key's score", "merged output is not built one-per-key from the score map")
	if sr := w.Fn("sortResultsByScore"); sr != nil {
		r.Analysed("sortResultsByScore")
		for _, call := range callsIn(sr, func(cc *ssa.CallCommon) bool { return isSortCall(cc) }) {
			// sort.Slice with a less literal, or slices.SortFunc with a three-way comparator (decided by evaluation)
			d, f, why := sortDirection(w, call.Common())
			if d == "" {
				r.Und(rule, "merge:sort", w.InstrPos(call)+" sortResultsByScore", why)
				continue
			}
			r.Check(d == "desc" && strings.HasSuffix(f, ".Score"), rule, "merge:sort", w.InstrPos(call)+" sortResultsByScore", "descending by Score", "comparator is "+d+" on "+f)
		}
	}
}

// ---------------------------------------------------------------- kind factories

func ruleKindFactories(r *Run, p string) {
	w := r.W
	rule := p + ".KIND"
	r.Doc(rule, "a kind constant selects an implementation of another kind, or an unknown kind is accepted")
	for _, f := range []struct{ fn, typ string }{{"NewVectorAggregation", "ScoreAggregationKind"}, {"NewTextAggregation", "ScoreAggregationKind"}, {"NewFusion", "FusionKind"}} {
		fn := w.Fn(f.fn)
		if fn == nil {
			r.Unres(rule, "factory:"+f.fn, "not found")
			continue
		}
		r.Analysed(f.fn)
		kinds := declaredConsts(w, f.typ)
		domain := sortedKeys(kinds)
		reach := constReach(fn, func(v ssa.Value) bool { return v == ssa.Value(fn.Params[0]) }, domain)
		got := map[string][]string{}
		for _, ret := range returnsOf(fn) {
			res := "error"
			if classifyErr(ret) == ErrNil {
				res = "?"
				v := resultValue(ret, 0)
				if mi, ok := v.(*ssa.MakeInterface); ok {
					if kf := w.Method(mi.X.Type(), "Kind"); kf != nil {
						for _, kr := range returnsOf(kf) {
							res, _ = constString(kr.Results[0])
						}
					}
				}
			}
			for k := range reach[ret.Block()] {
				got[k] = append(got[k], res)
			}
		}
		var bad []string
		for _, k := range domain {
			g := dedup(got[k])
			// the kind's own implementation on some path, no other implementation on any; an error for this kind is the
			// rejection of its other arguments (an invalid configuration), not a wrong dispatch
			own, foreign := false, false
			for _, x := range g {
				switch x {
				case k:
					own = true
				case "error":
				default:
					foreign = true
				}
			}
			if !own || foreign {
				bad = append(bad, fmt.Sprintf("%q → implementation of kind %v", k, g))
			}
		}
		if g := dedup(got[otherVal]); len(g) != 1 || g[0] != "error" {
			bad = append(bad, fmt.Sprintf("unknown kinds → %v, expected an error", g))
		}
		site := w.Pos(fn.Pos()) + " " + f.fn
		if len(bad) > 0 {
			r.Bad(rule, "factory:"+f.fn, site, strings.Join(bad, "; "))
		} else {
			r.Ok(rule, "factory:"+f.fn, site, fmt.Sprintf("each of %v selects the implementation whose Kind() is that constant; anything else ⇒ error", domain))
		}
	}
}

// ruleFusionDefaults: every call of DefaultFusionConfig hands out a fresh object holding the documented defaults
// (vector weight 1, text weight 1, K 60). A shared object would let one caller's customisation change the default fusion
// and every fusion built with a nil configuration.
func ruleFusionDefaults(r *Run, rule string) {
	w := r.W
	r.Doc(rule, "the default fusion parameters are shared mutable state or differ from the documented 1 / 1 / 60")
	fn := w.Fn("DefaultFusionConfig")
	if fn == nil {
		r.Unres(rule, "fusion:defaults", "DefaultFusionConfig not found")
		return
	}
	r.Analysed("DefaultFusionConfig")
	site := w.Pos(fn.Pos()) + " DefaultFusionConfig"
	fresh := true
	var lit ssa.Value
	for _, ret := range returnsOf(fn) {
		a, ok := ret.Results[0].(*ssa.Alloc)
		if !ok || !a.Heap {
			fresh = false
			continue
		}
		lit = a
	}
	r.Check(fresh && lit != nil, rule, "fusion:defaults:fresh", site, "a new configuration object is allocated by every call", "the returned configuration is not allocated by the call (shared object: customising it changes the defaults of every other user)")
	if lit != nil {
		want := map[string]string{"VectorWeight": "1", "TextWeight": "1", "K": "60"}
		if f, ok := litFields(lit); ok {
			var bad []string
			for name, v := range want {
				got := "unset"
				if fv := f[name]; fv != nil {
					if k, isC := fv.(*ssa.Const); isC && k.Value != nil {
						fl, _ := constant.Float64Val(k.Value)
						got = fmt.Sprint(fl)
					} else {
						got = "non-constant"
					}
				}
				if got != v {
					bad = append(bad, name+"="+got+" (documented "+v+")")
				}
			}
			sort.Strings(bad)
			r.Check(len(bad) == 0, rule, "fusion:defaults:values", site, "defaults are VectorWeight 1, TextWeight 1, K 60", strings.Join(bad, ", "))
		} else {
			r.Und(rule, "fusion:defaults:values", site, "default configuration is not a composite literal")
		}
	}
}

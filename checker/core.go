package main

// core.go — loading /repo, SSA construction, function lookup, coverage assertions.

import (
	"fmt"
	"go/ast"
	"go/token"
	"go/types"
	"os"
	"path/filepath"
	"sort"
	"strings"

	"golang.org/x/tools/go/callgraph"
	"golang.org/x/tools/go/callgraph/cha"
	"golang.org/x/tools/go/callgraph/vta"
	"golang.org/x/tools/go/packages"
	"golang.org/x/tools/go/ssa"
	"golang.org/x/tools/go/ssa/ssautil"
)

const cometPath = "github.com/wizenheimer/comet"

// World is the resolved program the rules run on.
type World struct {
	Repo  string
	Tags  string
	Pkg   *packages.Package
	Fset  *token.FileSet
	Info  *types.Info
	Types *types.Package
	Prog  *ssa.Program
	SPkg  *ssa.Package

	Funcs  []*ssa.Function          // every source function of the comet package (incl. closures)
	byName map[string]*ssa.Function // RelString name -> function
	// RoleNotes lists the unexported helpers found under another name than the pinned tree's (roles.go)
	RoleNotes []string
	astDecl   map[string]*ast.FuncDecl // RelString name -> declaration
	files     int

	cg *callgraph.Graph // lazily built VTA graph
}

// Load parses, type-checks and builds SSA for the comet package in repo.
// Any parse/type error, a wrong package count or a file-count mismatch is fatal:
// a static tool sees only what was parsed.
func Load(repo, tags string) (*World, error) {
	w, err := loadWith(repo, tags, nil)
	if err != nil || os.Getenv("COMETLINT_NO_NORMALIZE") != "" || len(funcInventory) == 0 {
		return w, err
	}
	// inlining normal form (normalize.go): helpers unknown to the pinned tree and not recognised as renamed ones
	renamed := map[string]bool{}
	for fn := range fnAlias {
		renamed[fn.RelString(w.Types)] = true
		renamed[unaliasTypes(fn.RelString(w.Types))] = true
	}
	// a known method turned into a plain function of the same name (or the reverse) is still the known routine: the rules
	// find such routines by role (storeKindOf, hnswFn, …), the inliner must leave them in place
	byShort := map[string][]string{}
	for k := range funcInventory {
		short := k
		if i := strings.LastIndex(k, ")."); i >= 0 {
			short = k[i+2:]
		}
		byShort[short] = append(byShort[short], k)
	}
	known := func(key string) bool {
		if _, ok := funcInventory[unaliasTypes(key)]; ok || renamed[key] || renamed[unaliasTypes(key)] {
			return true
		}
		short, isMethod := key, false
		if i := strings.LastIndex(key, ")."); i >= 0 {
			short, isMethod = key[i+2:], true
		}
		// only for the routines whose role discovery accepts either form (storeKindOf, hnswFn); any other helper that
		// changed its receiver is taken apart by the inliner like a new helper
		if cands := byShort[short]; len(cands) == 1 && roleAcceptsEitherForm[short] {
			candIsMethod := strings.Contains(cands[0], ").")
			return candIsMethod != isMethod
		}
		return false
	}
	overlay, notes, nerr := normalizeHelpers(repo, tags, os.Getenv("PATH"), known)
	if nerr != nil || len(overlay) == 0 {
		if nerr != nil {
			w.RoleNotes = append(w.RoleNotes, "normalisation skipped: "+nerr.Error())
		}
		return w, nil
	}
	for k := range fnAlias {
		delete(fnAlias, k)
	}
	for k := range fieldAlias {
		delete(fieldAlias, k)
	}
	for k := range kindCacheReset {
		kindCacheReset[k]()
	}
	w2, err := loadWith(repo, tags, overlay)
	if err != nil {
		// the overlay must never make a loadable tree unloadable: fall back to the files as they are
		w.RoleNotes = append(w.RoleNotes, "normalisation discarded: "+err.Error())
		return loadWith(repo, tags, nil)
	}
	w2.RoleNotes = append(w2.RoleNotes, notes...)
	w2.RoleNotes = append(w2.RoleNotes, "positions below refer to the source after these inlinings")
	return w2, nil
}

// roleAcceptsEitherForm: routines found by structural role whether they are methods or plain functions.
var roleAcceptsEitherForm = map[string]bool{"writeIndexToSegment": true, "flushMemtable": true, "selectNeighbors": true}

// kindCacheReset lets caches keyed by *World drop entries of a discarded load.
var kindCacheReset = map[string]func(){}

func loadWith(repo, tags string, overlay map[string][]byte) (*World, error) {
	// go/packages shells out to the first `go` on PATH; the default /usr/bin/go (1.23.5) refuses
	// comet's `go 1.24.2` under GOTOOLCHAIN=local, so the pre-installed 1.26.8 is put first.
	path := os.Getenv("PATH")
	if _, err := os.Stat("/opt/veriftools/go1.26.8/bin/go"); err == nil {
		path = "/opt/veriftools/go1.26.8/bin:" + path
		os.Setenv("PATH", path) // exec.LookPath of the driver uses this process's PATH
	}
	cfg := &packages.Config{
		Mode: packages.LoadAllSyntax,
		Dir:  repo,
		Env:  append(os.Environ(), "PATH="+path, "GOWORK=off", "GOFLAGS=-mod=mod", "GOPROXY=off", "GOSUMDB=off", "GOTOOLCHAIN=local"),
	}
	if overlay != nil {
		cfg.Overlay = overlay
	}
	if tags != "" {
		cfg.BuildFlags = []string{"-tags=" + tags}
	}
	pkgs, err := packages.Load(cfg, ".")
	if err != nil {
		return nil, fmt.Errorf("load: %w", err)
	}
	if len(pkgs) != 1 {
		return nil, fmt.Errorf("load: expected exactly one root package, got %d", len(pkgs))
	}
	p := pkgs[0]
	if p.PkgPath != cometPath {
		return nil, fmt.Errorf("load: root package is %q, want %q", p.PkgPath, cometPath)
	}
	var errs []string
	packages.Visit(pkgs, nil, func(q *packages.Package) {
		for _, e := range q.Errors {
			errs = append(errs, e.Error())
		}
	})
	if len(errs) > 0 {
		return nil, fmt.Errorf("load: %d parse/type errors, first: %s", len(errs), errs[0])
	}
	// coverage: every non-test .go file in the directory whose build constraints are satisfied must be loaded
	onDisk, _ := filepath.Glob(filepath.Join(repo, "*.go"))
	n := 0
	for _, f := range onDisk {
		if !strings.HasSuffix(f, "_test.go") {
			n++
		}
	}
	loaded := len(p.CompiledGoFiles)
	ignored := len(p.IgnoredFiles)
	if loaded+ignored < n {
		return nil, fmt.Errorf("load: %d non-test files on disk but only %d loaded (+%d ignored by build constraints)", n, loaded, ignored)
	}

	prog, spkgs := ssautil.AllPackages(pkgs, ssa.InstantiateGenerics)
	prog.Build()
	w := &World{
		Repo: repo, Tags: tags, Pkg: p, Fset: p.Fset, Info: p.TypesInfo, Types: p.Types,
		Prog: prog, SPkg: spkgs[0], byName: map[string]*ssa.Function{}, astDecl: map[string]*ast.FuncDecl{},
		files: loaded,
	}
	if w.SPkg == nil {
		return nil, fmt.Errorf("load: no SSA package")
	}
	typeNotes := resolveTypeAliases(p.Types)
	for fn := range ssautil.AllFunctions(prog) {
		if fn.Pkg != w.SPkg || fn.Synthetic != "" && fn.Syntax() == nil {
			continue
		}
		if fn.Blocks == nil {
			continue
		}
		w.Funcs = append(w.Funcs, fn)
		w.byName[unaliasTypes(fn.RelString(w.Types))] = fn
	}
	sort.Slice(w.Funcs, func(i, j int) bool {
		return unaliasTypes(w.Funcs[i].RelString(w.Types)) < unaliasTypes(w.Funcs[j].RelString(w.Types))
	})
	for _, f := range p.Syntax {
		for _, d := range f.Decls {
			fd, ok := d.(*ast.FuncDecl)
			if !ok {
				continue
			}
			if obj, ok := p.TypesInfo.Defs[fd.Name].(*types.Func); ok {
				if sf := prog.FuncValue(obj); sf != nil {
					w.astDecl[unaliasTypes(sf.RelString(w.Types))] = fd
				}
			}
		}
	}
	if len(w.Funcs) < 300 {
		return nil, fmt.Errorf("load: only %d source functions found (expected > 300)", len(w.Funcs))
	}
	w.RoleNotes = append(append(typeNotes, w.resolveRoles()...), w.resolveFieldAliases()...)
	foldInfo = w.Info
	return w, nil
}

// Fn returns the function with the given package-relative name, e.g. "(*FlatIndex).Add",
// "sanitizeK", "(*FlatIndex).WriteTo$1"; nil if absent.
func (w *World) Fn(name string) *ssa.Function { return w.byName[name] }

// Decl returns the AST declaration of a named (non-closure) function.
func (w *World) Decl(name string) *ast.FuncDecl { return w.astDecl[name] }

func (w *World) Name(fn *ssa.Function) string {
	if fn == nil {
		return "<nil>"
	}
	if a, ok := fnAlias[fn]; ok {
		return a
	}
	// closures of a renamed function keep the alias as prefix
	top := fn
	for top.Parent() != nil {
		top = top.Parent()
	}
	if a, ok := fnAlias[top]; ok && top != fn {
		return a + strings.TrimPrefix(unaliasTypes(fn.RelString(w.Types)), unaliasTypes(top.RelString(w.Types)))
	}
	return unaliasTypes(fn.RelString(w.Types))
}

// Pos renders a position relative to the repository root.
func (w *World) Pos(p token.Pos) string {
	if !p.IsValid() {
		return "-"
	}
	q := w.Fset.Position(p)
	rel, err := filepath.Rel(w.Repo, q.Filename)
	if err != nil {
		rel = q.Filename
	}
	return fmt.Sprintf("%s:%d", rel, q.Line)
}

// InstrPos finds the best position for an instruction (some have NoPos).
func (w *World) InstrPos(in ssa.Instruction) string {
	if in == nil {
		return "-"
	}
	if in.Pos().IsValid() {
		return w.Pos(in.Pos())
	}
	// fall back to the nearest positioned instruction in the block, then the function
	b := in.Block()
	if b != nil {
		for _, x := range b.Instrs {
			if x.Pos().IsValid() {
				return w.Pos(x.Pos())
			}
		}
		if b.Parent() != nil {
			return w.Pos(b.Parent().Pos())
		}
	}
	return "-"
}

// Methods returns the concrete methods named m of every comet named type whose
// pointer or value method set contains m and that implements iface (iface may be nil).
func (w *World) Implementers(iface *types.Interface) []types.Type {
	var out []types.Type
	scope := w.Types.Scope()
	names := scope.Names()
	for _, n := range names {
		tn, ok := scope.Lookup(n).(*types.TypeName)
		if !ok || tn.IsAlias() {
			continue
		}
		T := tn.Type()
		if types.IsInterface(T) {
			continue
		}
		if types.Implements(T, iface) {
			out = append(out, T)
		} else if types.Implements(types.NewPointer(T), iface) {
			out = append(out, types.NewPointer(T))
		}
	}
	return out
}

// Iface looks up a comet interface type by name.
func (w *World) Iface(name string) *types.Interface {
	o := w.Types.Scope().Lookup(name)
	if o == nil {
		return nil
	}
	i, _ := o.Type().Underlying().(*types.Interface)
	return i
}

// Method returns the SSA function for method m of type T (T may be pointer).
func (w *World) Method(T types.Type, m string) *ssa.Function {
	ms := w.Prog.MethodSets.MethodSet(T)
	for i := 0; i < ms.Len(); i++ {
		if ms.At(i).Obj().Name() == m {
			return w.Prog.MethodValue(ms.At(i))
		}
	}
	// a known method that became a plain function taking the receiver first (roles.go)
	for _, key := range []string{"(" + tstr(T, qual) + ")." + m, "(*" + tstr(T, qual) + ")." + m, "(" + strings.TrimPrefix(tstr(T, qual), "*") + ")." + m} {
		if fn := w.byName[unaliasTypes(key)]; fn != nil && fn.Signature.Recv() == nil {
			return fn
		}
	}
	return nil
}

// CallGraph builds (once) the whole-program VTA call graph.
func (w *World) CallGraph() *callgraph.Graph {
	if w.cg == nil {
		all := ssautil.AllFunctions(w.Prog)
		w.cg = vta.CallGraph(all, cha.CallGraph(w.Prog))
	}
	return w.cg
}

// Struct returns the struct type of a named comet type.
func (w *World) Struct(name string) (*types.Named, *types.Struct) {
	o := w.Types.Scope().Lookup(name)
	if o == nil {
		return nil, nil
	}
	n, _ := o.Type().(*types.Named)
	if n == nil {
		return nil, nil
	}
	s, _ := n.Underlying().(*types.Struct)
	return n, s
}

package main

// rules_builder.go — BLD: the search builders hand every parameter on, unconditionally.

import (
	"fmt"
	"go/token"
	"go/types"
	"sort"
	"strings"

	"golang.org/x/tools/go/ssa"
)

// ruleBuilders: for every With* method of the builder type T
//   - every return hands back the receiver (the chain continues on the same object);
//   - a store of a parameter into a receiver field happens on every path (an option silently ignored for some argument
//     values — WithK(0) keeping the previous k — changes what the search computes);
//   - no two setters store their parameter into the same field.
//
// A setter that stores nothing (WithNProbes on a kind without probes) or stores a derived value (WithFusionKind) is not
// constrained by the second clause.
func ruleBuilders(r *Run, rule string, T types.Type) int {
	w := r.W
	r.Doc(rule, "a search option is dropped or overwritten by the builder: the search runs with other parameters than requested")
	tn := namedTypeName(T)
	n := 0
	fieldOf := map[string]string{} // field -> setter storing its parameter there
	var names []string
	byName := map[string]*ssa.Function{}
	for _, fn := range w.Funcs {
		if fn.Signature.Recv() == nil || !types.Identical(fn.Signature.Recv().Type(), T) || !strings.HasPrefix(fn.Name(), "With") || fn.Parent() != nil {
			continue
		}
		names = append(names, fn.Name())
		byName[fn.Name()] = fn
	}
	sort.Strings(names)
	for _, m := range names {
		fn := byName[m]
		name := w.Name(fn)
		r.Analysed(name)
		n++
		c := NewCanon(w)
		site := w.Pos(fn.Pos()) + " " + name
		// returns the receiver
		okRet := true
		for _, ret := range returnsOf(fn) {
			if len(ret.Results) != 1 || c.S(ret.Results[0]) != "P0" {
				okRet = false
			}
		}
		r.Check(okRet, rule, "builder:"+tn+"."+m+":returns-self", site, "the builder method returns its receiver", "the builder method does not return its receiver on every path")
		// stores of a parameter into a receiver field
		var stores []*ssa.Store
		allInstrs(fn, func(in ssa.Instruction) {
			st, ok := in.(*ssa.Store)
			if !ok {
				return
			}
			fa, ok := st.Addr.(*ssa.FieldAddr)
			if !ok || (c.S(fa.X) != "P0" && !strings.HasPrefix(c.S(fa.X), "&P0.") && !strings.HasPrefix(c.S(fa.X), "P0.")) {
				return // (fields promoted from an embedded struct are reached through it)
			}
			if p, ok := st.Val.(*ssa.Parameter); ok && paramIndex(p) >= 1 {
				stores = append(stores, st)
			}
			// the parameter after an adjustment (`if n > max { n = max }`): a join one of whose operands is the parameter
			if ph, ok := st.Val.(*ssa.Phi); ok {
				for _, e := range ph.Edges {
					if p, ok := e.(*ssa.Parameter); ok && paramIndex(p) >= 1 {
						stores = append(stores, st)
						break
					}
				}
			}
		})
		if len(stores) == 0 {
			// a setter that stores nothing drops its option. The pinned tree has a few that do so on purpose (options that
			// do not apply to the kind); any other one must hand its parameter on somewhere: into a field (possibly after a
			// conversion, as WithFusionKind does) or to another setter
			if fn.Signature.Params().Len() > 0 && !noopSetters[tn+"."+m] {
				handsOn := false
				allInstrs(fn, func(in ssa.Instruction) {
					switch x := in.(type) {
					case *ssa.Store:
						if fa, ok := x.Addr.(*ssa.FieldAddr); ok && (c.S(fa.X) == "P0" || strings.HasPrefix(c.S(fa.X), "P0.") || strings.HasPrefix(c.S(fa.X), "&P0.")) {
							handsOn = true
						}
					case *ssa.Call:
						for _, a := range x.Call.Args {
							if p, ok := a.(*ssa.Parameter); ok && paramIndex(p) >= 1 {
								handsOn = true
							}
						}
					}
				})
				r.Check(handsOn, rule, "builder:"+tn+"."+m+":keeps", site, "the setter records its option", "the setter neither stores its parameter nor hands it on: the option is silently dropped")
			}
			continue
		}
		for _, st := range stores {
			f := fieldName(st.Addr.(*ssa.FieldAddr).X.Type(), st.Addr.(*ssa.FieldAddr).Field)
			key := "builder:" + tn + "." + m + ":stores:" + f
			esc := reachAvoid(fn, nil, func(in ssa.Instruction) bool { _, ok := in.(*ssa.Return); return ok }, func(in ssa.Instruction) bool { return in == ssa.Instruction(st) })
			if esc != nil && skippedOnlyForNil(fn, st) {
				r.Ok(rule, key, w.InstrPos(st)+" "+name, "the parameter is stored into "+f+" on every path except for a nil argument, which is refused (the previous setting stays)")
			} else if esc != nil {
				r.Bad(rule, key, w.InstrPos(st)+" "+name, fmt.Sprintf("the parameter reaches field %s only on some paths: for other argument values the option is silently ignored and the previous setting stays", f))
			} else {
				r.Ok(rule, key, w.InstrPos(st)+" "+name, "the parameter is stored into "+f+" on every path")
			}
			if other, dup := fieldOf[f]; dup && other != m {
				r.Bad(rule, "builder:"+tn+"."+m+":field-shared:"+f, w.InstrPos(st)+" "+name, "stores its parameter into "+f+", the field "+other+" also sets")
			}
			fieldOf[f] = m
		}
	}
	return n
}

// builderTypes: the concrete types behind the four search interfaces.
func builderTypes(w *World, ifaces ...string) []types.Type {
	var out []types.Type
	seen := map[string]bool{}
	for _, in := range ifaces {
		it := w.Iface(in)
		if it == nil {
			continue
		}
		for _, T := range w.Implementers(it) {
			k := tstr(T, nil)
			if !seen[k] {
				seen[k] = true
				out = append(out, T)
			}
		}
	}
	return out
}

// skippedOnlyForNil: every path from the entry to a return that does not execute st decided "the stored parameter is nil".
func skippedOnlyForNil(fn *ssa.Function, st *ssa.Store) bool {
	p, ok := st.Val.(*ssa.Parameter)
	if !ok {
		return false
	}
	paths, trunc := enumPaths(fn.Blocks[0], walkCfg{MaxVisits: 1, MaxPaths: 200})
	if trunc {
		return false
	}
	for _, pth := range paths {
		if pth.End != EndReturn || pth.Has(st) {
			continue
		}
		nilDecided := false
		for _, d := range pth.Decisions {
			cond, neg := stripNot(d.Cond)
			bo, ok := cond.(*ssa.BinOp)
			if !ok || (bo.Op != token.EQL && bo.Op != token.NEQ) {
				continue
			}
			isNil := func(y ssa.Value) bool { k, ok := y.(*ssa.Const); return ok && k.Value == nil }
			// the parameter may have been converted to an interface for the comparison
			same := func(v ssa.Value) bool {
				for {
					switch x := v.(type) {
					case *ssa.MakeInterface:
						v = x.X
						continue
					case *ssa.ChangeInterface:
						v = x.X
						continue
					}
					break
				}
				return v == ssa.Value(p)
			}
			if !((same(bo.X) && isNil(bo.Y)) || (same(bo.Y) && isNil(bo.X))) {
				continue
			}
			eqTrue := d.Taken != neg
			if bo.Op == token.NEQ {
				eqTrue = !eqTrue
			}
			if eqTrue {
				nilDecided = true
			}
		}
		if !nilDecided {
			return false
		}
	}
	return true
}

// noopSetters: options the pinned tree ignores on purpose for a kind (confirmed by reading: the option has no meaning there).
var noopSetters = map[string]bool{
	"flatIndexSearch.WithEfSearch":  true, // exhaustive scan: no beam
	"flatIndexSearch.WithNProbes":   true, // no clusters
	"hnswIndexSearch.WithNProbes":   true, // no clusters
	"ivfIndexSearch.WithEfSearch":   true, // no graph
	"ivfpqIndexSearch.WithEfSearch": true, // no graph
	"pqIndexSearch.WithEfSearch":    true, // no graph
	"pqIndexSearch.WithNProbes":     true, // no clusters
}

package main

// fmt_engine.go — serialisation grammar extraction (engine FMT, DESIGN 3.6).
// From each WriteTo the token tree in program order; from each ReadFrom the dual tree.
// AST + go/types: the structure (sequence, loops, conditionals) is what must agree.

import (
	"fmt"
	"go/ast"
	"go/constant"
	"go/token"
	"go/types"
	"sort"
	"strconv"
	"strings"
)

type fTok struct {
	Kind  string // FIELD, RAW, LOOP, COND, SUB
	Width string // FIELD: element type; RAW: "" (length in Len)
	Len   string // RAW: length name / constant; FIELD: name this token defines as a length (writer: E of uint32(len(E)); reader: variable)
	Arg   string // source expression (writer: value written; reader: destination)
	Body  []*fTok
	Else  []*fTok
	Cond  string
	Pos   token.Pos
	Slice bool // FIELD of a slice type (variable length payload written in one call)
	// CountLen is the length name as spelled where the transfer happens (inside an inlined helper the parameter name);
	// the byte-count rule looks for it next to the call
	CountLen string
	Whole    bool // LOOP: the bound is len(X) / range X of a container, so every element is visited
}

type fmtSide struct {
	W           *World
	BoundKey    map[string]string // printed loop bound -> the same expression with local variables replaced by their types
	Decl        *ast.FuncDecl
	Writer      bool
	Sites       []token.Pos                   // call sites (in Decl) of inlined package functions
	MakesByExpr map[string]string             // printed lhs of `lhs = make(T, n)` -> n
	RecvName    string                        // receiver identifier (idx / ix)
	IOParam     types.Object                  // the io.Writer / io.Reader parameter
	IOAlias     map[types.Object]bool         // locals that alias it
	Helper      types.Object                  // local closure wrapping binary.Write / binary.Read
	HelperFn    *ast.FuncLit                  //
	Makes       map[types.Object]string       // reader: buf -> length expression of make([]byte, n)
	Defs        map[types.Object]ast.Expr     // x := expr (single definition)
	Closures    map[types.Object]*ast.FuncLit // local closures other than the codec helper (inlined at their call sites)
	Roots       []ast.Node                    // bodies that belong to this side (the declaration and every inlined function)
	depth       int
	Toks        []*fTok
	Calls       []*ast.CallExpr // every stream call (for FMT4 / FMT6)
	Problems    []string
}

// foldInfo is the type information of the tree being analysed (set by Load): exprStr spells named constants by their
// values, so that `[]byte(flatMagic)` and `[]byte("FLAT")`, `uint32(len(flatMagic))` and `4` are one spelling.
var foldInfo *types.Info

func exprStr(e ast.Expr) string {
	if foldInfo != nil && e != nil {
		e = foldConsts(foldInfo, e)
	}
	return types.ExprString(e)
}

func mentionsNamedConst(info *types.Info, e ast.Expr) bool {
	found := false
	ast.Inspect(e, func(n ast.Node) bool {
		if id, ok := n.(*ast.Ident); ok {
			if c, ok := info.Uses[id].(*types.Const); ok && c.Pkg() != nil {
				found = true
			}
		}
		return !found
	})
	return found
}

// foldConsts returns e with every maximal constant subexpression that mentions a named constant replaced by its value.
func foldConsts(info *types.Info, e ast.Expr) ast.Expr {
	if e == nil {
		return nil
	}
	if tv, ok := info.Types[e]; ok && tv.Value != nil && !tv.IsType() {
		if _, isLit := e.(*ast.BasicLit); !isLit && mentionsNamedConst(info, e) {
			switch tv.Value.Kind() {
			case constant.String:
				return &ast.BasicLit{Kind: token.STRING, Value: strconv.Quote(constant.StringVal(tv.Value)), ValuePos: e.Pos()}
			case constant.Int:
				return &ast.BasicLit{Kind: token.INT, Value: tv.Value.ExactString(), ValuePos: e.Pos()}
			}
		}
		return e
	}
	if !mentionsNamedConst(info, e) {
		return e
	}
	switch x := e.(type) {
	case *ast.ParenExpr:
		c := *x
		c.X = foldConsts(info, x.X)
		return &c
	case *ast.CallExpr:
		c := *x
		c.Args = make([]ast.Expr, len(x.Args))
		for i, a := range x.Args {
			c.Args[i] = foldConsts(info, a)
		}
		return &c
	case *ast.BinaryExpr:
		c := *x
		c.X, c.Y = foldConsts(info, x.X), foldConsts(info, x.Y)
		return &c
	case *ast.UnaryExpr:
		c := *x
		c.X = foldConsts(info, x.X)
		return &c
	case *ast.StarExpr:
		c := *x
		c.X = foldConsts(info, x.X)
		return &c
	case *ast.SelectorExpr:
		c := *x
		c.X = foldConsts(info, x.X)
		return &c
	case *ast.IndexExpr:
		c := *x
		c.X, c.Index = foldConsts(info, x.X), foldConsts(info, x.Index)
		return &c
	case *ast.SliceExpr:
		c := *x
		c.X, c.Low, c.High, c.Max = foldConsts(info, x.X), foldConsts(info, x.Low), foldConsts(info, x.High), foldConsts(info, x.Max)
		return &c
	case *ast.KeyValueExpr:
		c := *x
		c.Value = foldConsts(info, x.Value)
		return &c
	case *ast.CompositeLit:
		c := *x
		c.Elts = make([]ast.Expr, len(x.Elts))
		for i, a := range x.Elts {
			c.Elts[i] = foldConsts(info, a)
		}
		return &c
	}
	return e
}

// stripConv removes numeric conversions: uint32(x) → x, int(x) → x.
func stripConv(info *types.Info, e ast.Expr) ast.Expr {
	for {
		switch x := e.(type) {
		case *ast.ParenExpr:
			e = x.X
			continue
		case *ast.CallExpr:
			if len(x.Args) == 1 {
				if tv, ok := info.Types[x.Fun]; ok && tv.IsType() {
					e = x.Args[0]
					continue
				}
			}
		}
		return e
	}
}

func widthOf(t types.Type) (string, bool) {
	switch u := t.Underlying().(type) {
	case *types.Basic:
		switch u.Kind() {
		case types.Uint8, types.Int8, types.Bool:
			return "b8:" + u.Name(), true
		case types.Uint16, types.Int16:
			return "b16:" + u.Name(), true
		case types.Uint32, types.Int32, types.Float32:
			return "b32:" + u.Name(), true
		case types.Uint64, types.Int64, types.Float64:
			return "b64:" + u.Name(), true
		case types.Int, types.Uint, types.Uintptr:
			return "PLATFORM:" + u.Name(), true // binary.Write rejects these at run time
		}
	case *types.Slice:
		w, _ := widthOf(u.Elem())
		return "[]" + w, true
	case *types.Array:
		w, _ := widthOf(u.Elem())
		return fmt.Sprintf("[%d]%s", u.Len(), w), true
	}
	return tstr(t, nil), false
}

// extractFmt builds the token tree of a WriteTo / ReadFrom declaration.
func extractFmt(w *World, decl *ast.FuncDecl, writer bool) *fmtSide {
	flattenElse(decl.Body)
	s := &fmtSide{W: w, Decl: decl, Writer: writer, Makes: map[types.Object]string{}, Defs: map[types.Object]ast.Expr{}, Closures: map[types.Object]*ast.FuncLit{}}
	s.Roots = []ast.Node{decl.Body}
	info := w.Info
	if decl.Recv != nil && len(decl.Recv.List) > 0 && len(decl.Recv.List[0].Names) > 0 {
		s.RecvName = decl.Recv.List[0].Names[0].Name
	}
	// io param: the first parameter whose type is io.Writer / io.Reader (the hybrid writer has four)
	for _, f := range decl.Type.Params.List {
		for _, n := range f.Names {
			ts := tstr(info.TypeOf(f.Type), nil)
			if (writer && ts == "io.Writer") || (!writer && ts == "io.Reader") {
				if s.IOParam == nil {
					s.IOParam = info.Defs[n]
				}
			}
		}
	}
	if s.IOParam != nil {
		s.IOAlias = ioAliases(info, decl.Body, s.IOParam)
	}
	// helper closure and make() lengths
	ast.Inspect(decl.Body, func(n ast.Node) bool {
		as, ok := n.(*ast.AssignStmt)
		if !ok || len(as.Lhs) != 1 || len(as.Rhs) != 1 {
			return true
		}
		id, ok := as.Lhs[0].(*ast.Ident)
		if !ok {
			return true
		}
		if as.Tok == token.DEFINE {
			if obj := info.Defs[id]; obj != nil {
				s.Defs[obj] = as.Rhs[0]
			}
		}
		switch rhs := as.Rhs[0].(type) {
		case *ast.FuncLit:
			uses := false
			ast.Inspect(rhs, func(m ast.Node) bool {
				if c, ok := m.(*ast.CallExpr); ok {
					n := calleeOfExpr(info, c)
					if (writer && n == "encoding/binary.Write") || (!writer && n == "encoding/binary.Read") {
						uses = true
					}
				}
				return true
			})
			if uses && s.Helper == nil {
				s.Helper = info.Defs[id]
				s.HelperFn = rhs
			} else if obj := info.Defs[id]; obj != nil {
				s.Closures[obj] = rhs
			}
		case *ast.CallExpr:
			if fn, ok := rhs.Fun.(*ast.Ident); ok && fn.Name == "make" && len(rhs.Args) >= 2 {
				if obj := info.Defs[id]; obj != nil {
					s.Makes[obj] = exprStr(stripConv(info, rhs.Args[1]))
				} else if obj := info.Uses[id]; obj != nil {
					s.Makes[obj] = exprStr(stripConv(info, rhs.Args[1]))
				}
			}
		}
		return true
	})
	// x[i] = make([]T, n) and x := make([]T, n), by printed left-hand side (for bounds that arrive through a helper's parameter)
	s.MakesByExpr = map[string]string{}
	ast.Inspect(decl.Body, func(n ast.Node) bool {
		as, ok := n.(*ast.AssignStmt)
		if !ok || len(as.Lhs) != 1 || len(as.Rhs) != 1 {
			return true
		}
		if call, ok := as.Rhs[0].(*ast.CallExpr); ok {
			if fn, ok := call.Fun.(*ast.Ident); ok && fn.Name == "make" && len(call.Args) >= 2 {
				s.MakesByExpr[exprStr(as.Lhs[0])] = exprStr(stripConv(info, call.Args[1]))
			}
		}
		return true
	})
	if !writer {
		substResolve = func(v string) (string, bool) {
			if l, ok := s.MakesByExpr[v]; ok {
				return s.resolveBoundStr(l), true
			}
			return "", false
		}
	} else {
		substResolve = nil
	}
	s.Toks = s.block(decl.Body.List)
	substResolve = nil
	return s
}

func calleeOfExpr(info *types.Info, c *ast.CallExpr) string {
	switch f := c.Fun.(type) {
	case *ast.SelectorExpr:
		if obj, ok := info.Uses[f.Sel].(*types.Func); ok {
			return obj.FullName()
		}
	case *ast.Ident:
		if obj, ok := info.Uses[f].(*types.Func); ok {
			return obj.FullName()
		}
	}
	return ""
}

// resolveLocal replaces a local identifier by its single defining expression (n := idx.dim) and a local slice made with a
// known length by that length (for range over `vec := make([]T, n)` the bound is n).
func (s *fmtSide) resolveBound(e ast.Expr) string {
	info := s.W.Info
	e = stripConv(info, e)
	for i := 0; i < 4; i++ {
		id, ok := e.(*ast.Ident)
		if !ok {
			break
		}
		obj := info.Uses[id]
		if obj == nil {
			obj = info.Defs[id]
		}
		def, ok := s.Defs[obj]
		if !ok {
			break
		}
		d := stripConv(info, def)
		// only pure selector / identifier / len() definitions are substituted
		switch x := d.(type) {
		case *ast.SelectorExpr, *ast.Ident:
			e = d
			continue
		case *ast.CallExpr:
			if fn, ok := x.Fun.(*ast.Ident); ok && fn.Name == "len" {
				e = d
				continue
			}
		}
		break
	}
	return exprStr(e)
}

// rangeBound: the bound of `for … := range X`.
func (s *fmtSide) rangeBound(x ast.Expr) string {
	info := s.W.Info
	if id, ok := x.(*ast.Ident); ok {
		obj := info.Uses[id]
		if l, ok := s.Makes[obj]; ok {
			// a local slice made with length l: ranging over it runs l times
			if e, err := parseExprCached(l); err == nil {
				_ = e
			}
			return s.resolveBoundStr(l)
		}
	}
	// an element made with a known length (`rows[i] = make([]T, n)`, the only assignment to rows[i]): ranging over it runs n times
	if _, isIdx := x.(*ast.IndexExpr); isIdx {
		if l, ok := s.MakesByExpr[exprStr(x)]; ok && s.assignCount(exprStr(x)) == 1 {
			return s.resolveBoundStr(l)
		}
	}
	return exprStr(x)
}

// assignCount: how many assignments of the function have the printed left-hand side lhs.
func (s *fmtSide) assignCount(lhs string) int {
	n := 0
	ast.Inspect(s.Decl.Body, func(m ast.Node) bool {
		if as, ok := m.(*ast.AssignStmt); ok {
			for _, l := range as.Lhs {
				if exprStr(l) == lhs {
					n++
				}
			}
		}
		return true
	})
	return n
}

func (s *fmtSide) resolveBoundStr(l string) string {
	// l is the printed length expression of a make(); resolve it when it is a plain local identifier
	for obj, def := range s.Defs {
		if obj.Name() == l {
			d := stripConv(s.W.Info, def)
			switch d.(type) {
			case *ast.SelectorExpr, *ast.Ident:
				return exprStr(d)
			}
		}
	}
	return l
}

func parseExprCached(string) (ast.Expr, error) { return nil, nil }

func (s *fmtSide) block(list []ast.Stmt) []*fTok {
	var out []*fTok
	for i, st := range list {
		// a guard clause that leaves with success before anything else is coded: `if C { return nil }; rest` reads as
		// `if !C { rest }` — a conditional section (only inside followed helpers: the top-level function may not report
		// success early, FMT4 checks that separately)
		if ifs, ok := st.(*ast.IfStmt); ok && s.depth > 0 && ifs.Init == nil && ifs.Else == nil && len(ifs.Body.List) == 1 && i+1 < len(list) {
			if rs, isRet := ifs.Body.List[0].(*ast.ReturnStmt); isRet && len(rs.Results) >= 1 && exprStr(rs.Results[len(rs.Results)-1]) == "nil" && len(s.expr(ifs.Cond)) == 0 {
				rest := s.block(list[i+1:])
				if len(rest) > 0 {
					out = append(out, &fTok{Kind: "COND", Cond: "!(" + exprStr(ifs.Cond) + ")", Body: rest, Pos: ifs.Pos()})
				}
				return out
			}
		}
		out = append(out, s.stmt(st)...)
	}
	return out
}

func (s *fmtSide) stmt(st ast.Stmt) []*fTok {
	switch x := st.(type) {
	case *ast.BlockStmt:
		return s.block(x.List)
	case *ast.ExprStmt:
		return s.expr(x.X)
	case *ast.AssignStmt:
		var out []*fTok
		for _, r := range x.Rhs {
			out = append(out, s.expr(r)...)
		}
		return out
	case *ast.DeclStmt:
		return nil
	case *ast.ReturnStmt:
		var out []*fTok
		for _, r := range x.Results {
			out = append(out, s.expr(r)...)
		}
		return out
	case *ast.IfStmt:
		var out []*fTok
		if x.Init != nil {
			out = append(out, s.stmt(x.Init)...)
		}
		out = append(out, s.expr(x.Cond)...)
		body := s.block(x.Body.List)
		var els []*fTok
		if blk, isBlk := x.Else.(*ast.BlockStmt); isBlk && len(x.Body.List) > 0 {
			// `if C {…; return} else {rest}` reads as `if C {…; return}; rest`: the else branch continues the sequence
			if _, isRet := x.Body.List[len(x.Body.List)-1].(*ast.ReturnStmt); isRet {
				if len(body) > 0 {
					out = append(out, &fTok{Kind: "COND", Cond: exprStr(x.Cond), Body: body, Pos: x.Pos()})
				}
				return append(out, s.block(blk.List)...)
			}
		}
		if x.Else != nil {
			els = s.stmt(x.Else)
		}
		if len(body) > 0 || len(els) > 0 {
			out = append(out, &fTok{Kind: "COND", Cond: exprStr(x.Cond), Body: body, Else: els, Pos: x.Pos()})
		}
		return out
	case *ast.LabeledStmt:
		return s.stmt(x.Stmt)
	case *ast.ForStmt:
		// `L: for { …; break L }` written by the statement inliner (inline2.go) is a block, not a loop
		if x.Init == nil && x.Cond == nil && x.Post == nil && len(x.Body.List) > 0 {
			if br, ok := x.Body.List[len(x.Body.List)-1].(*ast.BranchStmt); ok && br.Tok == token.BREAK && br.Label != nil && strings.HasPrefix(br.Label.Name, "L_h") {
				return s.block(x.Body.List)
			}
		}
		var out []*fTok
		if x.Init != nil {
			out = append(out, s.stmt(x.Init)...)
		}
		body := s.block(x.Body.List)
		if len(body) == 0 {
			return out
		}
		bound := "?"
		whole := false
		if be, ok := x.Cond.(*ast.BinaryExpr); ok && (be.Op == token.LSS || be.Op == token.LEQ) {
			bound = s.resolveBound(be.Y)
			// i < len(x) over a local slice made with a known length
			if c, ok := stripConv(s.W.Info, be.Y).(*ast.CallExpr); ok {
				if fn, ok := c.Fun.(*ast.Ident); ok && fn.Name == "len" && len(c.Args) == 1 {
					if s.Writer {
						// the writer names a length by the container whose len() it emitted
						bound = exprStr(c.Args[0])
						whole = true
					} else {
						bound = s.rangeBound(c.Args[0])
					}
				}
			}
			if be.Op == token.LEQ {
				bound += "+1"
				whole = false
			}
			// the induction variable must start at 0 and step by 1
			if !forFromZero(x) {
				bound = "NONCANONICAL(" + exprStr(x.Cond) + ")"
				whole = false
			}
		} else if x.Cond != nil {
			bound = "NONCANONICAL(" + exprStr(x.Cond) + ")"
		}
		s.loopSkips(x.Body, body)
		return append(out, &fTok{Kind: "LOOP", Len: bound, Body: body, Pos: x.Pos(), Whole: whole})
	case *ast.RangeStmt:
		body := s.block(x.Body.List)
		if len(body) == 0 {
			return nil
		}
		s.loopSkips(x.Body, body)
		b := exprStr(x.X)
		if !s.Writer {
			b = s.rangeBound(x.X)
		}
		if s.BoundKey == nil {
			s.BoundKey = map[string]string{}
		}
		s.BoundKey[b] = nameFree(s.W.Info, x.X)
		return []*fTok{{Kind: "LOOP", Len: b, Body: body, Pos: x.Pos(), Whole: true}}
	case *ast.SwitchStmt, *ast.TypeSwitchStmt:
		// a switch with stream operations in exactly one clause is a conditional section (comma-ok assertion written as
		// a type switch, `switch { case cond: … }`)
		var body *ast.BlockStmt
		tag := "switch"
		switch sw := x.(type) {
		case *ast.SwitchStmt:
			body = sw.Body
			if sw.Tag != nil {
				tag += " " + exprStr(sw.Tag)
			}
		case *ast.TypeSwitchStmt:
			body = sw.Body
			tag = "typeswitch"
		}
		var withOps [][]*fTok
		var conds []string
		for _, cl := range body.List {
			cc, ok := cl.(*ast.CaseClause)
			if !ok {
				continue
			}
			toks := s.block(cc.Body)
			if len(toks) > 0 {
				withOps = append(withOps, toks)
				var cs []string
				for _, e := range cc.List {
					cs = append(cs, exprStr(e))
				}
				conds = append(conds, tag+" case "+strings.Join(cs, ","))
			}
		}
		switch len(withOps) {
		case 0:
			return nil
		case 1:
			return []*fTok{{Kind: "COND", Cond: conds[0], Body: withOps[0], Pos: st.Pos()}}
		}
		s.Problems = append(s.Problems, "stream operations in several clauses of the switch statement at "+s.W.Pos(st.Pos())+" are not modelled")
		return nil
	case *ast.SelectStmt:
		var inner []*fTok
		ast.Inspect(st, func(n ast.Node) bool {
			if c, ok := n.(*ast.CallExpr); ok {
				inner = append(inner, s.call(c)...)
			}
			return true
		})
		if len(inner) > 0 {
			s.Problems = append(s.Problems, "stream operations inside a switch statement at "+s.W.Pos(st.Pos())+" are not modelled")
		}
		return nil
	case *ast.DeferStmt:
		return nil
	case *ast.GoStmt:
		return s.expr(x.Call)
	}
	return nil
}

func forFromZero(x *ast.ForStmt) bool {
	as, ok := x.Init.(*ast.AssignStmt)
	if !ok || len(as.Rhs) != 1 {
		return false
	}
	zero := false
	switch r := as.Rhs[0].(type) {
	case *ast.BasicLit:
		zero = r.Value == "0"
	case *ast.CallExpr:
		if len(r.Args) == 1 {
			if bl, ok := r.Args[0].(*ast.BasicLit); ok {
				zero = bl.Value == "0"
			}
		}
	}
	// a named constant / constant expression of value 0 (foldInfo is the type information of the tree being read)
	if !zero && foldInfo != nil {
		if tv, ok := foldInfo.Types[as.Rhs[0]]; ok && tv.Value != nil && tv.Value.ExactString() == "0" {
			zero = true
		}
	}
	inc, ok := x.Post.(*ast.IncDecStmt)
	return zero && ok && inc.Tok == token.INC
}

// expr collects tokens of the calls inside an expression, in evaluation order (not descending into function literals).
func (s *fmtSide) expr(e ast.Expr) []*fTok {
	var out []*fTok
	if e == nil {
		return nil
	}
	ast.Inspect(e, func(n ast.Node) bool {
		switch c := n.(type) {
		case *ast.FuncLit:
			return false
		case *ast.CallExpr:
			toks := s.call(c)
			if toks != nil {
				out = append(out, toks...)
				return false
			}
		}
		return true
	})
	return out
}

func (s *fmtSide) isIO(e ast.Expr) bool {
	id, ok := e.(*ast.Ident)
	if !ok || s.IOParam == nil {
		return false
	}
	obj := s.W.Info.Uses[id]
	return obj == s.IOParam || (obj != nil && s.IOAlias[obj])
}

// ioAliases: local variables of the stream's interface type initialised from the stream parameter (or another alias):
// `var rd io.Reader = r`, `rd := r`. They denote the same stream.
func ioAliases(info *types.Info, body ast.Node, param types.Object) map[types.Object]bool {
	out := map[types.Object]bool{}
	isStream := func(e ast.Expr) bool {
		id, ok := ast.Unparen(e).(*ast.Ident)
		if !ok {
			return false
		}
		obj := info.Uses[id]
		return obj != nil && (obj == param || out[obj])
	}
	for changed := true; changed; {
		changed = false
		ast.Inspect(body, func(n ast.Node) bool {
			switch x := n.(type) {
			case *ast.ValueSpec:
				for i, nm := range x.Names {
					if i < len(x.Values) && isStream(x.Values[i]) {
						if obj := info.Defs[nm]; obj != nil && !out[obj] {
							out[obj] = true
							changed = true
						}
					}
				}
			case *ast.AssignStmt:
				if x.Tok == token.DEFINE && len(x.Lhs) == len(x.Rhs) {
					for i, l := range x.Lhs {
						if id, ok := l.(*ast.Ident); ok && isStream(x.Rhs[i]) {
							if obj := info.Defs[id]; obj != nil && !out[obj] {
								out[obj] = true
								changed = true
							}
						}
					}
				}
			}
			return true
		})
	}
	// an alias that is ever re-assigned is not a plain alias
	ast.Inspect(body, func(n ast.Node) bool {
		if as, ok := n.(*ast.AssignStmt); ok && as.Tok != token.DEFINE {
			for _, l := range as.Lhs {
				if id, ok := l.(*ast.Ident); ok {
					delete(out, info.Uses[id])
				}
			}
		}
		return true
	})
	return out
}

func (s *fmtSide) call(c *ast.CallExpr) []*fTok {
	info := s.W.Info
	// helper closure
	if id, ok := c.Fun.(*ast.Ident); ok && s.Helper != nil && info.Uses[id] == s.Helper && len(c.Args) == 1 {
		s.Calls = append(s.Calls, c)
		return []*fTok{s.field(c.Args[0], c.Pos())}
	}
	// a local closure that wraps stream operations (writeRaw, readBlock, writeNode): inline its tokens
	if id, ok := c.Fun.(*ast.Ident); ok {
		if lit, ok := s.Closures[info.Uses[id]]; ok && s.depth < 3 {
			s.depth++
			toks := s.block(lit.Body.List)
			s.depth--
			if len(toks) > 0 {
				substParams(info, toks, lit.Type.Params, c.Args)
				return toks
			}
		}
	}
	name := calleeOfExpr(info, c)
	// a package function / method that receives the stream (or the codec helper): inline its tokens
	if toks := s.inlineFunc(c); toks != nil {
		return toks
	}
	switch {
	case s.Writer && name == "encoding/binary.Write" && len(c.Args) == 3:
		s.Calls = append(s.Calls, c)
		return []*fTok{s.field(c.Args[2], c.Pos())}
	case !s.Writer && name == "encoding/binary.Read" && len(c.Args) == 3:
		s.Calls = append(s.Calls, c)
		return []*fTok{s.field(c.Args[2], c.Pos())}
	case !s.Writer && name == "io.ReadFull" && len(c.Args) == 2:
		s.Calls = append(s.Calls, c)
		t := &fTok{Kind: "RAW", Arg: exprStr(c.Args[1]), Pos: c.Pos(), Len: "?"}
		buf := c.Args[1]
		if se, ok := buf.(*ast.SliceExpr); ok && se.Low == nil && se.High == nil {
			buf = se.X
			t.Arg = exprStr(buf)
		}
		if id, ok := buf.(*ast.Ident); ok {
			if l, ok := s.Makes[info.Uses[id]]; ok {
				t.Len = s.resolveBoundStr(l)
			}
		}
		if at, ok := info.TypeOf(buf).Underlying().(*types.Array); ok {
			t.Len = fmt.Sprint(at.Len())
		}
		return []*fTok{t}
	}
	if sel, ok := c.Fun.(*ast.SelectorExpr); ok {
		// w.Write(x) on an io.Writer value (the hybrid writer has several)
		if s.Writer && sel.Sel.Name == "Write" && len(c.Args) == 1 {
			if ts := tstr(info.TypeOf(sel.X), nil); ts == "io.Writer" {
				s.Calls = append(s.Calls, c)
				arg := c.Args[0]
				t := &fTok{Kind: "RAW", Arg: exprStr(arg), Pos: c.Pos()}
				if se, ok := arg.(*ast.SliceExpr); ok && se.Low == nil && se.High == nil {
					arg = se.X
				}
				t.Len = exprStr(arg)
				if s.BoundKey == nil {
					s.BoundKey = map[string]string{}
				}
				s.BoundKey[t.Len] = nameFree(info, arg)
				if at, ok := info.TypeOf(arg).Underlying().(*types.Array); ok {
					t.Len = fmt.Sprint(at.Len())
				}
				if n, ok := constBytesLen(info, arg); ok {
					t.Len = fmt.Sprint(n)
				}
				return []*fTok{t}
			}
		}
		// nested index serialisation
		if (s.Writer && sel.Sel.Name == "WriteTo") || (!s.Writer && sel.Sel.Name == "ReadFrom") {
			if len(c.Args) == 1 {
				s.Calls = append(s.Calls, c)
				return []*fTok{{Kind: "SUB", Arg: exprStr(sel.X), Len: exprStr(c.Args[0]), Pos: c.Pos()}}
			}
		}
	}
	return nil
}

// substParams rewrites token lengths / arguments that name a parameter of an inlined function to the argument expression.
// substResolve, when set, maps a substituted bound that names a made slice to its length (set by the side being built).
var substResolve func(string) (string, bool)

func substParams(info *types.Info, toks []*fTok, params *ast.FieldList, args []ast.Expr) {
	m := map[string]string{}  // parameter -> argument expression
	ml := map[string]string{} // parameter -> length name of the argument (x[:] of an array is its constant length)
	i := 0
	if params != nil {
		for _, f := range params.List {
			for _, n := range f.Names {
				if i < len(args) {
					a := args[i]
					m[n.Name] = exprStr(a)
					ml[n.Name] = exprStr(a)
					if cn, ok := constBytesLen(info, a); ok {
						ml[n.Name] = fmt.Sprint(cn)
					}
					if se, ok := a.(*ast.SliceExpr); ok && se.Low == nil && se.High == nil {
						ml[n.Name] = exprStr(se.X)
						if t := info.TypeOf(se.X); t != nil {
							if at, ok := t.Underlying().(*types.Array); ok {
								ml[n.Name] = fmt.Sprint(at.Len())
							}
						}
					}
				}
				i++
			}
		}
	}
	var rec func(ts []*fTok)
	rec = func(ts []*fTok) {
		for _, t := range ts {
			if v, ok := ml[t.Len]; ok {
				if t.CountLen == "" {
					t.CountLen = t.Len
				}
				t.Len = v
				if t.Kind == "LOOP" && substResolve != nil {
					if l, ok := substResolve(v); ok {
						t.Len = l
					}
				}
			}
			if v, ok := m[t.Arg]; ok {
				t.Arg = v
			}
			if strings.HasPrefix(t.Len, "len(") && strings.HasSuffix(t.Len, ")") {
				if v, ok := ml[t.Len[4:len(t.Len)-1]]; ok {
					if t.CountLen == "" {
						t.CountLen = t.Len
					}
					t.Len = "len(" + v + ")"
				}
			}
			rec(t.Body)
			rec(t.Else)
		}
	}
	rec(toks)
}

// inlineFunc expands a call to a comet function or method that is handed the stream parameter or the codec helper.
func (s *fmtSide) inlineFunc(c *ast.CallExpr) []*fTok {
	info := s.W.Info
	if s.depth >= 3 {
		return nil
	}
	var obj *types.Func
	switch f := c.Fun.(type) {
	case *ast.Ident:
		obj, _ = info.Uses[f].(*types.Func)
	case *ast.SelectorExpr:
		obj, _ = info.Uses[f.Sel].(*types.Func)
	}
	if obj == nil || obj.Pkg() != s.W.Types {
		return nil
	}
	if obj.Name() == "WriteTo" || obj.Name() == "ReadFrom" || obj.Name() == "Flush" {
		return nil
	}
	passes := -1
	helperArg := -1
	for i, a := range c.Args {
		if id, ok := a.(*ast.Ident); ok {
			if s.isIO(id) {
				passes = i
			}
			if s.Helper != nil && info.Uses[id] == s.Helper {
				helperArg = i
			}
		}
	}
	if passes < 0 && helperArg < 0 {
		return nil
	}
	sf := s.W.Prog.FuncValue(obj)
	if sf == nil {
		return nil
	}
	decl := s.W.Decl(s.W.Name(sf))
	if decl == nil || decl.Body == nil {
		return nil
	}
	sub := &fmtSide{W: s.W, Decl: decl, Writer: s.Writer, Makes: map[types.Object]string{}, Defs: map[types.Object]ast.Expr{}, Closures: map[types.Object]*ast.FuncLit{}, depth: s.depth + 1}
	// bind the callee's parameters
	i := 0
	for _, f := range decl.Type.Params.List {
		for _, n := range f.Names {
			if i == passes {
				sub.IOParam = info.Defs[n]
				sub.IOAlias = ioAliases(info, decl.Body, sub.IOParam)
			}
			if i == helperArg {
				sub.Helper = info.Defs[n]
			}
			i++
		}
	}
	if decl.Recv != nil && len(decl.Recv.List) > 0 && len(decl.Recv.List[0].Names) > 0 {
		sub.RecvName = decl.Recv.List[0].Names[0].Name
	}
	// local makes / defs of the callee
	ast.Inspect(decl.Body, func(n ast.Node) bool {
		as, ok := n.(*ast.AssignStmt)
		if !ok || len(as.Lhs) != 1 || len(as.Rhs) != 1 {
			return true
		}
		id, ok := as.Lhs[0].(*ast.Ident)
		if !ok {
			return true
		}
		if as.Tok == token.DEFINE {
			if o := info.Defs[id]; o != nil {
				sub.Defs[o] = as.Rhs[0]
			}
		}
		if call, ok := as.Rhs[0].(*ast.CallExpr); ok {
			if fn, ok := call.Fun.(*ast.Ident); ok && fn.Name == "make" && len(call.Args) >= 2 {
				if o := info.Defs[id]; o != nil {
					sub.Makes[o] = exprStr(stripConv(info, call.Args[1]))
				}
			}
		}
		return true
	})
	toks := sub.block(decl.Body.List)
	if len(toks) == 0 {
		return nil
	}
	substParams(info, toks, decl.Type.Params, c.Args)
	s.Calls = append(s.Calls, sub.Calls...)
	s.Problems = append(s.Problems, sub.Problems...)
	s.Roots = append(s.Roots, decl.Body)
	s.Roots = append(s.Roots, sub.Roots...)
	s.Sites = append(s.Sites, c.Pos())
	return toks
}

func (s *fmtSide) field(arg ast.Expr, pos token.Pos) *fTok {
	info := s.W.Info
	t := &fTok{Kind: "FIELD", Arg: exprStr(arg), Pos: pos}
	typ := info.TypeOf(arg)
	if !s.Writer {
		// destination must be a pointer: &x
		if u, ok := arg.(*ast.UnaryExpr); ok && u.Op == token.AND {
			typ = info.TypeOf(u.X)
			t.Len = exprStr(u.X)
			t.Arg = exprStr(u.X)
		} else if p, ok := typ.Underlying().(*types.Pointer); ok {
			typ = p.Elem()
		}
	} else {
		// uint32(len(E)) defines the length name E (possibly through a local: n := uint32(len(E)); write(n))
		inner := stripConv(info, arg)
		if id, ok := inner.(*ast.Ident); ok {
			if def, ok := s.Defs[info.Uses[id]]; ok {
				inner = stripConv(info, def)
			}
		}
		if c, ok := inner.(*ast.CallExpr); ok {
			if id, ok := c.Fun.(*ast.Ident); ok && id.Name == "len" && len(c.Args) == 1 {
				t.Len = exprStr(c.Args[0])
			}
		}
	}
	wd, ok := widthOf(typ)
	t.Width = wd
	if !ok {
		s.Problems = append(s.Problems, fmt.Sprintf("value of type %s passed to the binary codec at %s has no fixed width", wd, s.W.Pos(pos)))
	}
	if strings.HasPrefix(wd, "[]") {
		t.Slice = true
		if s.BoundKey == nil {
			s.BoundKey = map[string]string{}
		}
		s.BoundKey[t.Arg] = nameFree(info, arg)
	}
	return t
}

// ---------------------------------------------------------------- grammar rendering

type grammar struct {
	names map[string]string // length name -> Lk
	used  map[string]bool
	n     int
	impl  []string // implicit bounds in order of appearance
}

// render prints the tree; length names are numbered in order of definition; bounds that are not defined
// length names are implicit (IMPLk) and recorded.
func renderGrammar(toks []*fTok) (string, []string) {
	g := &grammar{names: map[string]string{}, used: map[string]bool{}}
	// pass 1: which length names are used as RAW length / LOOP bound
	var mark func(ts []*fTok)
	mark = func(ts []*fTok) {
		for _, t := range ts {
			switch t.Kind {
			case "RAW", "LOOP":
				g.used[t.Len] = true
			case "FIELD":
				if t.Slice && s_writerSide(t) {
					g.used[t.Arg] = true // a slice written in one call is a loop over its elements
				}
			}
			mark(t.Body)
			mark(t.Else)
		}
	}
	mark(toks)
	var pr func(ts []*fTok) string
	pr = func(ts []*fTok) string {
		var parts []string
		for _, t := range ts {
			switch t.Kind {
			case "FIELD":
				w := strings.SplitN(t.Width, ":", 2)[0]
				if t.Slice && strings.HasPrefix(w, "[]") {
					// binary.Write(w, order, xs) ≡ for _, x := range xs { binary.Write(w, order, x) }
					b := ""
					if n, ok := g.names[t.Arg]; ok {
						b = n
					} else {
						g.impl = append(g.impl, t.Arg)
						b = fmt.Sprintf("IMPL%d", len(g.impl))
					}
					parts = append(parts, "{ "+strings.TrimPrefix(w, "[]")+" }*"+b)
					continue
				}
				if t.Len != "" && g.used[t.Len] && strings.HasPrefix(t.Width, "b32") {
					g.n++
					g.names[t.Len] = fmt.Sprintf("L%d", g.n)
					parts = append(parts, g.names[t.Len])
				} else {
					parts = append(parts, w)
				}
			case "RAW":
				if n, ok := g.names[t.Len]; ok {
					parts = append(parts, "RAW("+n+")")
				} else if isNumber(t.Len) {
					parts = append(parts, "RAW"+t.Len)
				} else {
					g.impl = append(g.impl, t.Len)
					parts = append(parts, fmt.Sprintf("RAW(IMPL%d)", len(g.impl)))
				}
			case "LOOP":
				b := ""
				if n, ok := g.names[t.Len]; ok {
					b = n
				} else {
					g.impl = append(g.impl, t.Len)
					b = fmt.Sprintf("IMPL%d", len(g.impl))
				}
				parts = append(parts, "{ "+pr(t.Body)+" }*"+b)
			case "COND":
				// a conditional whose only content is another conditional is their conjunction
				for len(t.Body) == 1 && t.Body[0].Kind == "COND" && len(t.Else) == 0 && len(t.Body[0].Else) == 0 {
					t = t.Body[0]
				}
				s := "[ " + pr(t.Body) + " ]?"
				if len(t.Else) > 0 {
					s += "else[ " + pr(t.Else) + " ]"
				}
				parts = append(parts, s)
			case "SUB":
				parts = append(parts, "SUB")
			}
		}
		return strings.Join(parts, " ")
	}
	return pr(toks), g.impl
}

func s_writerSide(t *fTok) bool { return true }

func isNumber(s string) bool {
	if s == "" {
		return false
	}
	for _, r := range s {
		if r < '0' || r > '9' {
			return false
		}
	}
	return true
}

// flatten lists all tokens depth-first.
func flattenToks(ts []*fTok) []*fTok {
	var out []*fTok
	for _, t := range ts {
		out = append(out, t)
		out = append(out, flattenToks(t.Body)...)
		out = append(out, flattenToks(t.Else)...)
	}
	return out
}

// constStringOf evaluates a constant string expression.
func constStringOf(info *types.Info, e ast.Expr) (string, bool) {
	if tv, ok := info.Types[e]; ok && tv.Value != nil && tv.Value.Kind() == constant.String {
		return constant.StringVal(tv.Value), true
	}
	return "", false
}

func sortedStrings(m map[string]bool) []string {
	var out []string
	for k := range m {
		out = append(out, k)
	}
	sort.Strings(out)
	return out
}

// constBytesLen: e is []byte(S) for a constant string S; returns len(S).
func constBytesLen(info *types.Info, e ast.Expr) (int, bool) {
	c, ok := ast.Unparen(e).(*ast.CallExpr)
	if !ok || len(c.Args) != 1 {
		return 0, false
	}
	if tv, ok := info.Types[c.Fun]; !ok || !tv.IsType() {
		return 0, false
	}
	if sl, ok := info.TypeOf(c.Fun).Underlying().(*types.Slice); !ok || tstr(sl.Elem(), nil) != "byte" && tstr(sl.Elem(), nil) != "uint8" {
		return 0, false
	}
	if sv, ok := constStringOf(info, c.Args[0]); ok {
		return len(sv), true
	}
	return 0, false
}

// loopSkips: an iteration of a loop that transfers stream data must transfer it on every iteration — a `continue` (or
// `break`) that comes before the last stream operation of the body lets an iteration skip what the count written in front
// of the loop promised (and what the other side will consume).
func (s *fmtSide) loopSkips(body *ast.BlockStmt, toks []*fTok) {
	var last token.Pos
	var walk func(ts []*fTok)
	walk = func(ts []*fTok) {
		for _, t := range ts {
			if t.Pos > last && t.Pos >= body.Pos() && t.Pos < body.End() {
				last = t.Pos
			}
			walk(t.Body)
			walk(t.Else)
		}
	}
	walk(toks)
	if last == token.NoPos {
		return
	}
	var visit func(n ast.Node, inner bool)
	visit = func(n ast.Node, inner bool) {
		ast.Inspect(n, func(m ast.Node) bool {
			switch x := m.(type) {
			case *ast.FuncLit:
				return false
			case *ast.ForStmt:
				if m != n {
					visit(x.Body, true)
					return false
				}
			case *ast.RangeStmt:
				if m != n {
					visit(x.Body, true)
					return false
				}
			case *ast.SwitchStmt, *ast.TypeSwitchStmt, *ast.SelectStmt:
				// a break inside belongs to the switch; a continue still belongs to the loop
			case *ast.BranchStmt:
				if x.Pos() >= last {
					return true
				}
				if x.Tok == token.CONTINUE && x.Label == nil && !inner {
					s.Problems = append(s.Problems, "an iteration can `continue` at "+s.W.Pos(x.Pos())+" before the stream operation at "+s.W.Pos(last)+": the number of transferred entries no longer matches the count in front of the loop")
				}
			}
			return true
		})
	}
	visit(body, false)
}

// flattenElse rewrites, in the syntax tree the serialisation rules read, `if C {…; return} else {rest}` into
// `if C {…; return}; rest` (the same statements in the same order on every execution; only the scope of names declared in
// rest differs, which no rule here looks at). The rules then see one statement sequence per stream.
func flattenElse(n ast.Node) {
	var doList func(list []ast.Stmt) []ast.Stmt
	doList = func(list []ast.Stmt) []ast.Stmt {
		var out []ast.Stmt
		for _, st := range list {
			out = append(out, st)
			if iff, ok := st.(*ast.IfStmt); ok {
				if blk, isBlk := iff.Else.(*ast.BlockStmt); isBlk && len(iff.Body.List) > 0 {
					if _, isRet := iff.Body.List[len(iff.Body.List)-1].(*ast.ReturnStmt); isRet {
						iff.Else = nil
						out = append(out, doList(blk.List)...)
					}
				}
			}
		}
		return out
	}
	ast.Inspect(n, func(m ast.Node) bool {
		switch x := m.(type) {
		case *ast.BlockStmt:
			x.List = doList(x.List)
		case *ast.CaseClause:
			x.Body = doList(x.Body)
		case *ast.CommClause:
			x.Body = doList(x.Body)
		}
		return true
	})
}

// nameFree prints an expression with every local variable replaced by `$` and its type: the description of a loop bound
// that does not depend on how locals are called (`vec` → `$[]float32`, `idx.codes[i]` → `$*PQIndex.codes[$int]`).
func nameFree(info *types.Info, e ast.Expr) string {
	var pr func(e ast.Expr) string
	pr = func(e ast.Expr) string {
		switch x := e.(type) {
		case *ast.Ident:
			if v, ok := info.Uses[x].(*types.Var); ok && !v.IsField() && v.Pkg() != nil && v.Parent() != v.Pkg().Scope() {
				return "$" + tstr(v.Type(), qual)
			}
			return x.Name
		case *ast.SelectorExpr:
			return pr(x.X) + "." + x.Sel.Name
		case *ast.IndexExpr:
			return pr(x.X) + "[" + pr(x.Index) + "]"
		case *ast.CallExpr:
			var as []string
			for _, a := range x.Args {
				as = append(as, pr(a))
			}
			return pr(x.Fun) + "(" + strings.Join(as, ",") + ")"
		case *ast.ParenExpr:
			return pr(x.X)
		case *ast.StarExpr:
			return "*" + pr(x.X)
		case *ast.UnaryExpr:
			return x.Op.String() + pr(x.X)
		}
		return exprStr(e)
	}
	return pr(e)
}

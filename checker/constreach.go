package main

// constreach.go — finite-domain reachability: for a tag expression compared only against constants
// (a switch over declared constants, or an if/else chain), the set of tag values under which each
// basic block is reachable. Exhaustive over the finite domain {declared constants} ∪ {OTHER}.

import (
	"go/constant"
	"go/token"
	"go/types"
	"sort"
	"strings"

	"golang.org/x/tools/go/ssa"
)

const otherVal = "<other>"

type valSet map[string]bool

func (s valSet) clone() valSet {
	o := valSet{}
	for k := range s {
		o[k] = true
	}
	return o
}
func (s valSet) String() string {
	var ks []string
	for k := range s {
		ks = append(ks, k)
	}
	sort.Strings(ks)
	return "{" + strings.Join(ks, ",") + "}"
}
func (s valSet) equal(t valSet) bool {
	if len(s) != len(t) {
		return false
	}
	for k := range s {
		if !t[k] {
			return false
		}
	}
	return true
}
func setOf(xs ...string) valSet {
	s := valSet{}
	for _, x := range xs {
		s[x] = true
	}
	return s
}

// constString returns the string value of a constant operand.
func constString(v ssa.Value) (string, bool) {
	c, ok := v.(*ssa.Const)
	if !ok || c.Value == nil {
		return "", false
	}
	if c.Value.Kind() == constant.String {
		return constant.StringVal(c.Value), true
	}
	return c.Value.ExactString(), true
}

// constReach returns the set of tag values under which each block is reachable.
// isTag decides whether an SSA value denotes the tag. The walk is done per tag value and carries the operand each phi
// received on the way, so that a dispatch through data (`kind, ok := lookup(tag); if ok { … }` once the lookup is inlined:
// ok is a phi of constants chosen by the tag) is followed like a dispatch through control.
func constReach(fn *ssa.Function, isTag func(ssa.Value) bool, domain []string) map[*ssa.BasicBlock]valSet {
	state := map[*ssa.BasicBlock]valSet{}
	if len(fn.Blocks) == 0 {
		return state
	}
	for _, v := range append(append([]string(nil), domain...), otherVal) {
		for b := range constReachFor(fn, isTag, domain, v) {
			if state[b] == nil {
				state[b] = valSet{}
			}
			state[b][v] = true
		}
	}
	return state
}

// unknownVal marks a phi whose operand differs between the ways a block is reached under one tag value.
var unknownVal = ssa.Value(&ssa.Const{})

type phiEnv map[*ssa.Phi]ssa.Value

// phiSets: for every phi, every operand it can receive under the tag value (kept next to phiEnv, which only knows the
// operand when it is the same on every way into the block).
type phiSets map[*ssa.Phi][]ssa.Value

// constEnvAt: under tag value v, the operand every phi of fn's blocks certainly carries when block b is entered.
func constReachEnv(fn *ssa.Function, isTag func(ssa.Value) bool, domain []string, v string) (map[*ssa.BasicBlock]bool, map[*ssa.BasicBlock]phiEnv) {
	r, e, _ := constReachEnvSets(fn, isTag, domain, v)
	return r, e
}

// constReachEnvSets additionally returns, per phi, the operands of the incoming edges that are feasible under v.
func constReachEnvSets(fn *ssa.Function, isTag func(ssa.Value) bool, domain []string, v string) (map[*ssa.BasicBlock]bool, map[*ssa.BasicBlock]phiEnv, phiSets) {
	sets := phiSets{}
	addSet := func(ph *ssa.Phi, x ssa.Value) {
		for _, y := range sets[ph] {
			if sameSSAVal(x, y) {
				return
			}
		}
		sets[ph] = append(sets[ph], x)
	}
	inDomain := map[string]bool{}
	for _, d := range domain {
		inDomain[d] = true
	}
	reached := map[*ssa.BasicBlock]bool{}
	envIn := map[*ssa.BasicBlock]phiEnv{}
	entry := fn.Blocks[0]
	envIn[entry] = phiEnv{}
	reached[entry] = true
	work := []*ssa.BasicBlock{entry}
	resolve := func(x ssa.Value, env phiEnv) ssa.Value {
		for i := 0; i < 8; i++ {
			ph, ok := x.(*ssa.Phi)
			if !ok {
				return x
			}
			r, ok := env[ph]
			if !ok || r == unknownVal {
				return x
			}
			x = r
		}
		return x
	}
	for len(work) > 0 {
		b := work[len(work)-1]
		work = work[:len(work)-1]
		env := envIn[b]
		if len(b.Instrs) == 0 {
			continue
		}
		takeT, takeF := true, true
		if iff, ok := b.Instrs[len(b.Instrs)-1].(*ssa.If); ok {
			cond, neg := stripNot(iff.Cond)
			cond = resolve(cond, env)
			if c2, n2 := stripNot(cond); n2 {
				cond, neg = resolve(c2, env), !neg
			}
			decided, val := false, false
			switch x := cond.(type) {
			case *ssa.Const:
				if x.Value != nil && x.Value.Kind() == constant.Bool {
					decided, val = true, constant.BoolVal(x.Value)
				}
			case *ssa.BinOp:
				if x.Op == token.EQL || x.Op == token.NEQ {
					var k string
					var has bool
					if isTag(x.X) {
						k, has = constString(resolve(x.Y, env))
					} else if isTag(x.Y) {
						k, has = constString(resolve(x.X, env))
					}
					if has {
						switch {
						case v != otherVal:
							decided, val = true, (v == k) == (x.Op == token.EQL)
						case inDomain[k]:
							decided, val = true, x.Op == token.NEQ
						}
					}
					// a nil test of a value the way here determines (err := φ(…) resolved to a fresh error or to nil)
					if !decided {
						isNil := func(y ssa.Value) bool { c, ok := y.(*ssa.Const); return ok && c.Value == nil }
						var opnd ssa.Value
						switch {
						case isNil(x.Y):
							opnd = resolve(x.X, env)
						case isNil(x.X):
							opnd = resolve(x.Y, env)
						}
						if opnd != nil {
							switch classifyErrVal(opnd, nil) {
							case ErrNonNil:
								if _, isG := opnd.(*ssa.UnOp); !isG {
									decided, val = true, x.Op == token.NEQ
								}
							case ErrNil:
								decided, val = true, x.Op == token.EQL
							}
						}
					}
				}
			}
			if decided {
				if val != neg {
					takeF = false
				} else {
					takeT = false
				}
			}
		}
		for si, succ := range b.Succs {
			if _, isIf := b.Instrs[len(b.Instrs)-1].(*ssa.If); isIf {
				if (si == 0 && !takeT) || (si == 1 && !takeF) {
					continue
				}
			}
			ne := phiEnv{}
			for k, x := range env {
				ne[k] = x
			}
			for _, in := range succ.Instrs {
				ph, ok := in.(*ssa.Phi)
				if !ok {
					break
				}
				for pi, p := range succ.Preds {
					if p == b {
						ne[ph] = resolve(ph.Edges[pi], env)
						addSet(ph, ph.Edges[pi])
						break
					}
				}
			}
			old, seen := envIn[succ]
			if !seen {
				envIn[succ] = ne
				reached[succ] = true
				work = append(work, succ)
				continue
			}
			changed := false
			for k, x := range old {
				if y, ok := ne[k]; (!ok || !sameSSAVal(y, x)) && x != unknownVal {
					old[k] = unknownVal
					changed = true
				}
			}
			for k := range ne {
				if _, ok := old[k]; !ok {
					old[k] = unknownVal
					changed = true
				}
			}
			if changed {
				work = append(work, succ)
			}
		}
	}
	return reached, envIn, sets
}

func sameSSAVal(a, b ssa.Value) bool {
	if a == b {
		return true
	}
	ca, okA := a.(*ssa.Const)
	cb, okB := b.(*ssa.Const)
	if okA && okB && a != unknownVal && b != unknownVal {
		if ca.Value == nil || cb.Value == nil {
			return ca.Value == nil && cb.Value == nil && types.Identical(ca.Type(), cb.Type())
		}
		return constant.Compare(ca.Value, token.EQL, cb.Value) && types.Identical(ca.Type(), cb.Type())
	}
	return false
}

func constReachFor(fn *ssa.Function, isTag func(ssa.Value) bool, domain []string, v string) map[*ssa.BasicBlock]bool {
	r, _ := constReachEnv(fn, isTag, domain, v)
	return r
}

// declaredConsts lists the string values of the package-level constants of the named type.
func declaredConsts(w *World, typeName string) map[string]string {
	out := map[string]string{} // value -> constant name
	scope := w.Types.Scope()
	for _, n := range scope.Names() {
		c, ok := scope.Lookup(n).(*types.Const)
		if !ok {
			continue
		}
		if nt, ok := c.Type().(*types.Named); ok && nt.Obj().Name() == typeName && nt.Obj().Pkg() == w.Types {
			if c.Val().Kind() == constant.String {
				out[constant.StringVal(c.Val())] = n
			} else {
				out[c.Val().ExactString()] = n
			}
		}
	}
	return out
}

func sortedKeys(m map[string]string) []string {
	var ks []string
	for k := range m {
		ks = append(ks, k)
	}
	sort.Strings(ks)
	return ks
}

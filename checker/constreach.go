package main

// constreach.go — finite-domain reachability: for a tag expression compared only against constants
// (a switch over declared constants, or an if/else chain), the set of tag values under which each
// basic block is reachable. Exhaustive over the finite domain {declared constants} ∪ {OTHER}.

import (
	"go/constant"
	"go/token"
	"go/types"
	"sort"
	"strings"

	"golang.org/x/tools/go/ssa"
)

const otherVal = "<other>"

type valSet map[string]bool

func (s valSet) clone() valSet {
	o := valSet{}
	for k := range s {
		o[k] = true
	}
	return o
}
func (s valSet) String() string {
	var ks []string
	for k := range s {
		ks = append(ks, k)
	}
	sort.Strings(ks)
	return "{" + strings.Join(ks, ",") + "}"
}
func (s valSet) equal(t valSet) bool {
	if len(s) != len(t) {
		return false
	}
	for k := range s {
		if !t[k] {
			return false
		}
	}
	return true
}
func setOf(xs ...string) valSet {
	s := valSet{}
	for _, x := range xs {
		s[x] = true
	}
	return s
}

// constString returns the string value of a constant operand.
func constString(v ssa.Value) (string, bool) {
	c, ok := v.(*ssa.Const)
	if !ok || c.Value == nil {
		return "", false
	}
	if c.Value.Kind() == constant.String {
		return constant.StringVal(c.Value), true
	}
	return c.Value.ExactString(), true
}

// constReach returns the set of tag values under which each block is reachable.
// isTag decides whether an SSA value denotes the tag.
func constReach(fn *ssa.Function, isTag func(ssa.Value) bool, domain []string) map[*ssa.BasicBlock]valSet {
	full := setOf(append(append([]string(nil), domain...), otherVal)...)
	state := map[*ssa.BasicBlock]valSet{}
	if len(fn.Blocks) == 0 {
		return state
	}
	state[fn.Blocks[0]] = full.clone()
	work := []*ssa.BasicBlock{fn.Blocks[0]}
	push := func(b *ssa.BasicBlock, s valSet) {
		old := state[b]
		if old == nil {
			state[b] = s.clone()
			work = append(work, b)
			return
		}
		changed := false
		for k := range s {
			if !old[k] {
				old[k] = true
				changed = true
			}
		}
		if changed {
			work = append(work, b)
		}
	}
	for len(work) > 0 {
		b := work[len(work)-1]
		work = work[:len(work)-1]
		s := state[b]
		if len(b.Instrs) == 0 {
			continue
		}
		iff, ok := b.Instrs[len(b.Instrs)-1].(*ssa.If)
		if !ok {
			for _, succ := range b.Succs {
				push(succ, s)
			}
			continue
		}
		cond, neg := stripNot(iff.Cond)
		refined := false
		if bo, ok := cond.(*ssa.BinOp); ok && (bo.Op == token.EQL || bo.Op == token.NEQ) {
			var k string
			var has bool
			if isTag(bo.X) {
				k, has = constString(bo.Y)
			} else if isTag(bo.Y) {
				k, has = constString(bo.X)
			}
			if has {
				eq := setOf()
				ne := s.clone()
				inDomain := false
				for _, d := range domain {
					if d == k {
						inDomain = true
					}
				}
				if s[k] {
					eq[k] = true
				}
				delete(ne, k)
				if !inDomain && s[otherVal] {
					// comparing against a constant outside the domain: OTHER may equal it
					eq[otherVal] = true
				}
				t, f := eq, ne
				if (bo.Op == token.NEQ) != neg {
					t, f = ne, eq
				}
				if len(t) > 0 {
					push(b.Succs[0], t)
				}
				if len(f) > 0 {
					push(b.Succs[1], f)
				}
				refined = true
			}
		}
		if !refined {
			for _, succ := range b.Succs {
				push(succ, s)
			}
		}
	}
	return state
}

// declaredConsts lists the string values of the package-level constants of the named type.
func declaredConsts(w *World, typeName string) map[string]string {
	out := map[string]string{} // value -> constant name
	scope := w.Types.Scope()
	for _, n := range scope.Names() {
		c, ok := scope.Lookup(n).(*types.Const)
		if !ok {
			continue
		}
		if nt, ok := c.Type().(*types.Named); ok && nt.Obj().Name() == typeName && nt.Obj().Pkg() == w.Types {
			if c.Val().Kind() == constant.String {
				out[constant.StringVal(c.Val())] = n
			} else {
				out[c.Val().ExactString()] = n
			}
		}
	}
	return out
}

func sortedKeys(m map[string]string) []string {
	var ks []string
	for k := range m {
		ks = append(ks, k)
	}
	sort.Strings(ks)
	return ks
}

package main

import "fmt"

func init() {
	register("C01", propMeta{
		Explanation: "Structural necessary conditions of 'flat search returns exactly the k nearest live vectors', decided on all paths of the flat index code: admission table of the scan loop (soft delete, id filter, threshold) over every state; ascending comparator; sanitizeK table and its use against the sorted slice; score provenance (Calculate(preprocessed query, stored vector of the same element)); Flush retention and ordering; Add pre-processing order; Remove marks the argument's id.",
		NotDecided:  "numerical equality of scores, tie handling, cosine normalisation accuracy.",
		Assumptions: []string{"roaring.Bitmap.Contains/Add/Clear behave as documented", "sort.Slice orders by less", "Distance implementations are checked under C18"},
	}, func(r *Run) {
		ruleErrProp(r, "C01.ERRPROP", "flat_index", "document_filter")
		k, err := kindByName(r.W, "flat")
		if err != nil {
			r.Unres("C01.KIND", "flat", err.Error())
			return
		}
		ruleSanitizeK(r, "C01.ORD.k")
		ruleScanADM(r, "C01.ADM", k, admSpec{DEL: true, SKIP: true, THR: true})
		ruleResultOrder(r, "C01.ORD.less", k)
		ruleTopK(r, "C01.TOPK", k)
		ruleProvenance(r, "C01.PROV", k)
		ruleFlushRetention(r, "C01.SEQ.flush", k)
		ruleRemoveMarks(r, "C01.REMOVE", k)
		ruleAddPreprocess(r, "C01.ADD", k)
		rulePipeline(r, "C01.PIPE", k.Execute, k.Single, "vector")
		ruleNodeLookup(r, "C01.NODE", k)
		ruleVecAtomicAndRevive(r, k) // remove + add history of the statement (C06 rules, flat instance)
		ruleCtorDistance(r, "C01.CTOR", k)
		ruleQueryPreprocessed(r, "C01.QUERY", k)
		ruleDistance(r, "C01.DIST") // "each reported score is the metric distance": distance.go is an anchor of this property
		ruleLimitAutocut(r, "C01")
		ruleDocumentFilter(r, "C01.FILTER")
		if ruleBuilders(r, "C01.BLD", k.SearchT) < 8 {
			r.add("C01.BLD", "floor", "-", "fewer than 8 builder methods on the flat search type", Floor)
		}
		r.FloorCheck("C01.ADM", 1)
		r.FloorCheck("C01.ORD.k", 1)
		r.FloorCheck("C01.ORD.less", 1)
		r.FloorCheck("C01.TOPK", 1)
	})

	register("C02", propMeta{
		Explanation: "The C01 rule set instantiated for all five vector kinds (flat, hnsw, ivf, pq, ivfpq): admission tables of every candidate loop, ascending result comparators, truncation by sanitizeK against the sorted slice, score provenance per kind, node-id lookup (unknown/removed id ⇒ error), Execute pipeline (aggregate → limit → autocut), Flush retention with parallel containers, Remove marks, pool discipline.",
		NotDecided:  "equivalence 'node query ≡ vector query' beyond provenance; flush-invariance of results as a behavioural equality; numeric score values.",
		Assumptions: []string{"roaring.Bitmap contracts", "sort.Slice orders by less", "container/heap keeps the Less-minimum at index 0"},
	}, func(r *Run) {
		ruleErrProp(r, "C02.ERRPROP", "flat_index", "hnsw_index", "ivf_index", "ivfpq_index", "pq_index", "index_search")
		ks, err := vecKinds(r.W)
		if err != nil {
			r.Unres("C02.KIND", "kinds", err.Error())
			return
		}
		ruleSanitizeK(r, "C02.ORD.k")
		for _, k := range ks {
			spec := admSpec{DEL: true, SKIP: true, THR: true}
			if k.Name == "hnsw" {
				spec.DEL = false // the soft-delete test of HNSW lives in the layer search (C02.ADM.hnsw-layer)
			}
			ruleScanADM(r, "C02.ADM", k, spec)
			ruleResultOrder(r, "C02.ORD.less", k)
			ruleTopK(r, "C02.TOPK", k)
			ruleProvenance(r, "C02.PROV", k)
			ruleFlushRetention(r, "C02.FLUSH", k)
			ruleRemoveMarks(r, "C02.REMOVE", k)
			rulePipeline(r, "C02.PIPE", k.Execute, k.Single, "vector")
			ruleNodeLookup(r, "C02.NODE", k)
			ruleVecAtomicAndRevive(r, k)
			ruleCtorDistance(r, "C02.CTOR", k)
			ruleQueryPreprocessed(r, "C02.QUERY", k)
		}
		ruleDistance(r, "C02.DIST")
		ruleAggregations(r, "C02") // multi-query combination rule: aggregation.go is an anchor of this property
		ruleLimitAutocut(r, "C02")
		ruleDocumentFilter(r, "C02.FILTER")
		nb := 0
		for _, k := range ks {
			nb += ruleBuilders(r, "C02.BLD", k.SearchT)
		}
		if nb < 40 {
			r.add("C02.BLD", "floor", "-", fmt.Sprintf("%d builder methods on the five vector search types, floor is 40", nb), Floor)
		}
		ruleHNSWResultGate(r, "C02.ADM.hnsw-layer")
		rulePools(r, "C02.POOL")
		r.FloorCheck("C02.ADM", 5)
		r.FloorCheck("C02.ORD.less", 5)
		r.FloorCheck("C02.TOPK", 5)
		r.FloorCheck("C02.PIPE", 5)
		r.FloorCheck("C02.REMOVE", 5)
		r.FloorCheck("C02.FLUSH", 5)
		r.FloorCheck("C02.NODE", 5)
	})
}

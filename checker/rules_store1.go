package main

// rules_store1.go — persistent store: template/instance separation, flush / search / compaction ordering (C08).

import (
	"fmt"
	"go/token"
	"go/types"
	"sort"
	"strings"

	"golang.org/x/tools/go/ssa"
)

type storeKind struct {
	T        types.Type // *PersistentHybridIndex
	SearchT  types.Type
	Execute  *ssa.Function
	Flush    *ssa.Function
	Close    *ssa.Function
	Open     *ssa.Function
	FlushAll *ssa.Function // flushMemtables
	FlushOne *ssa.Function // flushMemtable
	Compact  *ssa.Function // compactSegments
	WriteSeg *ssa.Function // writeIndexToSegment
	Worker   *ssa.Function // flushWorker
	GetIndex *ssa.Function
}

func storeKindOf(w *World) (*storeKind, error) {
	open := w.Fn("OpenPersistentHybridIndex")
	if open == nil {
		return nil, fmt.Errorf("OpenPersistentHybridIndex not found")
	}
	k := &storeKind{Open: open}
	k.T = open.Signature.Results().At(0).Type()
	k.Flush, k.Close = w.Method(k.T, "Flush"), w.Method(k.T, "Close")
	ns := w.Method(k.T, "NewSearch")
	if k.Flush == nil || k.Close == nil || ns == nil {
		return nil, fmt.Errorf("store Flush/Close/NewSearch missing")
	}
	hs := w.Iface("HybridSearch")
	allInstrs(ns, func(in ssa.Instruction) {
		if mi, ok := in.(*ssa.MakeInterface); ok && hs != nil && types.Implements(mi.X.Type(), hs) {
			k.SearchT = mi.X.Type()
		}
	})
	if k.SearchT == nil {
		return nil, fmt.Errorf("store search type not found")
	}
	k.Execute = w.Method(k.SearchT, "Execute")
	// role discovery among the store's methods
	for _, fn := range w.Funcs {
		// the store's methods, and plain functions (a segment writer that needs only the configuration may be one)
		if fn.Signature.Recv() != nil && !types.Identical(fn.Signature.Recv().Type(), k.T) {
			continue
		}
		if fn.Parent() != nil || (fn.Signature.Recv() == nil && fn.Synthetic != "") {
			continue
		}
		plain := fn.Signature.Recv() == nil
		creates, writesTo, regs, dels, takesMt, takesIdx := 0, 0, 0, 0, false, false
		for i := 0; i < fn.Signature.Params().Len(); i++ {
			ts := tstr(fn.Signature.Params().At(i).Type(), qual)
			if ts == "*memtable" {
				takesMt = true
			}
			if ts == "HybridSearchIndex" {
				takesIdx = true
			}
			// a narrower interface the hybrid index satisfies and that still offers WriteTo
			if it, ok := fn.Signature.Params().At(i).Type().Underlying().(*types.Interface); ok && it.NumMethods() > 0 {
				if hsi := w.Iface("HybridSearchIndex"); hsi != nil && types.Implements(hsi, it) {
					for m := 0; m < it.NumMethods(); m++ {
						if it.Method(m).Name() == "WriteTo" {
							takesIdx = true
						}
					}
				}
			}
		}
		allInstrs(fn, func(in ssa.Instruction) {
			c, ok := in.(ssa.CallInstruction)
			if !ok {
				return
			}
			n := calleeName(c.Common())
			switch {
			case n == "os.Create":
				creates++
			case c.Common().IsInvoke() && c.Common().Method.Name() == "WriteTo":
				writesTo++
			case strings.HasSuffix(n, "(*"+cometPath+".segmentManager).add"):
				regs++
			case strings.HasSuffix(n, ".deleteSegment"):
				dels++
			}
		})
		switch {
		case creates > 0 && writesTo > 0 && takesMt:
			k.FlushOne = fn
		case creates > 0 && writesTo > 0 && takesIdx:
			k.WriteSeg = fn
		case plain:
		case dels > 0 && k.Compact == nil:
			k.Compact = fn // provisional: refined below
		}
	}
	// the compaction routine is the store method that writes a merged segment through WriteSeg (its swap phase may live
	// in a helper of its own)
	if k.WriteSeg != nil {
		for _, fn := range w.Funcs {
			if fn.Signature.Recv() == nil || !types.Identical(fn.Signature.Recv().Type(), k.T) || fn == k.WriteSeg {
				continue
			}
			if len(callsIn(fn, func(cc *ssa.CallCommon) bool { return staticCallee(cc) == k.WriteSeg })) > 0 {
				k.Compact = fn
			}
		}
	}
	if k.FlushOne != nil {
		for _, fn := range w.Funcs {
			if fn.Signature.Recv() == nil || !types.Identical(fn.Signature.Recv().Type(), k.T) || fn == k.FlushOne {
				continue
			}
			for _, c := range callsIn(fn, func(cc *ssa.CallCommon) bool { return staticCallee(cc) == k.FlushOne }) {
				_ = c
				k.FlushAll = fn
			}
		}
	}
	// the flush worker: the goroutine body started by Open that calls FlushAll
	for _, fn := range w.Funcs {
		if fn.Signature.Recv() == nil || !types.Identical(fn.Signature.Recv().Type(), k.T) || fn == k.Flush {
			continue
		}
		hasSelect := false
		allInstrs(fn, func(in ssa.Instruction) {
			if _, ok := in.(*ssa.Select); ok {
				hasSelect = true
			}
		})
		if hasSelect && k.FlushAll != nil && len(callsIn(fn, func(cc *ssa.CallCommon) bool { return staticCallee(cc) == k.FlushAll })) > 0 {
			k.Worker = fn
		}
	}
	for _, fn := range w.Funcs {
		if fnShortName(fn) == "getIndex" && fn.Signature.Recv() != nil {
			k.GetIndex = fn
		}
	}
	if k.Execute == nil || k.FlushOne == nil || k.FlushAll == nil || k.Compact == nil || k.WriteSeg == nil || k.Worker == nil || k.GetIndex == nil {
		return nil, fmt.Errorf("store roles unresolved (Execute=%v flushOne=%v flushAll=%v compact=%v writeSeg=%v worker=%v getIndex=%v)",
			k.Execute != nil, k.FlushOne != nil, k.FlushAll != nil, k.Compact != nil, k.WriteSeg != nil, k.Worker != nil, k.GetIndex != nil)
	}
	return k, nil
}

// segmentSearchFn: the routine that searches one segment — a goroutine body started by Execute (closure or method of the
// search object) that loads the segment's index.
func segmentSearchFn(w *World, k *storeKind) *ssa.Function {
	var seg *ssa.Function
	loads := func(fn *ssa.Function) bool {
		return len(callsIn(fn, func(cc *ssa.CallCommon) bool { return staticCallee(cc) == k.GetIndex })) > 0
	}
	for _, fn := range w.Funcs {
		if fn.Parent() == k.Execute && loads(fn) {
			seg = fn
		}
	}
	if seg != nil {
		return seg
	}
	// go s.searchSegment(seg, …)
	allInstrs(k.Execute, func(in ssa.Instruction) {
		if g, ok := in.(*ssa.Go); ok {
			if fn := staticCallee(g.Common()); fn != nil && fn.Pkg == w.SPkg && loads(fn) {
				seg = fn
			}
		}
	})
	return seg
}

// templateOrigin traces an index-typed value back to a template field (StorageConfig.*IndexTemplate, memtableQueue.*Template)
// through parameters (to every static call site, depth-limited) and phis. It returns a description when a template is
// reached without passing through a producer call (anything that is not a plain field load / parameter).
func templateOrigin(w *World, v ssa.Value, depth int, seen map[ssa.Value]bool) string {
	if depth > 4 || seen[v] {
		return ""
	}
	seen[v] = true
	switch x := v.(type) {
	case *ssa.UnOp:
		if x.Op == token.MUL {
			if fa, ok := x.X.(*ssa.FieldAddr); ok {
				f := fieldName(fa.X.Type(), fa.Field)
				if strings.Contains(f, "Template") {
					return namedTypeName(fa.X.Type()) + "." + f
				}
			}
		}
	case *ssa.Phi:
		for _, e := range x.Edges {
			if s := templateOrigin(w, e, depth, seen); s != "" {
				return s
			}
		}
	case *ssa.Parameter:
		fn := x.Parent()
		idx := paramIndex(x)
		for _, g := range w.Funcs {
			for _, call := range callsIn(g, func(cc *ssa.CallCommon) bool { return staticCallee(cc) == fn }) {
				args := call.Common().Args
				if idx < len(args) {
					if s := templateOrigin(w, args[idx], depth+1, seen); s != "" {
						return s + " (via " + w.Name(g) + ")"
					}
				}
			}
		}
		// closures: free variables bound at MakeClosure are not parameters; handled by FreeVar below
	case *ssa.FreeVar:
		fn := x.Parent()
		for i, fv := range fn.FreeVars {
			if fv != x {
				continue
			}
			for _, g := range w.Funcs {
				allInstrs(g, func(in ssa.Instruction) {
					if mc, ok := in.(*ssa.MakeClosure); ok && mc.Fn == ssa.Value(fn) && i < len(mc.Bindings) {
						_ = mc
					}
				})
			}
		}
	case *ssa.MakeInterface:
		return templateOrigin(w, x.X, depth, seen)
	case *ssa.ChangeInterface:
		return templateOrigin(w, x.X, depth, seen)
	}
	return ""
}

// ruleTemplates: C08.TMPL.
func ruleTemplates(r *Run, rule string) {
	w := r.W
	r.Doc(rule, "memtables and loaded segments share one set of index objects: a segment (re)load overwrites newer acknowledged writes, every part answers from the same data")
	ctor := w.Fn("NewHybridSearchIndex")
	if ctor == nil {
		r.Unres(rule, "ctor", "NewHybridSearchIndex not found")
		return
	}
	n := 0
	for _, fn := range w.Funcs {
		for _, call := range callsIn(fn, func(cc *ssa.CallCommon) bool { return staticCallee(cc) == ctor }) {
			// only the storage layer's live-instance sinks
			pos := w.Fset.Position(call.Pos())
			if !strings.Contains(pos.Filename, "storage") {
				continue
			}
			n++
			name := w.Name(fn)
			r.Analysed(name)
			var origins []string
			for _, a := range call.Common().Args {
				if s := templateOrigin(w, a, 0, map[ssa.Value]bool{}); s != "" {
					origins = append(origins, s)
				}
			}
			site := w.InstrPos(call) + " " + name
			if len(origins) > 0 {
				r.Bad(rule, "tmpl:"+name, site, "a live hybrid index is built directly over template objects ("+strings.Join(dedup(origins), "; ")+"): no fresh instance is produced")
			} else {
				r.Ok(rule, "tmpl:"+name, site, "the hybrid index is built over fresh sub-index instances")
			}
		}
	}
	if n < 3 {
		r.add(rule, "tmpl:floor", "-", fmt.Sprintf("%d live-instance constructions in the storage layer, floor is 3", n), Floor)
	}
}

// ruleFlushOrdering: C08.SEQ.flush.
func ruleFlushOrdering(r *Run, rule string, k *storeKind) {
	w := r.W
	r.Doc(rule, "a memtable leaves the queue before its segment is registered (documents in neither), or a failed flush drops it")
	fa := k.FlushAll
	name := w.Name(fa)
	r.Analysed(name, w.Name(k.FlushOne))
	c := NewCanon(w)
	var flushCall *ssa.Call
	for _, call := range callsIn(fa, func(cc *ssa.CallCommon) bool { return staticCallee(cc) == k.FlushOne }) {
		flushCall = call.(*ssa.Call)
	}
	var removes []*ssa.Call
	allInstrs(fa, func(in ssa.Instruction) {
		if call, ok := in.(*ssa.Call); ok && strings.HasSuffix(calleeName(call.Common()), "(*"+cometPath+".memtableQueue).remove") {
			removes = append(removes, call)
		}
	})
	site := w.Pos(fa.Pos()) + " " + name
	if flushCall == nil || len(removes) == 0 {
		r.Bad(rule, "flush:drop-after-register", site, "flushMemtables does not flush-then-remove")
		return
	}
	for _, rm := range removes {
		sameMt := c.S(rm.Call.Args[1]) == c.S(effArgs(flushCall.Common())[1])
		// reached only through the success branch of the flush
		okBranch := false
		for _, ref := range *flushCall.Referrers() {
			if bo, ok := ref.(*ssa.BinOp); ok {
				for _, r2 := range *bo.Referrers() {
					if iff, ok := r2.(*ssa.If); ok {
						succ := iff.Block().Succs[1]
						if bo.Op == token.EQL {
							succ = iff.Block().Succs[0]
						}
						if succ == rm.Block() || succ.Dominates(rm.Block()) {
							okBranch = true
						}
					}
				}
			}
		}
		r.Check(sameMt && okBranch && domInstr(flushCall, rm), rule, "flush:drop-after-register", w.InstrPos(rm)+" "+name,
			"the memtable is removed from the queue only after its flush (segment registration) succeeded", "the memtable is removed from the queue before / regardless of the success of its flush")
	}
	// every frozen memtable is flushed: no iteration skips the flush
	loop := innermostLoop(loopsOf(fa), flushCall.Block())
	if loop != nil {
		rows, _ := iterationPaths(loop, func(ssa.Value) (string, bool) { return "", false })
		skips := 0
		for _, pr := range rows {
			if pr.P.End == EndStop && pr.P.Blocks[len(pr.P.Blocks)-1] == loop.Header && !pr.P.Has(flushCall) {
				skips++
			}
		}
		r.Check(skips == 0, rule, "flush:every-frozen", site, "every frozen memtable of the snapshot is flushed (or the error is returned)", fmt.Sprintf("%d paths skip a frozen memtable and still report success", skips))
		// the loop ranges over the frozen snapshot
		okSnap := false
		allInstrs(fa, func(in ssa.Instruction) {
			if ia, ok := in.(*ssa.IndexAddr); ok && c.idxOf(ia.X, ia.Index) == "range" && strings.Contains(c.S(ia.X), "listFrozen(") {
				okSnap = true
			}
		})
		r.Check(okSnap, rule, "flush:snapshot", site, "iterates the frozen-memtable snapshot", "does not iterate listFrozen()")
		// a success return that does not go through the loop is taken only when the snapshot is empty
		early := ""
		paths, trunc := enumPaths(fa.Blocks[0], walkCfg{MaxVisits: 1, MaxPaths: 4000 * pathScale, Decide: decideOnPath})
		if trunc {
			early = "(too many paths)"
		}
		for _, pth := range paths {
			if pth.End != EndReturn || !pth.Feasible() || pathErrClass(pth) == ErrNonNil {
				continue
			}
			through := false
			for _, b := range pth.Blocks {
				if b == loop.Header {
					through = true
				}
			}
			if through {
				continue
			}
			emptyDecided := false
			for _, d := range pth.Decisions {
				if x, nonEmpty, ok := nonEmptyCmp(c, d.Cond); ok && strings.Contains(x, "listFrozen(") {
					if d.Taken != nonEmpty { // the decision says "empty"
						emptyDecided = true
					}
				}
			}
			if !emptyDecided {
				early = w.InstrPos(pth.Ret)
			}
		}
		r.Check(early == "", rule, "flush:early-return", site, "success is reported without entering the flush loop only when nothing is frozen", "the success return at "+early+" is reachable with frozen memtables left unflushed: Flush acknowledges what was never written")
	}
	// flushMemtable: registration on every success path, after WriteTo and the closes
	fo := k.FlushOne
	isReg := func(in ssa.Instruction) bool {
		call, ok := in.(*ssa.Call)
		return ok && strings.HasSuffix(calleeName(call.Common()), "(*"+cometPath+".segmentManager).add")
	}
	esc := successEscapesWrap(fo, isReg)
	r.Check(esc == nil, rule, "flush:registers", w.Pos(fo.Pos())+" "+w.Name(fo), "every success return of the single-memtable flush follows segmentManager.add", "a success return is reachable without registering the segment")
	var wt ssa.Instruction
	allInstrs(fo, func(in ssa.Instruction) {
		if call, ok := in.(*ssa.Call); ok && call.Call.IsInvoke() && call.Call.Method.Name() == "WriteTo" {
			wt = in
		}
	})
	okOrder := wt != nil
	allInstrs(fo, func(in ssa.Instruction) {
		if isReg(in) && wt != nil && !domInstr(wt, in) {
			okOrder = false
		}
	})
	r.Check(okOrder, rule, "flush:write-before-register", w.Pos(fo.Pos())+" "+w.Name(fo), "the segment is registered after its files were written", "the segment is registered before WriteTo")
	// the index that is written is the frozen memtable's
	if wt != nil {
		src := c2s(w, wt.(*ssa.Call).Call.Value)
		r.Check(strings.Contains(src, ".flush(P1)"), rule, "flush:source", w.InstrPos(wt)+" "+w.Name(fo), "the written index is the one handed out by the frozen memtable", "written index is "+src)
	}
}

func c2s(w *World, v ssa.Value) string { return NewCanon(w).S(v) }

// ruleSearchOrdering: C08.SEQ.search.
func ruleSearchOrdering(r *Run, rule string, k *storeKind) {
	w := r.W
	fn := k.Execute
	name := w.Name(fn)
	r.Analysed(name)
	r.Doc(rule, "a memtable flushed between the two listings is in neither (schedule-dependent loss), or some memtable / segment is never searched")
	c := NewCanon(w)
	var ml, sl *ssa.Call
	allInstrs(fn, func(in ssa.Instruction) {
		if call, ok := in.(*ssa.Call); ok {
			n := calleeName(call.Common())
			if strings.HasSuffix(n, "(*"+cometPath+".memtableQueue).list") {
				ml = call
			}
			if strings.HasSuffix(n, "(*"+cometPath+".segmentManager).list") {
				sl = call
			}
		}
	})
	site := w.Pos(fn.Pos()) + " " + name
	if ml == nil || sl == nil {
		r.Bad(rule, "search:listings", site, "the search does not list both memtables and segments")
		return
	}
	r.Check(domInstr(ml, sl), rule, "search:memtables-first", w.InstrPos(sl)+" "+name, "memtables are listed before segments (a flush in between moves data towards the side listed later)", "segments are listed before memtables: a memtable flushed in between is in neither listing")
	// memtable loop covers every index of the snapshot
	mls := c.S(ml)
	cover := false
	allInstrs(fn, func(in ssa.Instruction) {
		ia, ok := in.(*ssa.IndexAddr)
		if !ok || c.S(ia.X) != mls {
			return
		}
		if isRangeIndex(ia.Index) {
			cover = true
			return
		}
		if ph, ok := ia.Index.(*ssa.Phi); ok {
			// i := len-1; i >= 0; i--   or   i := 0; i < len; i++
			var initDown, stepDown, initUp, stepUp, condDown, condUp bool
			for _, e := range ph.Edges {
				s := c.S(e)
				if s == "(len("+mls+")-c(1))" {
					initDown = true
				}
				if isZeroConst(e) {
					initUp = true
				}
				if b, ok := e.(*ssa.BinOp); ok && b.X == ssa.Value(ph) && c.S(b.Y) == "c(1)" {
					if b.Op == token.SUB {
						stepDown = true
					}
					if b.Op == token.ADD {
						stepUp = true
					}
				}
			}
			for _, ref := range *ph.Referrers() {
				if b, ok := ref.(*ssa.BinOp); ok && b.X == ssa.Value(ph) {
					if b.Op == token.GEQ && isZeroConst(b.Y) {
						condDown = true
					}
					if b.Op == token.LSS && c.S(b.Y) == "len("+mls+")" {
						condUp = true
					}
				}
			}
			if (initDown && stepDown && condDown) || (initUp && stepUp && condUp) {
				cover = true
			}
		}
	})
	r.Check(cover, rule, "search:all-memtables", site, "every memtable of the snapshot is searched (full-coverage loop)", "the memtable loop does not cover the whole snapshot")
	sls := c.S(sl)
	coverS := false
	allInstrs(fn, func(in ssa.Instruction) {
		if ia, ok := in.(*ssa.IndexAddr); ok && c.S(ia.X) == sls && isRangeIndex(ia.Index) {
			coverS = true
		}
		// for i := 0; i < len(segments); i++
		if ia, ok := in.(*ssa.IndexAddr); ok && c.S(ia.X) == sls && !isRangeIndex(ia.Index) && isAllIndex(ia.Index) {
			if b := countedLoopBound(ia.Index.(*ssa.Phi)); b != nil && c.S(b) == "len("+sls+")" {
				coverS = true
			}
		}
	})
	r.Check(coverS, rule, "search:all-segments", site, "every segment of the snapshot is searched", "the segment loop does not range over the whole snapshot")
	// the final cut: merge → sort → truncate to k
	var merge, srt ssa.Instruction
	allInstrs(fn, func(in ssa.Instruction) {
		if call, ok := in.(*ssa.Call); ok {
			if g := staticCallee(call.Common()); g != nil {
				switch fnShortName(g) {
				case "mergeResults":
					merge = in
				case "sortResultsByScore":
					srt = in
				}
			}
		}
	})
	r.Check(merge != nil && srt != nil && domInstr(merge, srt), rule, "search:merge-sort", site, "results are merged per id, then sorted", "merge/sort of the collected results missing or misordered")
}

// ruleCompactOrdering: C08.SEQ.compact + C08.MERGE.
func ruleCompactOrdering(r *Run, p string, k *storeKind) {
	w := r.W
	fn := k.Compact
	name := w.Name(fn)
	r.Analysed(name, w.Name(k.WriteSeg))
	r.Doc(p+".SEQ.compact", "a crash or a concurrent search during compaction loses flushed data (old segments gone before the new one is durable and registered)")
	r.Doc(p+".MERGE", "compaction deletes segments whose documents never reached the merged segment")
	// a step is an instruction of the compaction function, or of a method of the store it calls (one level: the swap
	// phase extracted into a helper); `via` is then the call site in the compaction function
	type step struct {
		via ssa.Instruction
		in  ssa.Instruction
	}
	var write, add, rem, del, ownCleanup []step
	var getIdx []*ssa.Call
	var collect func(g *ssa.Function, via ssa.Instruction)
	collect = func(g *ssa.Function, via ssa.Instruction) {
		allInstrs(g, func(in ssa.Instruction) {
			call, ok := in.(*ssa.Call)
			if !ok {
				return
			}
			n := calleeName(call.Common())
			callee := staticCallee(call.Common())
			switch {
			case callee == k.WriteSeg:
				write = append(write, step{via, in})
			case strings.HasSuffix(n, "(*"+cometPath+".segmentManager).add"):
				add = append(add, step{via, in})
			case strings.HasSuffix(n, "(*"+cometPath+".segmentManager).remove"):
				rem = append(rem, step{via, in})
			case strings.HasSuffix(n, ".deleteSegment"):
				// removing the files of the segment being written (the freshly allocated id) on a path that never
				// registers it is cleanup of own output, not a deletion of flushed data
				if cv := NewCanon(w); len(call.Call.Args) > 1 && strings.Contains(cv.S(call.Call.Args[1]), "nextSegmentID(") {
					ownCleanup = append(ownCleanup, step{via, in})
				} else {
					del = append(del, step{via, in})
				}
			case callee == k.GetIndex:
				if via == nil {
					getIdx = append(getIdx, call)
				}
			case via == nil && callee != nil && callee != fn && callee.Pkg == w.SPkg && callee.Signature.Recv() != nil &&
				types.Identical(callee.Signature.Recv().Type(), k.T):
				collect(callee, in)
				r.Analysed(w.Name(callee))
			}
		})
	}
	collect(fn, nil)
	// a ≺ b on every execution
	before := func(a, b step) bool {
		switch {
		case a.via == nil && b.via == nil:
			return domInstr(a.in, b.in)
		case a.via == nil:
			return domInstr(a.in, b.via)
		case b.via == nil:
			return domInstr(a.via, b.in)
		case a.via == b.via:
			return domInstr(a.in, b.in)
		}
		return domInstr(a.via, b.via)
	}
	site := w.Pos(fn.Pos()) + " " + name
	if len(write) != 1 || len(add) != 1 || len(rem) == 0 || len(del) == 0 {
		r.Bad(p+".SEQ.compact", "compact:steps", site, fmt.Sprintf("compaction steps not found in the expected form: write=%d register(add)=%d unregister(remove)=%d delete=%d", len(write), len(add), len(rem), len(del)))
	} else {
		ok := before(write[0], add[0])
		for _, x := range rem {
			ok = ok && before(add[0], x)
		}
		for _, x := range del {
			ok = ok && before(add[0], x) && before(write[0], x)
			okRem := false
			for _, y := range rem {
				if before(y, x) {
					okRem = true
				}
			}
			ok = ok && okRem
		}
		// own-output cleanup never follows the registration of that output
		for _, x := range ownCleanup {
			if len(add) == 1 {
				if a := add[0]; x.via == nil && a.via == nil {
					if reachAvoid(fn, a.in, func(in ssa.Instruction) bool { return in == x.in }, func(ssa.Instruction) bool { return false }) != nil {
						ok = false
					}
				} else {
					ok = false
				}
			}
		}
		r.Check(ok, p+".SEQ.compact", "compact:order", site, "write merged segment ≺ register it ≺ unregister inputs ≺ delete input files", "compaction steps are not ordered write ≺ register ≺ unregister ≺ delete")
		// the write's error is checked before registration
		checked := false
		for _, ref := range *write[0].in.(*ssa.Call).Referrers() {
			if _, ok := ref.(*ssa.BinOp); ok {
				checked = true
			}
		}
		r.Check(checked, p+".SEQ.compact", "compact:write-checked", w.InstrPos(write[0].in)+" "+name, "a failed write of the merged segment aborts the compaction", "the error of writing the merged segment is ignored")
		// removed / deleted ids are those of the input segments
		c := NewCanon(w)
		okIDs := true
		for _, x := range append(append([]step{}, rem...), del...) {
			s := c.S(x.in.(*ssa.Call).Call.Args[1])
			if x.via != nil {
				// callee-relative name → name at the call site
				if t, ok := translatePath(c, s, x.via.(*ssa.Call).Call.Args, nil); ok {
					s = t
				}
			}
			if s != "P1[range].id" {
				okIDs = false
			}
		}
		r.Check(okIDs, p+".SEQ.compact", "compact:ids", site, "only the input segments are unregistered / deleted", "unregistered / deleted ids are not the inputs' ids")
	}
	// MERGE: the index returned by getIndex of each input flows into the merged index
	for i, g := range getIdx {
		used := false
		for _, ref := range *g.Referrers() {
			if ex, ok := ref.(*ssa.Extract); ok && ex.Index == 0 && len(*ex.Referrers()) > 0 {
				used = true
			}
		}
		key := fmt.Sprintf("merge:%s:getIndex#%d:result-discarded", name, i)
		if len(getIdx) == 1 {
			key = "merge:" + name + ":getIndex#result-discarded"
		}
		r.Check(used, p+".MERGE", key, w.InstrPos(g)+" "+name, "each input segment's index is consumed by the merge", "the index loaded from each input segment is discarded: the merged segment never receives the inputs' documents, yet the inputs are deleted")
	}
	if len(getIdx) == 0 {
		r.Bad(p+".MERGE", "merge:"+name+":inputs-not-read", site, "compaction never loads its input segments")
	}
}

func sortInstrs(xs []ssa.Instruction) {
	sort.Slice(xs, func(i, j int) bool { return xs[i].Pos() < xs[j].Pos() })
}

package main

// rules_meta.go — metadata index rules (C04, parts of C06).

import (
	"fmt"
	"go/constant"
	"go/token"
	"go/types"
	"math/bits"
	"sort"
	"strings"

	"golang.org/x/tools/go/ssa"
)

type metaKind struct {
	IndexT  types.Type
	SearchT types.Type
	Execute *ssa.Function
	Add     *ssa.Function
	Remove  *ssa.Function
}

func metaKindOf(w *World) (*metaKind, error) {
	mi, ms := w.Iface("MetadataIndex"), w.Iface("MetadataSearch")
	if mi == nil || ms == nil {
		return nil, fmt.Errorf("MetadataIndex/MetadataSearch interfaces not found")
	}
	impls := w.Implementers(mi)
	if len(impls) != 1 {
		return nil, fmt.Errorf("expected one MetadataIndex implementer, found %d", len(impls))
	}
	k := &metaKind{IndexT: impls[0]}
	ns := w.Method(k.IndexT, "NewSearch")
	if ns == nil {
		return nil, fmt.Errorf("NewSearch missing")
	}
	allInstrs(ns, func(in ssa.Instruction) {
		if x, ok := in.(*ssa.MakeInterface); ok && types.Implements(x.X.Type(), ms) {
			k.SearchT = x.X.Type()
		}
	})
	if k.SearchT == nil {
		return nil, fmt.Errorf("concrete metadata search type not found")
	}
	k.Execute = w.Method(k.SearchT, "Execute")
	k.Add, k.Remove = w.Method(k.IndexT, "Add"), w.Method(k.IndexT, "Remove")
	if k.Execute == nil || k.Add == nil || k.Remove == nil {
		return nil, fmt.Errorf("Execute/Add/Remove missing")
	}
	for _, f := range []string{"allDocs", "categorical", "numeric"} {
		if !hasField(k.IndexT, f) {
			return nil, fmt.Errorf("metadata index has no field %s", f)
		}
	}
	return k, nil
}

// metaQueryFuncs: functions below the metadata search Execute (same package) that return a *roaring.Bitmap.
func metaQueryFuncs(w *World, k *metaKind) []*ssa.Function {
	seen := map[*ssa.Function]bool{}
	var out []*ssa.Function
	var visit func(fn *ssa.Function, d int)
	visit = func(fn *ssa.Function, d int) {
		if seen[fn] || d > 5 {
			return
		}
		seen[fn] = true
		res := fn.Signature.Results()
		if res.Len() > 0 && isRoaringBitmapPtr(res.At(0).Type()) {
			out = append(out, fn)
		}
		for _, call := range callsIn(fn, func(c *ssa.CallCommon) bool { return staticCallee(c) != nil }) {
			g := staticCallee(call.Common())
			if g.Pkg == w.SPkg {
				visit(g, d+1)
			}
		}
	}
	visit(k.Execute, 0)
	sort.Slice(out, func(i, j int) bool { return w.Name(out[i]) < w.Name(out[j]) })
	return out
}

type freshness int

const (
	fFresh freshness = iota
	fOwned
	fUnknown
)

// freshOf classifies where a bitmap value comes from: fresh storage (New, BitmapOf, Clone, CompareValue,
// a comet function that returns only fresh bitmaps) or index-owned storage (a field / map element of the index,
// BSI.GetExistenceBitmap).
func freshOf(w *World, v ssa.Value, memo map[*ssa.Function]freshness, depth int) (freshness, string) {
	c := NewCanon(w)
	seen := map[ssa.Value]bool{}
	var rec func(v ssa.Value, d int) (freshness, string)
	rec = func(v ssa.Value, d int) (freshness, string) {
		if seen[v] {
			return fFresh, ""
		}
		seen[v] = true
		if d > 12 {
			return fUnknown, "value flow too deep"
		}
		switch x := v.(type) {
		case *ssa.Const:
			return fFresh, ""
		case *ssa.Phi:
			for _, e := range x.Edges {
				if f, why := rec(e, d+1); f != fFresh {
					return f, why
				}
			}
			return fFresh, ""
		case *ssa.Extract:
			return rec(x.Tuple, d+1)
		case *ssa.Call:
			n := calleeName(x.Common())
			switch {
			case n == "github.com/RoaringBitmap/roaring.New", n == "github.com/RoaringBitmap/roaring.NewBitmap", n == "github.com/RoaringBitmap/roaring.BitmapOf",
				n == roaringBitmap+"Clone", strings.HasSuffix(n, "roaring64.BSI).CompareValue"), strings.HasSuffix(n, "BSI).CompareValue"),
				n == "github.com/RoaringBitmap/roaring.And", n == "github.com/RoaringBitmap/roaring.Or", n == "github.com/RoaringBitmap/roaring.AndNot",
				n == "github.com/RoaringBitmap/roaring.FastOr", n == "github.com/RoaringBitmap/roaring.FastAnd":
				return fFresh, ""
			case strings.HasSuffix(n, "BSI).GetExistenceBitmap"):
				return fOwned, "BSI.GetExistenceBitmap() returns the BSI's internal bitmap (" + w.InstrPos(x) + ")"
			}
			if g := staticCallee(x.Common()); g != nil && g.Pkg == w.SPkg {
				if f, ok := memo[g]; ok {
					if f != fFresh {
						return f, "result of " + w.Name(g) + " is not fresh"
					}
					return fFresh, ""
				}
				memo[g] = fFresh // optimistic for recursion
				worst := fFresh
				why := ""
				for _, ret := range returnsOf(g) {
					if len(ret.Results) == 0 {
						continue
					}
					f, y := freshOf(w, resultValue(ret, 0), memo, depth+1)
					if f != fFresh {
						worst, why = f, y
					}
				}
				memo[g] = worst
				return worst, why
			}
			return fUnknown, "result of " + n
		case *ssa.Lookup:
			return fOwned, "map element " + c.S(x) + " is index-owned storage (" + w.InstrPos(x) + ")"
		case *ssa.UnOp:
			if x.Op == token.MUL {
				if a, ok := x.X.(*ssa.Alloc); ok {
					worst := fFresh
					why := ""
					for _, ref := range *a.Referrers() {
						if st, ok := ref.(*ssa.Store); ok && st.Addr == ssa.Value(a) {
							if f, y := rec(st.Val, d+1); f != fFresh {
								worst, why = f, y
							}
						}
					}
					return worst, why
				}
				return fOwned, "loaded from " + c.S(x) + " (" + w.InstrPos(x) + ")"
			}
		case *ssa.Parameter:
			return fUnknown, "parameter " + x.Name()
		}
		return fUnknown, "origin " + c.S(v)
	}
	return rec(v, 0)
}

var roaringMutators = map[string]bool{"And": true, "Or": true, "AndNot": true, "Xor": true, "Add": true, "Remove": true, "Clear": true,
	"AddMany": true, "AddRange": true, "RemoveRange": true, "Flip": true, "CheckedAdd": true, "CheckedRemove": true, "UnmarshalBinary": true, "RunOptimize": true}

// ruleMetaFresh: query functions hand out only fresh bitmaps and mutate only fresh bitmaps.
func ruleMetaFresh(r *Run, rule string, k *metaKind) {
	w := r.W
	r.Doc(rule, "a query mutates index-owned bitmaps in place: later answers are wrong and readers race under RLock")
	fns := metaQueryFuncs(w, k)
	memo := map[*ssa.Function]freshness{}
	nret, nmut := 0, 0
	for _, fn := range fns {
		name := w.Name(fn)
		r.Analysed(name)
		for i, ret := range returnsOf(fn) {
			if classifyErr(ret) == ErrNonNil {
				continue
			}
			nret++
			f, why := freshOf(w, resultValue(ret, 0), memo, 0)
			key := fmt.Sprintf("fresh:%s:return#%d", name, i)
			site := w.InstrPos(ret) + " " + name
			switch f {
			case fFresh:
				r.Ok(rule, key, site, "returned bitmap originates in New/BitmapOf/Clone/CompareValue")
			case fOwned:
				r.Bad(rule, key, site, "returned bitmap aliases index-owned storage: "+why)
			default:
				r.Und(rule, key, site, "origin of the returned bitmap could not be classified: "+why)
			}
		}
	}
	// mutator calls in every function below Execute
	seen := map[*ssa.Function]bool{}
	var visit func(fn *ssa.Function, d int)
	visit = func(fn *ssa.Function, d int) {
		if seen[fn] || d > 5 {
			return
		}
		seen[fn] = true
		idx := 0
		allInstrs(fn, func(in ssa.Instruction) {
			call, ok := in.(*ssa.Call)
			if !ok {
				return
			}
			n := calleeName(call.Common())
			if strings.HasPrefix(n, roaringBitmap) && roaringMutators[strings.TrimPrefix(n, roaringBitmap)] {
				nmut++
				idx++
				f, why := freshOf(w, call.Call.Args[0], memo, 0)
				key := fmt.Sprintf("fresh:%s:%s#%d", w.Name(fn), strings.TrimPrefix(n, roaringBitmap), idx)
				site := w.InstrPos(call) + " " + w.Name(fn)
				switch f {
				case fFresh:
					r.Ok(rule, key, site, "in-place "+strings.TrimPrefix(n, roaringBitmap)+" on a fresh bitmap")
				case fOwned:
					r.Bad(rule, key, site, "in-place "+strings.TrimPrefix(n, roaringBitmap)+" on index-owned storage under the read lock: "+why)
				default:
					r.Und(rule, key, site, "receiver of the in-place operation could not be classified: "+why)
				}
			}
			if g := staticCallee(call.Common()); g != nil && g.Pkg == w.SPkg {
				visit(g, d+1)
			}
		})
	}
	visit(k.Execute, 0)
	if nret < 15 || nmut < 8 {
		r.add(rule, "fresh:floor", "-", fmt.Sprintf("%d bitmap returns and %d in-place operations analysed; floors 15 / 8", nret, nmut), Floor)
	}
}

// operatorTag recognises loads of the Operator field of a Filter value.
func operatorTag(w *World) func(ssa.Value) bool {
	c := NewCanon(w)
	return func(v ssa.Value) bool {
		if nt, ok := v.Type().(*types.Named); !ok || nt.Obj().Name() != "Operator" {
			return false
		}
		return strings.HasSuffix(c.S(v), ".Operator")
	}
}

// newOps: operators declared by the tree that the property does not know (set by ruleMetaOps; rows made only of them are
// reported, not claimed).
var newOps = valSet{}

// ruleMetaOps: operator coverage and dispatch tables, by finite-domain reachability over the 11 declared operators.
func ruleMetaOps(r *Run, rule string, k *metaKind) {
	w := r.W
	r.Doc(rule, "an operator is answered with another operator's semantics, or rejected")
	ops := declaredConsts(w, "Operator")
	want := []string{"eq", "ne", "gt", "gte", "lt", "lte", "in", "not_in", "range", "exists", "not_exists"}
	got := sortedKeys(ops)
	ws := append([]string(nil), want...)
	sort.Strings(ws)
	// the eleven operators the property speaks of must be declared; an operator added since is outside the claim
	var missingOps, extraOps []string
	gotSet := setOf(got...)
	for _, o := range ws {
		if !gotSet[o] {
			missingOps = append(missingOps, o)
		}
	}
	for _, o := range got {
		if !setOf(ws...)[o] {
			extraOps = append(extraOps, o)
		}
	}
	r.Check(len(missingOps) == 0, rule, "ops:declared", "-", "the 11 operators of the property are declared: "+strings.Join(ws, ","), "operators no longer declared: "+strings.Join(missingOps, ","))
	for _, o := range extraOps {
		r.Note(rule, "ops:declared:extra:"+o, "-", "operator "+o+" was added after the property was written: its semantics are not decided; the known operators are checked with it in the domain")
	}
	newOps = setOf(extraOps...)
	domain := append(append([]string(nil), want...), "")
	domain = append(domain, extraOps...) // so that they are separate values, not part of "<other>"
	isTag := operatorTag(w)
	var evalF, catF, numF *ssa.Function
	for _, fn := range metaQueryFuncs(w, k) {
		usesCompare, usesSprintf, callsBoth := false, false, 0
		allInstrs(fn, func(in ssa.Instruction) {
			if call, ok := in.(ssa.CallInstruction); ok {
				n := calleeName(call.Common())
				if strings.HasSuffix(n, "BSI).CompareValue") {
					usesCompare = true
				}
				if n == "fmt.Sprintf" {
					usesSprintf = true
				}
			}
		})
		if usesCompare {
			numF = fn
		} else if usesSprintf {
			catF = fn
		}
		_ = callsBoth
	}
	for _, fn := range metaQueryFuncs(w, k) {
		if fn == numF || fn == catF || numF == nil || catF == nil {
			continue
		}
		cn, cc := false, false
		for _, call := range callsIn(fn, func(c *ssa.CallCommon) bool { return staticCallee(c) != nil }) {
			if staticCallee(call.Common()) == numF {
				cn = true
			}
			if staticCallee(call.Common()) == catF {
				cc = true
			}
		}
		if cn && cc {
			evalF = fn
		}
	}
	if evalF == nil || catF == nil || numF == nil {
		r.Unres(rule, "ops:functions", "the filter dispatcher / categorical query / numeric query functions could not be identified by role")
		return
	}
	r.Analysed(w.Name(evalF), w.Name(catF), w.Name(numF))

	// per function: which operators reach a success return / the error return
	type spec struct {
		fn      *ssa.Function
		accept  []string
		role    string
		rejects bool // operators outside accept must reach only error returns
	}
	specs := []spec{
		{catF, []string{"eq", "", "ne", "in", "not_in"}, "categorical", true},
		{numF, []string{"eq", "", "ne", "gt", "gte", "lt", "lte", "range"}, "numeric", true},
	}
	for _, sp := range specs {
		reach := constReach(sp.fn, isTag, domain)
		name := w.Name(sp.fn)
		okOps := valSet{}
		errOps := valSet{}
		// with a single exit (`if err != nil { return nil, err }` after the switch) every operator reaches the failing
		// return: what matters is which error it carries there — the walk per operator value knows the operand each phi
		// received, so the error an unknown operator produces can be told from a conversion error of a known one
		// the error values the failing return can carry under tag value v: phis are expanded through the operands of
		// their feasible incoming edges only
		errLeaves := func(ret *ssa.Return, v string) map[ssa.Value]bool {
			out := map[ssa.Value]bool{}
			ei := errIndex(sp.fn)
			if ei < 0 {
				return out
			}
			_, _, sets := constReachEnvSets(sp.fn, isTag, domain, v)
			seen := map[ssa.Value]bool{}
			var walk func(x ssa.Value, depth int)
			walk = func(x ssa.Value, depth int) {
				if seen[x] || depth > 10 {
					return
				}
				seen[x] = true
				if ph, isPhi := x.(*ssa.Phi); isPhi {
					if ops, ok := sets[ph]; ok {
						for _, e := range ops {
							walk(e, depth+1)
						}
						return
					}
				}
				out[x] = true
			}
			walk(resultValue(ret, ei), 0)
			return out
		}
		for _, ret := range returnsOf(sp.fn) {
			s := reach[ret.Block()]
			cls := classifyErr(ret)
			var otherErr map[ssa.Value]bool
			if cls == ErrNonNil && s[otherVal] {
				otherErr = errLeaves(ret, otherVal)
			}
			for op := range s {
				if cls == ErrNil {
					okOps[op] = true
				}
				if cls == ErrNonNil && s[otherVal] { // the default branch: the only error return an unknown operator value can reach
					if len(otherErr) > 0 && op != otherVal {
						shared := false
						for x := range errLeaves(ret, op) {
							if otherErr[x] {
								shared = true
							}
						}
						if !shared {
							continue
						}
					}
					errOps[op] = true
				}
			}
		}
		var bad []string
		for _, op := range sp.accept {
			if !okOps[op] {
				bad = append(bad, fmt.Sprintf("operator %q has no success return", op))
			}
			if errOps[op] {
				bad = append(bad, fmt.Sprintf("operator %q reaches the unsupported-operator error", op))
			}
		}
		acc := setOf(sp.accept...)
		for _, op := range domain {
			if newOps[op] {
				continue // an operator the property does not know: not claimed
			}
			if !acc[op] && okOps[op] {
				bad = append(bad, fmt.Sprintf("operator %q is answered by the %s query although it is not a %s operator", op, sp.role, sp.role))
			}
		}
		site := w.Pos(sp.fn.Pos()) + " " + name
		if len(bad) > 0 {
			r.Bad(rule, "ops:"+sp.role+":coverage", site, strings.Join(bad, "; "))
		} else {
			r.Ok(rule, "ops:"+sp.role+":coverage", site, fmt.Sprintf("%s operators %v each reach a success return; all others reach only the error return", sp.role, sp.accept))
		}
	}
	// dispatcher: exists / not_exists are answered locally, everything else is forwarded
	{
		reach := constReach(evalF, isTag, domain)
		name := w.Name(evalF)
		var bad []string
		for _, call := range callsIn(evalF, func(c *ssa.CallCommon) bool { f := staticCallee(c); return f == numF || f == catF }) {
			s := reach[call.Block()]
			for _, op := range []string{"exists", "not_exists"} {
				if s[op] {
					bad = append(bad, fmt.Sprintf("%q is forwarded to %s", op, w.Name(staticCallee(call.Common()))))
				}
			}
			for _, op := range domain {
				if op != "exists" && op != "not_exists" && !s[op] {
					bad = append(bad, fmt.Sprintf("%q never reaches %s", op, w.Name(staticCallee(call.Common()))))
				}
			}
		}
		site := w.Pos(evalF.Pos()) + " " + name
		if len(bad) > 0 {
			r.Bad(rule, "ops:dispatch", site, strings.Join(dedup(bad), "; "))
		} else {
			r.Ok(rule, "ops:dispatch", site, "exists/not_exists answered locally; the 9 other operators (and the empty default) are forwarded to the numeric or categorical query")
		}
		// numeric vs categorical is decided by presence of a BSI for the field
		c := NewCanon(w)
		okDisp := false
		allInstrs(evalF, func(in ssa.Instruction) {
			if iff, ok := in.(*ssa.If); ok {
				s := c.S(iff.Cond)
				if strings.HasSuffix(s, ".numeric[P1.Field]#1") {
					okDisp = true
				}
			}
		})
		r.Check(okDisp, rule, "ops:dispatch:kind", site, "numeric query ⇔ a BSI exists for the filter's field", "the numeric/categorical decision is not `numeric[filter.Field]` exists")
		// universe of the local answers
		for _, ret := range returnsOf(evalF) {
			s := reach[ret.Block()]
			v := c.S(resultValue(ret, 0))
			rs := w.InstrPos(ret) + " " + name
			switch {
			case s.equal(setOf("exists")):
				r.Check(strings.Contains(v, "getExistenceBitmap(") && strings.HasSuffix(v, ",P1.Field)"), rule, "ops:exists", rs, "exists → existence bitmap of the field", "exists returns "+v)
			case s.equal(setOf("not_exists")):
				ok := strings.HasPrefix(v, roaringBitmap+"Clone(") && strings.Contains(v, ".allDocs)")
				andnot := false
				for _, call := range callsIn(evalF, func(cc *ssa.CallCommon) bool { return calleeName(cc) == roaringBitmap+"AndNot" }) {
					if reach[call.Block()].equal(setOf("not_exists")) && strings.Contains(c.S(call.Common().Args[1]), "getExistenceBitmap(") {
						andnot = true
					}
				}
				r.Check(ok && andnot, rule, "ops:not_exists", rs, "not_exists → Clone(allDocs) AndNot existence(field)", "not_exists returns "+v+fmt.Sprintf(" (AndNot existence: %v)", andnot))
			}
		}
	}
	ruleMetaNumericTable(r, rule, numF, isTag, domain)
	ruleMetaCategoricalTable(r, rule, catF, isTag, domain)
}

// bsiOps reads the values of the bsi.Operation constants from the imported package.
func bsiOps(w *World) map[string]string {
	out := map[string]string{}
	for _, imp := range w.Types.Imports() {
		if strings.HasSuffix(imp.Path(), "roaring/roaring64") || strings.HasSuffix(imp.Path(), "/BitSliceIndexing") || strings.HasSuffix(imp.Path(), "roaring/BitSliceIndexing") {
			for _, n := range []string{"EQ", "LT", "LE", "GT", "GE", "RANGE"} {
				if c, ok := imp.Scope().Lookup(n).(*types.Const); ok {
					out[c.Val().ExactString()] = n
				}
			}
		}
	}
	return out
}

// ---- numeric operators: the answer of every operator as a set, evaluated over a small signed model
//
// The numeric query answers an operator with a bitmap built from BSI comparisons and bitmap algebra. The rule follows
// every success path of every operator, builds the returned set symbolically (CompareValue / GetExistenceBitmap / Clone /
// And / AndNot / Or / Xor / New) and evaluates it at every point of a finite model: a document that has the field or not,
// its stored value x and the operands A (filter.Value) and B (filter.Value2) over {-2,…,2}. Comparisons touch values only
// through their order and sign, so this model covers every sign / order constellation.
//
// Library fact (roaring v1.9.4, BitSliceIndexing.compareValue, read and confirmed against an oracle): on a 64-plane BSI
// the sign plane is skipped by the bit walk and only the final LE and GE cases are qualified by the signs of both sides;
// EQ, LT, GT and RANGE compare magnitudes when the stored value and an operand differ in sign. They are exact when all
// signs agree. The model therefore gives them the value "undetermined" at mixed-sign points (Kleene logic): an answer
// that depends on such a point is reported.

type tri int8

const (
	triF tri = iota
	triT
	triU
)

func triOf(b bool) tri {
	if b {
		return triT
	}
	return triF
}
func triAnd(a, b tri) tri {
	switch {
	case a == triF || b == triF:
		return triF
	case a == triT && b == triT:
		return triT
	}
	return triU
}
func triNot(a tri) tri {
	switch a {
	case triT:
		return triF
	case triF:
		return triT
	}
	return triU
}
func triOr(a, b tri) tri { return triNot(triAnd(triNot(a), triNot(b))) }

type numPoint struct {
	has     bool
	x, a, b int
}

type numSet struct {
	eval func(m numPoint) tri
	str  string
	bad  string // why the set is not known
}

func numUnknown(why string) *numSet {
	return &numSet{eval: func(numPoint) tri { return triU }, str: "?", bad: why}
}

// signUnsafeBSIOps: see the library fact above.
var signUnsafeBSIOps = map[string]bool{"EQ": true, "LT": true, "GT": true, "RANGE": true}

func ruleMetaNumericTable(r *Run, rule string, numF *ssa.Function, isTag func(ssa.Value) bool, domain []string) {
	w := r.W
	name := w.Name(numF)
	opNames := bsiOps(w)
	if len(opNames) != 6 {
		r.Unres(rule, "bsi:constants", fmt.Sprintf("bsi.Operation constants not found (%d of 6)", len(opNames)))
		return
	}
	c := NewCanon(w)
	// the parameters by type: the filter and the field's BSI
	pf, pb := -1, -1
	for i, p := range numF.Params {
		t := tstr(p.Type(), qual)
		switch {
		case strings.HasSuffix(t, "Filter"):
			pf = i
		case strings.HasSuffix(t, "BSI"):
			pb = i
		}
	}
	if pf < 0 || pb < 0 {
		r.Unres(rule, "bsi:params", "the numeric query does not take a Filter and a BSI")
		return
	}
	opA, opB, recv := fmt.Sprintf("toInt64(P%d.Value)#0", pf), fmt.Sprintf("toInt64(P%d.Value2)#0", pf), fmt.Sprintf("P%d", pb)
	// operand: which model quantity an SSA value denotes
	type operand struct {
		kind string // "A", "B", "const"
		k    int
	}
	operandOf := func(v ssa.Value, pth *Path) (operand, bool) {
		v = resolveOnPath(pth, v)
		if k, ok := v.(*ssa.Const); ok && k.Value != nil && k.Value.Kind() == constant.Int {
			if n, exact := constant.Int64Val(k.Value); exact && n >= -2 && n <= 2 {
				return operand{"const", int(n)}, true
			}
			return operand{}, false
		}
		switch c.S(v) {
		case opA:
			return operand{"A", 0}, true
		case opB:
			return operand{"B", 0}, true
		}
		return operand{}, false
	}
	valOf := func(o operand, m numPoint) int {
		switch o.kind {
		case "A":
			return m.a
		case "B":
			return m.b
		}
		return o.k
	}
	opStr := func(o operand) string {
		if o.kind == "const" {
			return fmt.Sprint(o.k)
		}
		return o.kind
	}
	prim := func(op string, v1, v2 operand) *numSet {
		str := fmt.Sprintf("%s(%s)", op, opStr(v1))
		if op == "RANGE" {
			str = fmt.Sprintf("RANGE(%s,%s)", opStr(v1), opStr(v2))
		}
		return &numSet{str: str, eval: func(m numPoint) tri {
			if !m.has {
				return triF
			}
			a := valOf(v1, m)
			mixed := (m.x < 0) != (a < 0)
			switch op {
			case "LE":
				return triOf(m.x <= a)
			case "GE":
				return triOf(m.x >= a)
			case "EQ":
				if mixed {
					return triU
				}
				return triOf(m.x == a)
			case "LT":
				if mixed {
					return triU
				}
				return triOf(m.x < a)
			case "GT":
				if mixed {
					return triU
				}
				return triOf(m.x > a)
			case "RANGE":
				b := valOf(v2, m)
				if mixed || (m.x < 0) != (b < 0) {
					return triU
				}
				return triOf(m.x >= a && m.x <= b)
			}
			return triU
		}}
	}
	combine := func(op string, x, y *numSet) *numSet {
		if x == nil || y == nil {
			return numUnknown("an operand of " + op + " is not a set this rule follows")
		}
		if x.bad != "" {
			return x
		}
		if y.bad != "" {
			return y
		}
		xe, ye := x.eval, y.eval
		var f func(m numPoint) tri
		switch op {
		case "And":
			f = func(m numPoint) tri { return triAnd(xe(m), ye(m)) }
		case "AndNot":
			f = func(m numPoint) tri { return triAnd(xe(m), triNot(ye(m))) }
		case "Or":
			f = func(m numPoint) tri { return triOr(xe(m), ye(m)) }
		case "Xor":
			f = func(m numPoint) tri { return triOr(triAnd(xe(m), triNot(ye(m))), triAnd(triNot(xe(m)), ye(m))) }
		}
		return &numSet{eval: f, str: "(" + x.str + " " + op + " " + y.str + ")"}
	}
	expect := map[string]func(m numPoint) bool{
		"eq":    func(m numPoint) bool { return m.has && m.x == m.a },
		"":      func(m numPoint) bool { return m.has && m.x == m.a },
		"ne":    func(m numPoint) bool { return m.has && m.x != m.a },
		"gt":    func(m numPoint) bool { return m.has && m.x > m.a },
		"gte":   func(m numPoint) bool { return m.has && m.x >= m.a },
		"lt":    func(m numPoint) bool { return m.has && m.x < m.a },
		"lte":   func(m numPoint) bool { return m.has && m.x <= m.a },
		"range": func(m numPoint) bool { return m.has && m.x >= m.a && m.x <= m.b },
	}
	usesB := map[string]bool{"range": true}
	roaringPkg := strings.TrimSuffix(strings.TrimPrefix(roaringBitmap, "(*"), ".Bitmap).") + "."
	var missing []string
	ops := make([]string, 0, len(expect))
	for op := range expect {
		ops = append(ops, op)
	}
	sort.Strings(ops)
	for _, op := range ops {
		reach := constReachFor(numF, isTag, domain, op)
		paths, trunc := enumPaths(numF.Blocks[0], walkCfg{Stop: func(b *ssa.BasicBlock) bool { return !reach[b] }, MaxVisits: 1, MaxPaths: 4000})
		key := "bsi:set:" + op
		if op == "" {
			key = "bsi:set:default"
		}
		site := w.Pos(numF.Pos()) + " " + name
		if trunc {
			r.Und(rule, key, site, "too many paths through the numeric query")
			continue
		}
		nOK := 0
		var bad []string
		shown := ""
		for _, pth := range paths {
			if pth.End == EndCycle {
				bad = append(bad, "the numeric query loops: the returned set is not followed")
				continue
			}
			if pth.End != EndReturn || !pth.Feasible() || pathErrClass(pth) != ErrNil {
				continue
			}
			sets := map[ssa.Value]*numSet{}
			get := func(v ssa.Value) *numSet {
				v = resolveOnPath(pth, v)
				if s, ok := sets[v]; ok {
					return s
				}
				return nil
			}
			for _, in := range pth.Instrs() {
				call, isCall := in.(*ssa.Call)
				if !isCall {
					continue
				}
				cc := call.Common()
				n := calleeName(cc)
				switch {
				case strings.HasSuffix(n, "BSI).CompareValue") && len(cc.Args) == 6:
					if c.S(resolveOnPath(pth, cc.Args[0])) != recv {
						sets[call] = numUnknown("a comparison on something else than the field's BSI (" + w.InstrPos(call) + ")")
						break
					}
					ov, isConst := constString(resolveOnPath(pth, cc.Args[2]))
					opn := opNames[ov]
					if !isConst || opn == "" {
						sets[call] = numUnknown("the BSI operation at " + w.InstrPos(call) + " is not a constant of the library")
						break
					}
					v1, ok1 := operandOf(cc.Args[3], pth)
					v2, ok2 := operandOf(cc.Args[4], pth)
					if !ok1 || (opn == "RANGE" && !ok2) {
						sets[call] = numUnknown("the operand of bsi." + opn + " at " + w.InstrPos(call) + " is neither filter.Value nor filter.Value2 (converted by toInt64)")
						break
					}
					s := prim(opn, v1, v2)
					if fs := resolveOnPath(pth, cc.Args[5]); !isNilConst(fs) {
						s = combine("And", s, get(fs))
					}
					sets[call] = s
				case strings.HasSuffix(n, "BSI).GetExistenceBitmap"):
					if c.S(resolveOnPath(pth, cc.Args[0])) == recv {
						sets[call] = &numSet{str: "EXISTS", eval: func(m numPoint) tri { return triOf(m.has) }}
					}
				case n == roaringBitmap+"Clone":
					if s := get(cc.Args[0]); s != nil {
						sets[call] = s
					}
				case n == roaringPkg+"New" || n == roaringPkg+"NewBitmap":
					sets[call] = &numSet{str: "∅", eval: func(numPoint) tri { return triF }}
				case n == roaringBitmap+"And" || n == roaringBitmap+"AndNot" || n == roaringBitmap+"Or" || n == roaringBitmap+"Xor":
					t := resolveOnPath(pth, cc.Args[0])
					sets[t] = combine(strings.TrimPrefix(n, roaringBitmap), get(t), get(cc.Args[1]))
				case (n == roaringPkg+"And" || n == roaringPkg+"AndNot" || n == roaringPkg+"Or" || n == roaringPkg+"Xor") && len(cc.Args) == 2:
					sets[call] = combine(strings.TrimPrefix(n, roaringPkg), get(cc.Args[0]), get(cc.Args[1]))
				case n == roaringBitmap+"IsEmpty" || n == roaringBitmap+"GetCardinality" || n == roaringBitmap+"Contains" || n == roaringBitmap+"String" || n == roaringBitmap+"RunOptimize":
				default:
					// a followed set handed to code the rule does not know
					for _, a := range cc.Args {
						ra := resolveOnPath(pth, a)
						if _, tracked := sets[ra]; tracked {
							sets[ra] = numUnknown("the set is handed to " + n + " at " + w.InstrPos(call))
						}
					}
				}
			}
			res := get(resultValue(pth.Ret, 0))
			if res == nil {
				bad = append(bad, "the bitmap returned at "+w.InstrPos(pth.Ret)+" is not built from BSI comparisons the rule follows: "+short(c.S(resolveOnPath(pth, resultValue(pth.Ret, 0))), 100))
				continue
			}
			if res.bad != "" {
				bad = append(bad, res.bad)
				continue
			}
			// decisions of the path that compare the operands restrict the model
			type constraint func(m numPoint) bool
			var cons []constraint
			for _, d := range pth.Decisions {
				cnd, neg := stripNot(d.Cond)
				bo, ok := cnd.(*ssa.BinOp)
				if !ok {
					continue
				}
				l, okL := operandOf(bo.X, pth)
				rr, okR := operandOf(bo.Y, pth)
				if !okL || !okR {
					continue
				}
				op2, want := bo.Op, d.Taken != neg
				cons = append(cons, func(m numPoint) bool {
					a, b := valOf(l, m), valOf(rr, m)
					var v bool
					switch op2 {
					case token.LSS:
						v = a < b
					case token.LEQ:
						v = a <= b
					case token.GTR:
						v = a > b
					case token.GEQ:
						v = a >= b
					case token.EQL:
						v = a == b
					case token.NEQ:
						v = a != b
					default:
						return true
					}
					return v == want
				})
			}
			cex := ""
			bs := []int{0}
			if usesB[op] {
				bs = []int{-2, -1, 0, 1, 2}
			}
		model:
			for _, has := range []bool{true, false} {
				for x := -2; x <= 2; x++ {
					for a := -2; a <= 2; a++ {
						for _, b := range bs {
							m := numPoint{has, x, a, b}
							feasible := true
							for _, cn := range cons {
								if !cn(m) {
									feasible = false
								}
							}
							if !feasible {
								continue
							}
							got, want := res.eval(m), expect[op](m)
							if got == triU {
								cex = fmt.Sprintf("for a stored value %d and operand(s) %s the answer rests on a BSI comparison across signs: of the library's operations only LE and GE take the sign of both sides into account, EQ / LT / GT / RANGE compare magnitudes there (eq -5 matches 5, lt 100 misses -100)", x, pointOperands(m, usesB[op]))
								break model
							}
							if (got == triT) != want {
								cex = fmt.Sprintf("for a document %s and operand(s) %s the set contains it: %v, the operator says %v", pointDoc(m), pointOperands(m, usesB[op]), got == triT, want)
								break model
							}
						}
					}
				}
			}
			if cex != "" {
				bad = append(bad, "returns "+res.str+" at "+w.InstrPos(pth.Ret)+": "+cex)
				continue
			}
			nOK++
			if shown == "" {
				shown = res.str
			}
		}
		switch {
		case len(bad) > 0:
			r.Bad(rule, key, site, fmt.Sprintf("operator %q: %s", op, strings.Join(dedup(bad), "; ")))
		case nOK == 0:
			missing = append(missing, fmt.Sprintf("%q", op))
		default:
			r.Ok(rule, key, site, fmt.Sprintf("operator %q answers %s on %d success path(s): equal to its predicate at every point of the signed model (document with/without the field, stored value and operands over -2..2)", op, shown, nOK))
		}
	}
	r.Check(len(missing) == 0, rule, "bsi:all-operators", w.Pos(numF.Pos())+" "+name, "every numeric operator reaches a success return with a followed set", "no answered success return for "+strings.Join(missing, ","))
}

func pointDoc(m numPoint) string {
	if !m.has {
		return "without the field"
	}
	return fmt.Sprintf("with value %d", m.x)
}

func pointOperands(m numPoint, two bool) string {
	if two {
		return fmt.Sprintf("[%d,%d]", m.a, m.b)
	}
	return fmt.Sprint(m.a)
}

func ruleMetaCategoricalTable(r *Run, rule string, catF *ssa.Function, isTag func(ssa.Value) bool, domain []string) {
	w := r.W
	name := w.Name(catF)
	reach := constReach(catF, isTag, domain)
	c := NewCanon(w)
	// per operator: origin of the returned bitmap and the in-place combinator applied
	wantOrigin := map[string]string{"eq": "clone-entry|new", "": "clone-entry|new", "ne": "clone-all", "in": "new", "not_in": "clone-all"}
	wantComb := map[string]string{"ne": "AndNot", "in": "Or", "not_in": "AndNot"}
	origin := func(v ssa.Value) string {
		s := c.S(v)
		switch {
		case strings.HasPrefix(s, roaringBitmap+"Clone(") && strings.HasSuffix(s, ".allDocs)"):
			return "clone-all"
		case strings.HasPrefix(s, roaringBitmap+"Clone(") && strings.Contains(s, ".categorical["):
			return "clone-entry"
		case strings.HasPrefix(s, "github.com/RoaringBitmap/roaring.New("):
			return "new"
		}
		return "other:" + s
	}
	byOp := map[string][]string{}
	for _, ret := range returnsOf(catF) {
		if classifyErr(ret) != ErrNil {
			continue
		}
		// a single exit fed by several answers (`result := clone-or-new; return result`): one origin per phi operand
		var leaves []ssa.Value
		var expand func(v ssa.Value, depth int)
		expand = func(v ssa.Value, depth int) {
			if ph, isPhi := v.(*ssa.Phi); isPhi && depth < 4 {
				for _, e := range ph.Edges {
					expand(e, depth+1)
				}
				return
			}
			leaves = append(leaves, v)
		}
		expand(resultValue(ret, 0), 0)
		for _, lf := range leaves {
			o := origin(lf)
			for op := range reach[ret.Block()] {
				byOp[op] = append(byOp[op], o)
			}
		}
	}
	site := w.Pos(catF.Pos()) + " " + name
	for op, wo := range wantOrigin {
		got := dedup(byOp[op])
		sort.Strings(got)
		ok := len(got) > 0
		for _, g := range got {
			if !strings.Contains("|"+wo+"|", "|"+g+"|") {
				ok = false
			}
		}
		if strings.Contains(wo, "|") && len(got) != 2 {
			ok = false // eq: both the found (clone) and the not-found (empty) answer
		}
		r.Check(ok, rule, fmt.Sprintf("cat:origin:%q", op), site, fmt.Sprintf("operator %q answers start from %v", op, got),
			fmt.Sprintf("operator %q answers start from %v, expected %s (universe of the answer)", op, got, wo))
	}
	combs := map[string]valSet{}
	for _, call := range callsIn(catF, func(cc *ssa.CallCommon) bool {
		n := calleeName(cc)
		return strings.HasPrefix(n, roaringBitmap) && roaringMutators[strings.TrimPrefix(n, roaringBitmap)]
	}) {
		m := strings.TrimPrefix(calleeName(call.Common()), roaringBitmap)
		for op := range reach[call.Block()] {
			if combs[op] == nil {
				combs[op] = valSet{}
			}
			combs[op][m] = true
		}
		// the combined operand is the entry of the key built from the filter's field and value(s)
		arg := c.S(call.Common().Args[1])
		isEntry := func(a string) bool {
			return strings.Contains(a, ".categorical[fmt.Sprintf(") && (strings.Contains(a, "P1.Field") || strings.Contains(a, "P2.Field"))
		}
		ok := isEntry(arg)
		if !ok {
			// the keys were gathered into a list first: the operand is the entry of an element of that list, and every
			// element of the list is key(field, value)
			var v ssa.Value = call.Common().Args[1]
			if ex, isEx := v.(*ssa.Extract); isEx {
				v = ex.Tuple
			}
			if lk, isLk := v.(*ssa.Lookup); isLk && strings.HasSuffix(c.S(lk.X), ".categorical") {
				if ld, isLd := lk.Index.(*ssa.UnOp); isLd && ld.Op == token.MUL {
					if ia, isIA := ld.X.(*ssa.IndexAddr); isIA && c.idx(ia.Index) == "range" {
						if elems, okE := sliceElems(ia.X); okE && len(elems) > 0 {
							ok = true
							for _, e := range elems {
								es := c.S(e)
								if !strings.HasPrefix(es, "fmt.Sprintf(") || !(strings.Contains(es, "P1.Field") || strings.Contains(es, "P2.Field")) {
									ok = false
								}
							}
						}
					}
				}
			}
		}
		if !ok {
			// the entries were gathered into a local list first: every element of that list is such an entry
			if ld, isLd := call.Common().Args[1].(*ssa.UnOp); isLd && ld.Op == token.MUL {
				if ia, isIA := ld.X.(*ssa.IndexAddr); isIA {
					if elems, okE := sliceElems(ia.X); okE && len(elems) > 0 {
						ok = true
						for _, e := range elems {
							es := c.S(e)
							// a map lookup with comma-ok: extract #0
							if !isEntry(es) {
								ok = false
							}
						}
					}
				}
			}
		}
		r.Check(ok, rule, "cat:operand:"+m+":"+reach[call.Block()].String(), w.InstrPos(call)+" "+name, "combined with the entry of key(field, value)", "combined operand is "+arg)
	}
	for op, wc := range wantComb {
		got := combs[op]
		r.Check(got != nil && got.equal(setOf(wc)), rule, fmt.Sprintf("cat:combinator:%q", op), site, fmt.Sprintf("operator %q combines with %s", op, wc),
			fmt.Sprintf("operator %q combines with %v, expected %s", op, got, wc))
	}
	for _, op := range []string{"eq", ""} {
		r.Check(len(combs[op]) == 0, rule, fmt.Sprintf("cat:combinator:%q", op), site, "eq applies no in-place combinator", fmt.Sprintf("eq applies %v", combs[op]))
	}
}

// ruleMetaNot: Not is the specified fix-point-free involution on operators.
func ruleMetaNot(r *Run, rule string) {
	w := r.W
	r.Doc(rule, "Not(f) is not the complement of f")
	fn := w.Fn("Not")
	if fn == nil {
		r.Unres(rule, "not", "function Not not found")
		return
	}
	r.Analysed("Not")
	isTag := operatorTag(w)
	domain := []string{"eq", "ne", "gt", "gte", "lt", "lte", "in", "not_in", "range", "exists", "not_exists"}
	known := setOf(domain...)
	for op := range declaredConsts(w, "Operator") {
		if !known[op] {
			domain = append(domain, op)
		}
	}
	reach := constReach(fn, isTag, domain)
	c := NewCanon(w)
	got := map[string]string{}
	var bad []string
	allInstrs(fn, func(in ssa.Instruction) {
		st, ok := in.(*ssa.Store)
		if !ok || !strings.HasSuffix(c.S(st.Addr), ".Operator") {
			return
		}
		val, ok := constString(st.Val)
		if !ok {
			bad = append(bad, "operator assigned a non-constant at "+w.InstrPos(st))
			return
		}
		for op := range reach[st.Block()] {
			if prev, dup := got[op]; dup && prev != val {
				bad = append(bad, fmt.Sprintf("%q mapped to both %q and %q", op, prev, val))
			}
			got[op] = val
		}
	})
	want := map[string]string{"eq": "ne", "ne": "eq", "gt": "lte", "lte": "gt", "gte": "lt", "lt": "gte", "in": "not_in", "not_in": "in", "exists": "not_exists", "not_exists": "exists"}
	for op, wv := range want {
		if got[op] != wv {
			bad = append(bad, fmt.Sprintf("Not maps %q to %q, expected %q", op, got[op], wv))
		}
	}
	for op, gv := range got {
		if _, ok := want[op]; !ok {
			// an operator without a specified complement (range, or one added since) may be paired with an operator
			// the property does not know, as long as the pairing is an involution
			if op != otherVal && gv != op && !known[gv] && got[gv] == op {
				continue
			}
			if !known[op] && got[gv] == op {
				continue
			}
			bad = append(bad, fmt.Sprintf("Not maps %q to %q, expected it to be left unchanged", op, gv))
		}
	}
	sort.Strings(bad)
	site := w.Pos(fn.Pos()) + " Not"
	if len(bad) > 0 {
		r.Bad(rule, "not:involution", site, strings.Join(bad, "; "))
	} else {
		r.Ok(rule, "not:involution", site, "eq↔ne, gt↔lte, gte↔lt, in↔not_in, exists↔not_exists; range and unknown operators unchanged (10 entries, involution, no fixed point)")
	}
	// only the operator changes
	others := 0
	allInstrs(fn, func(in ssa.Instruction) {
		if st, ok := in.(*ssa.Store); ok {
			s := c.S(st.Addr)
			if strings.HasSuffix(s, ".Field") || strings.HasSuffix(s, ".Value") || strings.HasSuffix(s, ".Value2") {
				others++
			}
		}
	})
	r.Check(others == 0, rule, "not:fields", site, "Not leaves field and operands unchanged", "Not rewrites field or operands")
}

// ruleMetaLogic: AND inside a group, OR across groups, AND across simple filters, empty ⇒ all live documents.
func ruleMetaLogic(r *Run, rule string, k *metaKind) {
	w := r.W
	r.Doc(rule, "filters are combined with the wrong boolean connective")
	c := NewCanon(w)
	// classify helper functions by the element type they iterate
	for _, fn := range metaQueryFuncs(w, k) {
		name := w.Name(fn)
		iterates := ""
		allInstrs(fn, func(in ssa.Instruction) {
			if ia, ok := in.(*ssa.IndexAddr); ok && isRangeIndex(ia.Index) {
				s := c.S(ia.X)
				switch {
				case strings.HasSuffix(s, ".filterGroups"):
					iterates = "groups"
				case strings.HasSuffix(s, ".filters"):
					iterates = "filters"
				case strings.HasSuffix(s, ".Filters"):
					iterates = "group"
				}
			}
		})
		if iterates == "" {
			continue
		}
		site := w.Pos(fn.Pos()) + " " + name
		ms := map[string][]ssa.CallInstruction{}
		for _, call := range callsIn(fn, func(cc *ssa.CallCommon) bool {
			n := calleeName(cc)
			return strings.HasPrefix(n, roaringBitmap) && roaringMutators[strings.TrimPrefix(n, roaringBitmap)]
		}) {
			m := strings.TrimPrefix(calleeName(call.Common()), roaringBitmap)
			ms[m] = append(ms[m], call)
		}
		names := func() string {
			var ks []string
			for k := range ms {
				ks = append(ks, k)
			}
			sort.Strings(ks)
			return strings.Join(ks, ",")
		}()
		// early exits from the combination loop: a success return before all elements were combined is sound only when the
		// accumulated result is absorbing for the connective in force — empty under And. Under Or nothing is absorbing.
		loops := loopsOf(fn)
		for _, ret := range returnsOf(fn) {
			if classifyErr(ret) == ErrNonNil {
				continue
			}
			inLoop := false
			for _, l := range loops {
				for b := range l.Blocks {
					if b != l.Header && (b == ret.Block() || b.Dominates(ret.Block())) {
						inLoop = true
					}
				}
			}
			if !inLoop {
				continue
			}
			guardEmpty, guardAnd := false, false
			for b := ret.Block(); b != nil; b = b.Idom() {
				d := b.Idom()
				if d == nil {
					break
				}
				iff, isIf := d.Instrs[len(d.Instrs)-1].(*ssa.If)
				if !isIf || !(d.Succs[0] == b || d.Succs[0].Dominates(b)) {
					continue
				}
				cs := c.S(iff.Cond)
				if strings.HasPrefix(cs, roaringBitmap+"IsEmpty(") {
					guardEmpty = true
				}
				if bo, isBo := iff.Cond.(*ssa.BinOp); isBo && bo.Op == token.EQL && strings.HasSuffix(c.S(bo.X), ".Logic") {
					if v, _ := constString(bo.Y); v != "" && v == declaredConstValue(w, "AND") {
						guardAnd = true
					}
				}
			}
			okExit := false
			why := ""
			switch iterates {
			case "filters":
				okExit = guardEmpty
				why = "an early exit from the intersection of simple filters must be guarded by the result being empty"
			case "group":
				okExit = guardEmpty && guardAnd
				why = fmt.Sprintf("an early exit from a group must be guarded by Logic == AND and an empty result (found: empty=%v, AND=%v): under OR a later filter can still add documents", guardEmpty, guardAnd)
			case "groups":
				why = "groups are united: no early exit is sound"
			}
			r.Check(okExit, rule, "logic:early-exit:"+iterates, w.InstrPos(ret)+" "+name, "the early exit happens only when the accumulated result is empty under And (absorbing)", why)
		}
		switch iterates {
		case "filters":
			r.Check(names == "And", rule, "logic:simple", site, "simple filters are intersected (And)", "simple filters are combined with {"+names+"}")
		case "groups":
			r.Check(names == "Or", rule, "logic:groups", site, "groups are united (Or)", "groups are combined with {"+names+"}")
		case "group":
			ok := names == "And,Or"
			detail := "a group combines with {" + names + "}"
			if ok {
				// And on the `Logic == AND` branch, Or on the other
				for m, calls := range ms {
					for _, call := range calls {
						branch := ""
						for b := call.Block(); b != nil; b = b.Idom() {
							d := b.Idom()
							if d == nil {
								break
							}
							if iff, isIf := d.Instrs[len(d.Instrs)-1].(*ssa.If); isIf {
								if bo, isBo := iff.Cond.(*ssa.BinOp); isBo && bo.Op == token.EQL && strings.HasSuffix(c.S(bo.X), ".Logic") {
									if v, _ := constString(bo.Y); v != "" {
										if d.Succs[0] == b || d.Succs[0].Dominates(b) {
											branch = v
										} else {
											branch = "not-" + v
										}
									}
									break
								}
							}
						}
						andVal := declaredConstValue(w, "AND")
						if m == "And" && branch != andVal {
							ok = false
							detail = "And is applied on branch " + branch
						}
						if m == "Or" && branch != "not-"+andVal {
							ok = false
							detail = "Or is applied on branch " + branch
						}
					}
				}
			}
			r.Check(ok, rule, "logic:group", site, "inside a group: And when Logic == AND, else Or", detail)
			// empty group ⇒ all live documents
			okEmpty := false
			for _, ret := range returnsOf(fn) {
				v := c.S(resultValue(ret, 0))
				if strings.HasPrefix(v, roaringBitmap+"Clone(") && strings.HasSuffix(v, ".allDocs)") {
					okEmpty = true
				}
			}
			r.Check(okEmpty, rule, "logic:group:empty", site, "empty group ⇒ Clone(allDocs)", "an empty group does not answer with all live documents")
		}
	}
	// Execute: no filters ⇒ Clone(allDocs); result ids come from the computed bitmap
	fn := k.Execute
	site := w.Pos(fn.Pos()) + " " + w.Name(fn)
	okAll := false
	allInstrs(fn, func(in ssa.Instruction) {
		if call, ok := in.(*ssa.Call); ok && calleeName(call.Common()) == roaringBitmap+"Clone" && strings.HasSuffix(c.S(call.Call.Args[0]), ".allDocs") {
			okAll = true
		}
	})
	r.Check(okAll, rule, "logic:execute:empty", site, "no filters ⇒ all live documents (Clone(allDocs))", "Execute has no all-documents answer for an empty filter list")
}

// ruleMetaBSIWidth: every bit-sliced index comet creates spans all 64 bit planes. roaring's comparison operators cut the
// operand to the planes that exist (and read a negative operand as unsigned when no stored value is negative): an
// auto-sized BSI answers Lt(100) as Lt(100 mod 2^width).
func ruleMetaBSIWidth(r *Run, rule string) {
	w := r.W
	r.Doc(rule, "range operands outside the bit span of the stored values are truncated by the BSI: wrong documents match")
	n := 0
	for _, fn := range w.Funcs {
		for _, cs := range callsIn(fn, func(cc *ssa.CallCommon) bool {
			g := staticCallee(cc)
			if g == nil || g.Pkg == nil || g.Pkg == w.SPkg {
				return false
			}
			res := g.Signature.Results()
			return g.Signature.Recv() == nil && res.Len() == 1 && strings.HasSuffix(tstr(res.At(0).Type(), nil), ".BSI") && strings.HasPrefix(g.Name(), "New")
		}) {
			n++
			name := w.Name(fn)
			cc := cs.Common()
			key := fmt.Sprintf("bsi:width:%s#%d", name, n)
			site := w.InstrPos(cs) + " " + name
			width := 0
			known := len(cc.Args) > 0
			for _, a := range cc.Args {
				k, ok := a.(*ssa.Const)
				if !ok || k.Value == nil || k.Value.Kind() != constant.Int {
					known = false
					continue
				}
				if l := bits.Len64(uint64(k.Int64())); l > width {
					width = l
				}
			}
			switch {
			case len(cc.Args) == 0:
				r.Bad(rule, key, site, staticCallee(cc).Name()+" creates an auto-sized BSI: comparison operands wider than the stored values are truncated")
			case !known:
				r.Und(rule, key, site, "BSI range arguments are not constants")
			default:
				r.Check(width == 64, rule, key, site, "the BSI spans all 64 bit planes: operands are compared in full, and the library's sign handling of LE / GE (active only for 64 planes) applies", fmt.Sprintf("the BSI has %d bit planes: wider or negative operands are truncated", width))
			}
		}
	}
	if n < 2 {
		r.add(rule, "bsi:width:floor", "-", fmt.Sprintf("%d BSI constructions found, floor is 2 (Add path and ReadFrom)", n), Floor)
	}
}

// guardedByIsEmpty: in lies on the true side of a dominating roaring IsEmpty() test.
func guardedByIsEmpty(c *Canon, in ssa.Instruction) bool {
	for b := in.Block(); b != nil; b = b.Idom() {
		d := b.Idom()
		if d == nil {
			break
		}
		iff, ok := d.Instrs[len(d.Instrs)-1].(*ssa.If)
		if !ok || !(d.Succs[0] == b || d.Succs[0].Dominates(b)) {
			continue
		}
		if strings.HasPrefix(c.S(iff.Cond), roaringBitmap+"IsEmpty(") {
			return true
		}
	}
	return false
}

func declaredConstValue(w *World, name string) string {
	if c, ok := w.Types.Scope().Lookup(name).(*types.Const); ok {
		s := c.Val().ExactString()
		return strings.Trim(s, "\"")
	}
	return ""
}

// ruleMetaRemoveCovers: every container Add may write is cleared for the id by Remove, over all its entries;
// Remove never drops a container entry (the numeric/categorical kind of a field is stable).
func ruleMetaRemoveCovers(r *Run, rule string, k *metaKind) {
	w := r.W
	r.Doc(rule, "a removed document still matches some filter, or a field changes kind after removals")
	written := map[string]bool{}
	for _, fn := range sameRecvCallees(w, k.Add, 2) {
		c := NewCanon(w)
		allInstrs(fn, func(in ssa.Instruction) {
			switch x := in.(type) {
			case *ssa.MapUpdate:
				if s := c.S(x.Map); strings.HasPrefix(s, "P0.") {
					written[strings.SplitN(s[3:], "[", 2)[0]] = true
				}
			case *ssa.Call:
				if len(x.Call.Args) > 0 {
					if s := c.S(x.Call.Args[0]); strings.HasPrefix(s, "P0.") && (strings.HasPrefix(calleeName(x.Common()), roaringBitmap) || strings.Contains(calleeName(x.Common()), "BSI).")) {
						written[strings.SplitN(s[3:], "[", 2)[0]] = true
					}
				}
			}
		})
	}
	fn := k.Remove
	name := w.Name(fn)
	r.Analysed(name, w.Name(k.Add))
	c := NewCanon(w)
	cleared := map[string]string{}
	allInstrs(fn, func(in ssa.Instruction) {
		call, ok := in.(*ssa.Call)
		if !ok || len(call.Call.Args) < 2 {
			return
		}
		n := calleeName(call.Common())
		recv := c.S(call.Call.Args[0])
		arg := c.S(call.Call.Args[1])
		switch {
		case n == roaringBitmap+"Remove" && arg == "get:id(P1)":
			if recv == "P0.allDocs" {
				cleared["allDocs"] = "direct"
			} else if strings.HasPrefix(recv, "next(range(P0.") {
				f := strings.TrimPrefix(recv, "next(range(P0.")
				cleared[strings.SplitN(f, ")", 2)[0]] = "all entries"
			}
		case strings.HasSuffix(n, "BSI).ClearValues") && strings.Contains(arg, "BitmapOf(") && strings.Contains(arg, "get:id(P1)"):
			if strings.HasPrefix(recv, "next(range(P0.") {
				f := strings.TrimPrefix(recv, "next(range(P0.")
				cleared[strings.SplitN(f, ")", 2)[0]] = "all entries"
			}
		}
	})
	site := w.Pos(fn.Pos()) + " " + name
	var ws []string
	for f := range written {
		ws = append(ws, f)
	}
	sort.Strings(ws)
	for _, f := range ws {
		r.Check(cleared[f] != "", rule, "remove-covers:"+f, site, "Remove clears the id from "+f+" ("+cleared[f]+")", "Add may write "+f+" but Remove does not clear the id from all of its entries")
	}
	if len(ws) < 3 {
		r.add(rule, "remove-covers:floor", "-", fmt.Sprintf("Add writes %v; floor is 3 containers", ws), Floor)
	}
	// kind stability: no delete() on the numeric / categorical maps in Remove or its helpers
	for _, g := range sameRecvCallees(w, fn, 2) {
		c2 := NewCanon(w)
		allInstrs(g, func(in ssa.Instruction) {
			if call, ok := isBuiltinCall(in, "delete"); ok {
				if s := c2.S(call.Call.Args[0]); s == "P0.categorical" && guardedByIsEmpty(c2, call) {
					// an emptied "field:value" bitmap may go: every reader treats a missing key as an empty bitmap and
					// the field's kind is decided by the numeric map alone
					r.Ok(rule, "remove:prunes-empty-categorical", w.InstrPos(call)+" "+w.Name(g), "only emptied categorical bitmaps are dropped (guarded by IsEmpty)")
				} else if s == "P0.numeric" || s == "P0.categorical" {
					r.Bad(rule, "remove:kind-stable:"+s[3:], w.InstrPos(call)+" "+w.Name(g),
						"Remove deletes an entry of "+s+": the numeric/categorical dispatch of the field (presence of its BSI) changes after removals")
				}
			}
		})
	}
	r.Ok(rule, "remove:kind-stable", site, "Remove keeps the per-field containers (field kind is stable)")
}

// ruleMetaTypes: numeric type sets of Add and the operand conversion agree, and floats are converted by the same
// rounded fixed-point expression on both sides.
func ruleMetaTypes(r *Run, rule string, k *metaKind) {
	w := r.W
	r.Doc(rule, "stored and queried numbers are converted differently: comparisons are off (e.g. 19.98 < 19.99 false)")
	conv := w.Fn("toInt64")
	if conv == nil {
		// discover: the (interface{}) -> (int64, error) helper used by the numeric query
		for _, fn := range w.Funcs {
			if fn.Signature.Params().Len() == 1 && fn.Signature.Results().Len() == 2 && tstr(fn.Signature.Results().At(0).Type(), nil) == "int64" &&
				types.IsInterface(fn.Signature.Params().At(0).Type()) {
				conv = fn
			}
		}
	}
	if conv == nil {
		r.Unres(rule, "types:operand-conversion", "operand conversion helper not found")
		return
	}
	r.Analysed(w.Name(conv))
	// expression per asserted type in the conversion helper
	exprOf := func(fn *ssa.Function, sink func(in ssa.Instruction) (ssa.Value, bool)) map[string]string {
		out := map[string]string{}
		e := NewExpr(w)
		e.Leaf = func(v ssa.Value) (string, bool) {
			if ex, ok := v.(*ssa.Extract); ok {
				if ta, ok := ex.Tuple.(*ssa.TypeAssert); ok {
					return "v:" + tstr(ta.AssertedType, nil), true
				}
			}
			if ta, ok := v.(*ssa.TypeAssert); ok {
				return "v:" + tstr(ta.AssertedType, nil), true
			}
			return "", false
		}
		allInstrs(fn, func(in ssa.Instruction) {
			if v, ok := sink(in); ok {
				s := e.S(v)
				if i := strings.Index(s, "v:"); i >= 0 {
					t := s[i+2:]
					for j, ch := range t {
						if !(ch == '_' || ch >= 'a' && ch <= 'z' || ch >= '0' && ch <= '9') {
							t = t[:j]
							break
						}
					}
					out[t] = strings.ReplaceAll(s, "v:"+t, "v")
				}
			}
		})
		return out
	}
	convExpr := exprOf(conv, func(in ssa.Instruction) (ssa.Value, bool) {
		if ret, ok := in.(*ssa.Return); ok && classifyErr(ret) == ErrNil {
			return ret.Results[0], true
		}
		return nil, false
	})
	// Add side: third argument of the numeric adder
	var addExpr map[string]string
	for _, fn := range sameRecvCallees(w, k.Add, 1) {
		if fn != k.Add {
			continue
		}
		addExpr = exprOf(fn, func(in ssa.Instruction) (ssa.Value, bool) {
			call, ok := in.(*ssa.Call)
			if !ok {
				return nil, false
			}
			g := staticCallee(call.Common())
			if g == nil || g.Pkg != w.SPkg || len(call.Call.Args) != 4 {
				return nil, false
			}
			if tstr(call.Call.Args[3].Type(), nil) != "int64" {
				return nil, false
			}
			return call.Call.Args[3], true
		})
	}
	site := w.Pos(conv.Pos()) + " " + w.Name(conv)
	var ts []string
	for t := range convExpr {
		ts = append(ts, t)
	}
	sort.Strings(ts)
	var as []string
	for t := range addExpr {
		as = append(as, t)
	}
	sort.Strings(as)
	r.Check(strings.Join(ts, ",") == strings.Join(as, ",") && len(ts) >= 3, rule, "types:numeric-set", site,
		"numeric types stored by Add = types accepted as operands: "+strings.Join(ts, ","), "Add stores numeric types {"+strings.Join(as, ",")+"} but operands accept {"+strings.Join(ts, ",")+"}")
	for _, t := range ts {
		a, c := addExpr[t], convExpr[t]
		r.Check(a == c && a != "", rule, "types:conversion:"+t, site, t+" is converted by the same expression on both sides: "+c,
			t+" is stored as "+a+" but queried as "+c)
	}
	want := "math.Round(mul(100,v))"
	r.Check(convExpr["float64"] == want, rule, "types:round", site, "float64 → round(v·100): two-decimal fixed point with rounding", "float64 operand conversion is "+convExpr["float64"]+", expected "+want)
	// validation switch and mutation switch of Add accept the same types
	var valSetT, mutSet []string
	seenT := map[string]int{}
	allInstrs(k.Add, func(in ssa.Instruction) {
		if ta, ok := in.(*ssa.TypeAssert); ok && ta.CommaOk {
			seenT[tstr(ta.AssertedType, nil)]++
		}
	})
	for t, n := range seenT {
		if n >= 2 {
			valSetT = append(valSetT, t)
		}
		mutSet = append(mutSet, t)
	}
	sort.Strings(valSetT)
	sort.Strings(mutSet)
	r.Check(strings.Join(valSetT, ",") == strings.Join(mutSet, ","), rule, "types:validate-equals-store", w.Pos(k.Add.Pos())+" "+w.Name(k.Add),
		"the up-front validation accepts exactly the types the store phase handles: "+strings.Join(mutSet, ","),
		"validation accepts {"+strings.Join(valSetT, ",")+"} but the store phase handles {"+strings.Join(mutSet, ",")+"}")
}

// ruleMetaKey: key codec agreement and the prefix match of the existence query.
func ruleMetaKey(r *Run, rule string, k *metaKind) {
	w := r.W
	r.Doc(rule, "exists / eq miss documents because keys are built or matched differently")
	recv := namedTypeName(k.IndexT)
	n := 0
	for _, fn := range w.Funcs {
		if fn.Signature.Recv() == nil || namedTypeName(fn.Signature.Recv().Type()) != recv {
			continue
		}
		for _, call := range callsIn(fn, func(cc *ssa.CallCommon) bool { return calleeName(cc) == "fmt.Sprintf" }) {
			cc := call.Common()
			f, ok := constString(cc.Args[0])
			if !ok || !strings.Contains(f, ":") {
				continue
			}
			n++
			r.Check(f == "%s:%s" || f == "%s:%v", rule, fmt.Sprintf("key:format:%s#%d", w.Name(fn), n), w.InstrPos(call)+" "+w.Name(fn),
				"key = field + \":\" + value ("+f+")", "key format "+f+" differs from field:value")
		}
	}
	if n < 5 {
		r.add(rule, "key:floor", "-", fmt.Sprintf("%d key construction sites, floor is 5", n), Floor)
	}
	// existence: prefix = field + ":", candidate ⇔ len(key) >= len(prefix) ∧ key[:len(prefix)] == prefix   (or strings.HasPrefix)
	var ex *ssa.Function
	for _, fn := range metaQueryFuncs(w, k) {
		if fn.Signature.Params().Len() == 1 && tstr(fn.Signature.Params().At(0).Type(), nil) == "string" {
			ex = fn
		}
	}
	if ex == nil {
		r.Unres(rule, "key:existence", "the existence-bitmap helper was not found")
		return
	}
	r.Analysed(w.Name(ex))
	c := NewCanon(w)
	site := w.Pos(ex.Pos()) + " " + w.Name(ex)
	var lenCmp, eqCmp, hasPrefix bool
	badLen := ""
	allInstrs(ex, func(in ssa.Instruction) {
		switch x := in.(type) {
		case *ssa.BinOp:
			cmp, neg, ok := normCmp(c, x)
			if !ok || neg {
				if ok && cmp.Op == token.EQL && strings.Contains(cmp.L+cmp.R, "(P1+c(\":\"))") {
					// a != comparison: not the expected shape
				}
				if !ok {
					return
				}
			}
			pre := "len((P1+c(\":\")))"
			isKeyLen := func(s string) bool { return strings.HasPrefix(s, "len(next(range(P0.categorical))") }
			if cmp.Op == token.LEQ && cmp.L == pre && isKeyLen(cmp.R) && !neg {
				lenCmp = true
			} else if (cmp.L == pre && isKeyLen(cmp.R)) || (cmp.R == pre && isKeyLen(cmp.L)) {
				badLen = fmt.Sprintf("%s %s %s (negated=%v)", cmp.L, cmp.Op, cmp.R, neg)
			}
			if cmp.Op == token.EQL && !neg && (cmp.L == "(P1+c(\":\"))" || cmp.R == "(P1+c(\":\"))") {
				eqCmp = true
			}
		case *ssa.Call:
			if calleeName(x.Common()) == "strings.HasPrefix" && c.S(x.Call.Args[1]) == "(P1+c(\":\"))" {
				hasPrefix = true
			}
		}
	})
	r.Check(hasPrefix || (lenCmp && eqCmp), rule, "key:existence:prefix", site, "categorical existence: key has prefix field+\":\" (bare prefix key, i.e. empty value, included)",
		"prefix test is not `len(key) >= len(prefix) && key[:len(prefix)] == prefix` / strings.HasPrefix; found length test: "+badLen)
	// numeric existence: Clone of the BSI's existence bitmap for numeric[field]
	okNum := false
	for _, ret := range returnsOf(ex) {
		v := c.S(resultValue(ret, 0))
		if strings.HasPrefix(v, roaringBitmap+"Clone(") && strings.Contains(v, "GetExistenceBitmap(P0.numeric[P1]") {
			okNum = true
		}
	}
	r.Check(okNum, rule, "key:existence:numeric", site, "numeric existence = Clone(numeric[field].GetExistenceBitmap())", "numeric existence answer not found in the expected form")
}

// ruleFilterBuilders: every exported filter constructor builds the operator its name promises over its own arguments.
func ruleFilterBuilders(r *Run, rule string) {
	w := r.W
	r.Doc(rule, "a filter constructor builds another operator (or other operands) than its name says")
	direct := map[string]string{"Eq": "eq", "Ne": "ne", "Gt": "gt", "Gte": "gte", "Lt": "lt", "Lte": "lte", "In": "in", "NotIn": "not_in", "Range": "range", "Exists": "exists", "NotExists": "not_exists"}
	alias := map[string]string{"Between": "Range", "IsNull": "NotExists", "IsNotNull": "Exists", "AnyOf": "In", "NoneOf": "NotIn"}
	n := 0
	for name, op := range direct {
		fn := w.Fn(name)
		if fn == nil {
			r.Unres(rule, "builder:"+name, "not found")
			continue
		}
		n++
		c := NewCanon(w)
		ok := false
		detail := "result is not a Filter literal"
		for _, ret := range returnsOf(fn) {
			f, isLit := litFields(ret.Results[0])
			if !isLit {
				continue
			}
			gotOp, _ := constString(f["Operator"])
			field := ""
			if f["Field"] != nil {
				field = c.S(f["Field"])
			}
			val := ""
			if f["Value"] != nil {
				val = c.S(f["Value"])
			}
			val2 := ""
			if f["Value2"] != nil {
				val2 = c.S(f["Value2"])
			}
			okVal := true
			switch op {
			case "exists", "not_exists":
				okVal = f["Value"] == nil
			case "range":
				okVal = val == "P1" && val2 == "P2"
			default:
				okVal = val == "P1" || (len(fn.Params) > 1 && f["Value"] != nil && isCopyOfParam(f["Value"], fn.Params[1], 0))
			}
			ok = gotOp == op && field == "P0" && okVal
			detail = fmt.Sprintf("Operator=%q Field=%s Value=%s Value2=%s", gotOp, field, val, val2)
		}
		r.Check(ok, rule, "builder:"+name, w.Pos(fn.Pos())+" "+name, name+" builds operator "+op+" over its own field and operands", name+" builds "+detail)
	}
	for name, target := range alias {
		fn := w.Fn(name)
		if fn == nil {
			continue
		}
		n++
		ok := false
		c := NewCanon(w)
		for _, ret := range returnsOf(fn) {
			if call, isCall := ret.Results[0].(*ssa.Call); isCall {
				if g := staticCallee(call.Common()); g != nil && g.Name() == target {
					ok = true
					for i, a := range call.Call.Args {
						if c.S(a) != fmt.Sprintf("P%d", i) {
							ok = false
						}
					}
				}
			}
		}
		r.Check(ok, rule, "builder:"+name, w.Pos(fn.Pos())+" "+name, name+" delegates to "+target+" with its own arguments in order", name+" does not delegate to "+target+" with its arguments in order")
	}
	if n < 14 {
		r.add(rule, "builder:floor", "-", fmt.Sprintf("%d filter constructors found, floor is 14", n), Floor)
	}
}

// isCopyOfParam: v is the parameter, nil where the parameter is nil, or a fresh slice of the parameter's length filled by
// copy(v, param) — a defensive copy.
func isCopyOfParam(v ssa.Value, pm *ssa.Parameter, depth int) bool {
	if depth > 4 {
		return false
	}
	for {
		if mi, ok := v.(*ssa.MakeInterface); ok {
			v = mi.X
			continue
		}
		break
	}
	switch x := v.(type) {
	case *ssa.Parameter:
		return x == pm
	case *ssa.Const:
		return x.Value == nil
	case *ssa.Phi:
		for _, e := range x.Edges {
			if e != v && !isCopyOfParam(e, pm, depth+1) {
				return false
			}
		}
		return true
	case *ssa.MakeSlice:
		lc, ok := x.Len.(*ssa.Call)
		if !ok {
			return false
		}
		if b, isB := lc.Call.Value.(*ssa.Builtin); !isB || b.Name() != "len" || lc.Call.Args[0] != ssa.Value(pm) {
			return false
		}
		copied := false
		for _, ref := range *x.Referrers() {
			if call, isCall := ref.(*ssa.Call); isCall {
				if b, isB := call.Call.Value.(*ssa.Builtin); isB && b.Name() == "copy" && call.Call.Args[0] == ssa.Value(x) && call.Call.Args[1] == ssa.Value(pm) {
					copied = true
				}
			}
		}
		return copied
	}
	return false
}

package main

// report.go — obligations, verdicts, evidence files, known findings.

import (
	"bufio"
	"encoding/json"
	"fmt"
	"os"
	"path/filepath"
	"sort"
	"strings"
	"time"
)

type Status string

const (
	OK        Status = "ok"
	Violation Status = "violation"
	Undecided Status = "undecided"  // the rule could not prove the instance; fails the check
	Unresolv  Status = "unresolved" // an anchor / role could not be located; fails the check
	Floor     Status = "floor"      // fewer instances than confirmed by hand; fails the check
	Info      Status = "info"       // reported, not claimed
)

// Obligation is one evaluated rule instance.
type Obligation struct {
	Rule   string `json:"rule"`   // e.g. C01.ADM
	Key    string `json:"key"`    // stable instance key: rule:construct (never a line number)
	Site   string `json:"site"`   // file:line func
	Detail string `json:"detail"` // what was checked / what was found
	Status Status `json:"status"`
	Breaks string `json:"breaks,omitempty"` // consequence when the rule is broken
}

// Run collects the obligations of one property.
type Run struct {
	W        *World
	Prop     string
	Tier     string
	Obs      []Obligation
	funcs    map[string]bool
	sites    int
	ruleDocs map[string]string
	notes    []string
}

func NewRun(w *World, prop, tier string) *Run {
	return &Run{W: w, Prop: prop, Tier: tier, funcs: map[string]bool{}, ruleDocs: map[string]string{}}
}

func (r *Run) add(rule, key, site, detail string, st Status) {
	k := rule + ":" + key
	r.Obs = append(r.Obs, Obligation{Rule: rule, Key: k, Site: site, Detail: detail, Status: st, Breaks: r.ruleDocs[rule]})
}

// Doc registers the one-line "breaks =>" consequence of a rule (shown in reports).
func (r *Run) Doc(rule, breaks string) { r.ruleDocs[rule] = breaks }

func (r *Run) Ok(rule, key, site, detail string)   { r.add(rule, key, site, detail, OK) }
func (r *Run) Bad(rule, key, site, detail string)  { r.add(rule, key, site, detail, Violation) }
func (r *Run) Und(rule, key, site, detail string)  { r.add(rule, key, site, detail, Undecided) }
func (r *Run) Unres(rule, key, detail string)      { r.add(rule, key, "-", detail, Unresolv) }
func (r *Run) Note(rule, key, site, detail string) { r.add(rule, key, site, detail, Info) }
func (r *Run) Check(cond bool, rule, key, site, okDetail, badDetail string) bool {
	if cond {
		r.Ok(rule, key, site, okDetail)
	} else {
		r.Bad(rule, key, site, badDetail)
	}
	return cond
}

// Analysed records that a function was inspected by some rule.
func (r *Run) Analysed(names ...string) {
	for _, n := range names {
		r.funcs[n] = true
	}
}
func (r *Run) Sites(n int) { r.sites += n }

// FloorCheck fails when a rule matched fewer instances than confirmed by hand.
func (r *Run) FloorCheck(rule string, min int) {
	n := 0
	for _, o := range r.Obs {
		if o.Rule == rule && o.Status != Info {
			n++
		}
	}
	if n < min {
		r.add(rule, "floor", "-", fmt.Sprintf("rule matched %d instances, floor confirmed by hand is %d — a rule that matches nothing passes vacuously", n, min), Floor)
	}
}

// ---------------------------------------------------------------- known findings

type KnownFinding struct {
	Property string `json:"property"`
	Key      string `json:"key"`    // obligation key
	Status   string `json:"status"` // "known" | "fixed"
	Commit   string `json:"commit,omitempty"`
	What     string `json:"what"`
}

func loadKnown(path string) ([]KnownFinding, error) {
	f, err := os.Open(path)
	if err != nil {
		if os.IsNotExist(err) {
			return nil, nil
		}
		return nil, err
	}
	defer f.Close()
	var out []KnownFinding
	sc := bufio.NewScanner(f)
	sc.Buffer(make([]byte, 1<<20), 1<<20)
	for sc.Scan() {
		line := strings.TrimSpace(sc.Text())
		if line == "" || strings.HasPrefix(line, "#") {
			continue
		}
		var k KnownFinding
		if err := json.Unmarshal([]byte(line), &k); err != nil {
			return nil, fmt.Errorf("known findings: %w", err)
		}
		out = append(out, k)
	}
	return out, sc.Err()
}

// ---------------------------------------------------------------- evidence

type propMeta struct {
	Explanation string
	NotDecided  string
	Assumptions []string
}

// Finish prints the verdict lines, writes evidence and findings, returns the exit code.
func (r *Run) Finish(verifDir string, meta propMeta, start time.Time, seed int) int {
	known, err := loadKnown(filepath.Join(verifDir, "KNOWN_FINDINGS.jsonl"))
	if err != nil {
		fmt.Println("ERROR:", err)
		return 2
	}
	knownKeys := map[string]KnownFinding{}
	for _, k := range known {
		if k.Status == "known" && k.Property == r.Prop {
			knownKeys[k.Key] = k
		}
	}
	sort.SliceStable(r.Obs, func(i, j int) bool { return r.Obs[i].Key < r.Obs[j].Key })

	okN, infoN := 0, 0
	var failing, knownHit []Obligation
	perRule := map[string]int{}
	for _, o := range r.Obs {
		switch o.Status {
		case OK:
			okN++
			perRule[o.Rule]++
		case Info:
			infoN++
		default:
			perRule[o.Rule]++
			if _, ok := knownKeys[o.Key]; ok && o.Status == Violation {
				knownHit = append(knownHit, o)
			} else {
				failing = append(failing, o)
			}
		}
	}
	exit := 0
	os.MkdirAll(filepath.Join(verifDir, "findings"), 0o755)
	for _, o := range knownHit {
		fmt.Printf("KNOWN-FINDING: property=%s %s — %s [%s]\n", r.Prop, o.Key, knownKeys[o.Key].What, o.Site)
	}
	for _, o := range failing {
		exit = 1
		name := strings.NewReplacer("/", "_", ":", "_", " ", "_", "*", "", "(", "", ")", "", "#", "_", "$", "_").Replace(o.Key)
		path := filepath.Join(verifDir, "findings", r.Prop+"-"+name+".json")
		b, _ := json.MarshalIndent(map[string]any{
			"property": r.Prop, "rule": o.Rule, "key": o.Key, "site": o.Site, "kind": o.Status,
			"detail": o.Detail, "breaks": o.Breaks, "tier": r.Tier,
		}, "", " ")
		os.WriteFile(path, b, 0o644)
		fmt.Printf("%s %s at %s: %s\n", strings.ToUpper(string(o.Status)), o.Key, o.Site, o.Detail)
		fmt.Printf("VIOLATION property=%s replay=%s\n", r.Prop, path)
	}

	// evidence
	obligations := 0
	for _, o := range r.Obs {
		if o.Status != Info {
			obligations++
		}
	}
	var samples []any
	seenRule := map[string]int{}
	for _, o := range r.Obs {
		if o.Status == Info {
			continue
		}
		if seenRule[o.Rule] < 2 || o.Status != OK {
			samples = append(samples, o)
			seenRule[o.Rule]++
		}
	}
	var infos []Obligation
	for _, o := range r.Obs {
		if o.Status == Info {
			infos = append(infos, o)
		}
	}
	var fl []string
	for f := range r.funcs {
		fl = append(fl, f)
	}
	sort.Strings(fl)
	distinct := map[string]bool{}
	for _, o := range r.Obs {
		if o.Status != Info {
			distinct[o.Key] = true
		}
	}
	ev := map[string]any{
		"property_id": r.Prop,
		"tier":        r.Tier,
		"seed":        seed,
		"level":       "other",
		"coverage": map[string]any{
			"explanation":          meta.Explanation + " NOT DECIDED: " + meta.NotDecided,
			"obligations":          obligations,
			"discharged":           okN,
			"known_findings_hit":   len(knownHit),
			"evaluations":          obligations,
			"distinct_nontrivial":  len(distinct),
			"rule":                 "obligations are rule instances located in the type-checked SSA of /repo's working tree (resolved callees, dominance, path enumeration, value flow); each instance is keyed rule:construct; an instance is non-trivial when it names a concrete construct (function, call site, field) — counted as distinct keys",
			"samples":              samples,
			"reported_not_claimed": infos,
			"instances_per_rule":   perRule,
			"functions_analysed":   fl,
			"n_functions":          len(fl),
			"call_sites":           r.sites,
			"files_loaded":         r.W.files,
			"source_functions":     len(r.W.Funcs),
			"build_tags":           r.W.Tags,
			"checker_cmd":          "bin/cometlint -prop " + r.Prop + " -tier " + r.Tier,
			"trusted_base":         []string{"go/parser, go/types, go/ssa (x/tools v0.50.0)", "documented contracts of stdlib/roaring listed in DESIGN.md section 2"},
			"exhaustive":           false,
			"notes":                r.notes,
			"seeded_selftest":      os.Getenv("VERIF_SELFTEST_SUMMARY"),
			"extra_configurations": map[string]string{"thorough": "rules re-run under GOARCH=386 and -tags verif before this run (thorough.sh)"}[r.Tier],
		},
		"assumptions": meta.Assumptions,
		"wall_s":      time.Since(start).Seconds(),
		"violations":  len(failing),
	}
	os.MkdirAll(filepath.Join(verifDir, "evidence"), 0o755)
	b, _ := json.MarshalIndent(ev, "", " ")
	if err := os.WriteFile(filepath.Join(verifDir, "evidence", r.Prop+".json"), b, 0o644); err != nil {
		fmt.Println("ERROR: cannot write evidence:", err)
		return 2
	}
	fmt.Printf("%s %s: %d obligations, %d discharged, %d known findings, %d failing, %d reported-not-claimed; %d functions analysed (%.2fs)\n",
		r.Prop, r.Tier, obligations, okN, len(knownHit), len(failing), infoN, len(fl), time.Since(start).Seconds())
	return exit
}

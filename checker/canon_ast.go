package main

// canon_ast.go — spelling normal form of the source, applied before the inlining normal form (normalize.go).
//
// Several rules read the syntax tree (the serialisation grammar extractor above all) or recognise a guard by its shape.
// Four rewrites that cannot change behaviour are undone here so that every rule sees one spelling:
//
//	A  constant first:        nil != err, 0 == n, 1 != version   →  err != nil, n == 0, version != 1
//	   counted loop reversed: for i := 0; n > i; i++             →  for i := 0; i < n; i++
//	B  named once:            c := COND; if c {…} / if !c {…}    →  if COND {…}      (c has no other use)
//	                          r := E; return r                   →  return E          (r has no other use)
//	C  negated with else:     if !(X) {A} else {B}               →  if X {B} else {A}
//	E  long-hand updates:     x = x + e, i += 1, var x = e (in a function)  →  x += e, i++, x := e
//	D  predicate chosen once: f := func(a, b T) bool { return E1 }; if c { f = func(a, b T) bool { return E2 } }; … f(x, y) …
//	                          →  … ((c && E2[x,y]) || (!c && E1[x,y])) …   (c a never-assigned boolean variable; every parameter
//	                          used exactly once and in order, so the arguments are evaluated once, in order, as before)
//
//	G  iterator adapters:     for i, x := range slices.Backward(xs) {…}  →  for i := len(xs) - 1; i >= 0; i-- { x := xs[i]; … }
//	                          for i, x := range slices.All(xs) / for x := range slices.Values(xs)  →  for i, x := range xs / for _, x := range xs
//	                          (xs a variable or field path the body does not assign; go/ssa turns a range over a function
//	                          into a closure per loop body, which no rule follows)
//	H  range over an integer: for i := range n {…}  →  for i := 0; i < n; i++ {…}   (n a constant, a variable or field path, or
//	                          len of one, that the body does not assign; i not assigned in the body — the rules know counted loops)
//	I  library copy loops:    maps.Copy(dst, src)  →  for k, v := range src { dst[k] = v }   (its definition; dst, src variables or field paths)
//	F  receiver restored:     func m(x *T, a A) of a routine the pinned tree knows as method (*T).m(a A), with its calls
//	                          m(v, a)  →  func (x *T) m(a A), (v).m(a)   (the rules find such routines among T's methods)
//
// The pinned tree contains none of these spellings, so on the unchanged tree the pass is the identity. The rewritten text
// is type-checked with the rest of the overlay; an ill-typed result discards the pass.

import (
	"fmt"
	"go/ast"
	"go/token"
	"go/types"
	"os"
	"sort"
	"strings"

	"golang.org/x/tools/go/packages"
)

var cmpFlip = map[token.Token]token.Token{token.LSS: token.GTR, token.GTR: token.LSS, token.LEQ: token.GEQ, token.GEQ: token.LEQ, token.EQL: token.EQL, token.NEQ: token.NEQ}

// canonicalSpelling returns, per file that changes, the rewritten source.
func canonicalSpelling(p *packages.Package, overlay map[string][]byte) map[string][]byte {
	if out := restoreReceivers(p, overlay); len(out) > 0 {
		return out // on its own: the edits span files; the other rewrites follow in the next pass
	}
	out := map[string][]byte{}
	info := p.TypesInfo
	uses := map[types.Object]int{}
	for _, obj := range info.Uses {
		uses[obj]++
	}
	for i, f := range p.Syntax {
		if i >= len(p.CompiledGoFiles) {
			continue
		}
		name := p.CompiledGoFiles[i]
		src, ok := overlay[name]
		if !ok {
			b, err := os.ReadFile(name)
			if err != nil {
				continue
			}
			src = b
		}
		off := func(pos token.Pos) int { return p.Fset.Position(pos).Offset }
		text := func(n ast.Node) string { return string(src[off(n.Pos()):off(n.End())]) }
		usedSlices := false
		usedMaps := false
		// a rewrite is a group of edits that stand or fall together
		var groups [][]inlineEdit
		var cur []inlineEdit
		add := func(s, e int, t string) { cur = append(cur, inlineEdit{s, e, []byte(t)}) }
		flush := func() {
			if len(cur) > 0 {
				groups = append(groups, cur)
				cur = nil
			}
		}
		isConstLike := func(e ast.Expr) bool {
			tv, ok := info.Types[e]
			return ok && (tv.Value != nil || tv.IsNil())
		}
		stripParens := func(e ast.Expr) ast.Expr {
			for {
				pe, ok := e.(*ast.ParenExpr)
				if !ok {
					return e
				}
				e = pe.X
			}
		}
		// loop variables of counted loops: identifiers assigned by the post statement
		loopVarOf := func(fs *ast.ForStmt) types.Object {
			switch post := fs.Post.(type) {
			case *ast.IncDecStmt:
				if id, ok := post.X.(*ast.Ident); ok {
					return info.Uses[id]
				}
			case *ast.AssignStmt:
				if len(post.Lhs) == 1 {
					if id, ok := post.Lhs[0].(*ast.Ident); ok {
						return info.Uses[id]
					}
				}
			}
			return nil
		}
		doList := func(list []ast.Stmt) {
			for i := 0; i+1 < len(list); i++ {
				as, ok := list[i].(*ast.AssignStmt)
				if !ok || as.Tok != token.DEFINE || len(as.Lhs) != 1 || len(as.Rhs) != 1 {
					continue
				}
				id, ok := as.Lhs[0].(*ast.Ident)
				if !ok || id.Name == "_" {
					continue
				}
				obj := info.Defs[id]
				if obj == nil || uses[obj] != 1 {
					continue
				}
				if _, isLit := as.Rhs[0].(*ast.FuncLit); isLit {
					continue
				}
				switch next := list[i+1].(type) {
				case *ast.IfStmt:
					if next.Init != nil {
						continue
					}
					c := stripParens(next.Cond)
					neg := false
					if u, isU := c.(*ast.UnaryExpr); isU && u.Op == token.NOT {
						neg = true
						c = stripParens(u.X)
					}
					cid, isId := c.(*ast.Ident)
					if !isId || info.Uses[cid] != obj {
						continue
					}
					rhs := text(as.Rhs[0])
					if neg {
						add(off(next.Cond.Pos()), off(next.Cond.End()), "!("+rhs+")")
					} else {
						add(off(next.Cond.Pos()), off(next.Cond.End()), rhs)
					}
					add(off(as.Pos()), off(as.End()), "")
					flush()
				case *ast.ReturnStmt:
					if len(next.Results) != 1 {
						continue
					}
					rid, isId := stripParens(next.Results[0]).(*ast.Ident)
					if !isId || info.Uses[rid] != obj {
						continue
					}
					// the declared type of the variable is the type of the expression (no conversion is lost: the
					// return converts either to the result type)
					add(off(next.Results[0].Pos()), off(next.Results[0].End()), text(as.Rhs[0]))
					add(off(as.Pos()), off(as.End()), "")
					flush()
				}
			}
		}
		// D: a predicate literal chosen once by a boolean that is never assigned
		assigned := map[types.Object]bool{}
		ast.Inspect(f, func(n ast.Node) bool {
			switch y := n.(type) {
			case *ast.AssignStmt:
				if y.Tok != token.DEFINE {
					for _, l := range y.Lhs {
						if id, ok := l.(*ast.Ident); ok {
							assigned[info.Uses[id]] = true
						}
					}
				}
			case *ast.IncDecStmt:
				if id, ok := y.X.(*ast.Ident); ok {
					assigned[info.Uses[id]] = true
				}
			case *ast.UnaryExpr:
				if id, ok := y.X.(*ast.Ident); ok && y.Op == token.AND {
					assigned[info.Uses[id]] = true
				}
			}
			return true
		})
		// single-return predicate literal: (params in order, body expression)
		predicate := func(e ast.Expr) (*ast.FuncLit, ast.Expr, bool) {
			lit, ok := e.(*ast.FuncLit)
			if !ok || len(lit.Body.List) != 1 || lit.Type.Results == nil || len(lit.Type.Results.List) != 1 {
				return nil, nil, false
			}
			ret, ok := lit.Body.List[0].(*ast.ReturnStmt)
			if !ok || len(ret.Results) != 1 {
				return nil, nil, false
			}
			if t := info.TypeOf(ret.Results[0]); t == nil || !types.Identical(t.Underlying(), types.Typ[types.Bool]) && !types.Identical(t, types.Typ[types.UntypedBool]) {
				return nil, nil, false
			}
			// every parameter is used exactly once, in declaration order
			var params []types.Object
			for _, fl := range lit.Type.Params.List {
				for _, nm := range fl.Names {
					params = append(params, info.Defs[nm])
				}
			}
			var order []types.Object
			okBody := true
			ast.Inspect(ret.Results[0], func(m ast.Node) bool {
				switch y := m.(type) {
				case *ast.FuncLit:
					okBody = false
				case *ast.Ident:
					obj := info.Uses[y]
					for _, p := range params {
						if p == obj {
							order = append(order, obj)
						}
					}
				}
				return true
			})
			if !okBody || len(order) != len(params) {
				return nil, nil, false
			}
			for i := range params {
				if order[i] != params[i] {
					return nil, nil, false
				}
			}
			return lit, ret.Results[0], true
		}
		substituted := func(lit *ast.FuncLit, body ast.Expr, args []ast.Expr) string {
			// textual substitution of the parameters by the parenthesised argument texts
			type rep struct {
				s, e int
				t    string
			}
			var reps []rep
			idx := map[types.Object]int{}
			k := 0
			for _, fl := range lit.Type.Params.List {
				for _, nm := range fl.Names {
					idx[info.Defs[nm]] = k
					k++
				}
			}
			ast.Inspect(body, func(m ast.Node) bool {
				if id, ok := m.(*ast.Ident); ok {
					if i, isP := idx[info.Uses[id]]; isP && info.Uses[id] != nil {
						reps = append(reps, rep{off(id.Pos()) - off(body.Pos()), off(id.End()) - off(body.Pos()), "(" + text(args[i]) + ")"})
					}
				}
				return true
			})
			b := []byte(text(body))
			sort.Slice(reps, func(i, j int) bool { return reps[i].s > reps[j].s })
			for _, r := range reps {
				b = append(append(append([]byte{}, b[:r.s]...), r.t...), b[r.e:]...)
			}
			return string(b)
		}
		doPredicates := func(list []ast.Stmt) {
			for i := 0; i+1 < len(list); i++ {
				as, ok := list[i].(*ast.AssignStmt)
				if !ok || as.Tok != token.DEFINE || len(as.Lhs) != 1 || len(as.Rhs) != 1 {
					continue
				}
				fid, ok := as.Lhs[0].(*ast.Ident)
				if !ok {
					continue
				}
				fobj := info.Defs[fid]
				litA, bodyA, ok := predicate(as.Rhs[0])
				if !ok || fobj == nil {
					continue
				}
				iff, ok := list[i+1].(*ast.IfStmt)
				if !ok || iff.Init != nil || iff.Else != nil || len(iff.Body.List) != 1 {
					continue
				}
				re, ok := iff.Body.List[0].(*ast.AssignStmt)
				if !ok || re.Tok != token.ASSIGN || len(re.Lhs) != 1 || len(re.Rhs) != 1 {
					continue
				}
				if id, ok := re.Lhs[0].(*ast.Ident); !ok || info.Uses[id] != fobj {
					continue
				}
				litB, bodyB, ok := predicate(re.Rhs[0])
				if !ok {
					continue
				}
				// the selector: a boolean variable (possibly negated) that is never assigned
				sel := stripParens(iff.Cond)
				if u, isU := sel.(*ast.UnaryExpr); isU && u.Op == token.NOT {
					sel = stripParens(u.X)
				}
				sid, ok := sel.(*ast.Ident)
				if !ok || info.Uses[sid] == nil || assigned[info.Uses[sid]] {
					continue
				}
				if _, isVar := info.Uses[sid].(*types.Var); !isVar {
					continue
				}
				// every other use of f is a call with the right number of arguments
				var calls []*ast.CallExpr
				okUses := true
				nUses := 0
				ast.Inspect(f, func(m ast.Node) bool {
					if c, isCall := m.(*ast.CallExpr); isCall {
						if id, isId := c.Fun.(*ast.Ident); isId && info.Uses[id] == fobj {
							calls = append(calls, c)
						}
					}
					if id, isId := m.(*ast.Ident); isId && info.Uses[id] == fobj {
						nUses++
					}
					return true
				})
				if nUses != len(calls)+1 { // + the re-assignment
					okUses = false
				}
				for _, c := range calls {
					if len(c.Args) != litA.Type.Params.NumFields() || len(c.Args) != litB.Type.Params.NumFields() || c.Ellipsis.IsValid() {
						okUses = false
					}
				}
				if !okUses || len(calls) == 0 {
					continue
				}
				cond := text(iff.Cond)
				for _, c := range calls {
					add(off(c.Pos()), off(c.End()), "(("+cond+") && ("+substituted(litB, bodyB, c.Args)+") || !("+cond+") && ("+substituted(litA, bodyA, c.Args)+"))")
				}
				add(off(as.Pos()), off(as.End()), "")
				add(off(iff.Pos()), off(iff.End()), "")
				flush()
			}
		}
		ast.Inspect(f, func(n ast.Node) bool {
			switch x := n.(type) {
			case *ast.BlockStmt:
				doPredicates(x.List)
			}
			return true
		})
		ast.Inspect(f, func(n ast.Node) bool {
			switch x := n.(type) {
			case *ast.BlockStmt:
				doList(x.List)
			case *ast.CaseClause:
				doList(x.Body)
			case *ast.CommClause:
				doList(x.Body)
			case *ast.AssignStmt:
				if len(x.Lhs) == 1 && len(x.Rhs) == 1 {
					switch x.Tok {
					case token.ASSIGN:
						// x = x op e  →  x op= e   (x a plain variable or field path)
						if be, ok := stripParens(x.Rhs[0]).(*ast.BinaryExpr); ok && plainLvalue(x.Lhs[0]) && text(be.X) == text(x.Lhs[0]) {
							if opTok, ok := map[token.Token]string{token.ADD: "+=", token.SUB: "-=", token.MUL: "*=", token.QUO: "/="}[be.Op]; ok {
								add(off(x.Pos()), off(x.End()), text(x.Lhs[0])+" "+opTok+" "+text(stripParens(be.Y)))
								flush()
							}
						}
					case token.ADD_ASSIGN, token.SUB_ASSIGN:
						// i += 1  →  i++
						if bl, ok := stripParens(x.Rhs[0]).(*ast.BasicLit); ok && bl.Kind == token.INT && bl.Value == "1" {
							if t := info.TypeOf(x.Lhs[0]); t != nil {
								if b, isB := t.Underlying().(*types.Basic); isB && b.Info()&types.IsInteger != 0 {
									op := "++"
									if x.Tok == token.SUB_ASSIGN {
										op = "--"
									}
									add(off(x.Pos()), off(x.End()), text(x.Lhs[0])+op)
									flush()
								}
							}
						}
					}
				}
			case *ast.DeclStmt:
				// var x = e  →  x := e
				if gd, ok := x.Decl.(*ast.GenDecl); ok && gd.Tok == token.VAR && len(gd.Specs) == 1 && !gd.Lparen.IsValid() {
					if vs, ok := gd.Specs[0].(*ast.ValueSpec); ok && vs.Type == nil && len(vs.Names) == 1 && len(vs.Values) == 1 && vs.Names[0].Name != "_" {
						if tv, ok := info.Types[vs.Values[0]]; ok && !tv.IsNil() {
							add(off(x.Pos()), off(x.End()), vs.Names[0].Name+" := "+text(vs.Values[0]))
							flush()
						}
					}
				}
			case *ast.BinaryExpr:
				if t, ok := cmpFlip[x.Op]; ok && isConstLike(x.X) && !isConstLike(x.Y) {
					add(off(x.Pos()), off(x.End()), text(x.Y)+" "+t.String()+" "+text(x.X))
					flush()
				}
			case *ast.ExprStmt:
				if call, ok := x.X.(*ast.CallExpr); ok && len(call.Args) == 2 && plainLvalue(call.Args[0]) && plainLvalue(call.Args[1]) {
					if sel, ok := call.Fun.(*ast.SelectorExpr); ok && sel.Sel.Name == "Copy" {
						if pk, ok := sel.X.(*ast.Ident); ok {
							if pn, ok := info.Uses[pk].(*types.PkgName); ok && pn.Imported().Path() == "maps" {
								kN, vN := fmt.Sprintf("kCopy%d", off(x.Pos())), fmt.Sprintf("vCopy%d", off(x.Pos()))
								add(off(x.Pos()), off(x.End()), "for "+kN+", "+vN+" := range "+text(call.Args[1])+" {\n"+text(call.Args[0])+"["+kN+"] = "+vN+"\n}")
								usedMaps = true
								flush()
							}
						}
					}
				}
			case *ast.RangeStmt:
				if tx := info.TypeOf(x.X); tx != nil && x.Value == nil && (x.Tok == token.DEFINE || x.Key == nil) {
					if bt, isBasic := tx.Underlying().(*types.Basic); isBasic && bt.Info()&types.IsInteger != 0 {
						// the bound is invariant
						inner := ast.Expr(x.X)
						if c, isCall := inner.(*ast.CallExpr); isCall && len(c.Args) == 1 {
							if id, ok := c.Fun.(*ast.Ident); ok && id.Name == "len" {
								inner = c.Args[0]
							}
						}
						invariant := isConstLike(x.X) || (plainLvalue(inner) && !assignsTo(info, x.Body, inner))
						key := "iRange"
						keyAssigned := false
						if kid, ok := x.Key.(*ast.Ident); ok && kid.Name != "_" {
							key = kid.Name
							kobj := info.Defs[kid]
							ast.Inspect(x.Body, func(m ast.Node) bool {
								switch y := m.(type) {
								case *ast.AssignStmt:
									for _, l := range y.Lhs {
										if id, ok := l.(*ast.Ident); ok && info.Uses[id] == kobj {
											keyAssigned = true
										}
									}
								case *ast.IncDecStmt:
									if id, ok := y.X.(*ast.Ident); ok && info.Uses[id] == kobj {
										keyAssigned = true
									}
								case *ast.UnaryExpr:
									if id, ok := y.X.(*ast.Ident); ok && y.Op == token.AND && info.Uses[id] == kobj {
										keyAssigned = true
									}
								}
								return true
							})
						} else if x.Key != nil {
							if _, isId := x.Key.(*ast.Ident); !isId {
								invariant = false
							}
						}
						if invariant && !keyAssigned {
							zero := "0"
							kt := tx
							if bt.Info()&types.IsUntyped != 0 {
								kt = types.Typ[types.Int]
							}
							if !types.Identical(kt, types.Typ[types.Int]) {
								zero = tstr(kt, qual) + "(0)"
							}
							hdr := "for " + key + " := " + zero + "; " + key + " < " + text(x.X) + "; " + key + "++ {"
							if key == "iRange" {
								hdr += "\n_ = iRange"
							}
							add(off(x.Pos()), off(x.Body.Lbrace)+1, hdr)
							flush()
						}
					}
				}
				// the adapter over an expression that is not a plain variable (`slices.Backward(q.list())`): the expression is
				// evaluated once into a fresh variable in front of the loop (not when the loop carries a label)
				if call, ok := x.X.(*ast.CallExpr); ok && len(call.Args) == 1 && x.Tok == token.DEFINE && !plainLvalue(call.Args[0]) {
					if sel, ok := call.Fun.(*ast.SelectorExpr); ok && (sel.Sel.Name == "Backward" || sel.Sel.Name == "All" || sel.Sel.Name == "Values") {
						if pk, ok := sel.X.(*ast.Ident); ok {
							if pn, ok := info.Uses[pk].(*types.PkgName); ok && pn.Imported().Path() == "slices" {
								if _, isSlice := info.TypeOf(call.Args[0]).Underlying().(*types.Slice); isSlice {
									labelled := false
									for j := off(x.Pos()) - 1; j >= 0; j-- {
										ch := src[j]
										if ch == ' ' || ch == '\t' || ch == '\n' || ch == '\r' {
											continue
										}
										labelled = ch == ':'
										break
									}
									if !labelled {
										tmp := fmt.Sprintf("iterSrc%d", off(x.Pos()))
										add(off(x.Pos()), off(x.Pos()), tmp+" := "+text(call.Args[0])+"\n")
										add(off(call.Args[0].Pos()), off(call.Args[0].End()), tmp)
										flush()
									}
								}
							}
						}
					}
				}
				if call, ok := x.X.(*ast.CallExpr); ok && len(call.Args) == 1 && x.Tok == token.DEFINE && plainLvalue(call.Args[0]) {
					if sel, ok := call.Fun.(*ast.SelectorExpr); ok {
						if pk, ok := sel.X.(*ast.Ident); ok {
							if pn, ok := info.Uses[pk].(*types.PkgName); ok && pn.Imported().Path() == "slices" {
								if _, isSlice := info.TypeOf(call.Args[0]).Underlying().(*types.Slice); isSlice && !assignsTo(info, x.Body, call.Args[0]) {
									xs := text(call.Args[0])
									key, val := "_", ""
									if x.Key != nil {
										key = text(x.Key)
									}
									if x.Value != nil {
										val = text(x.Value)
									}
									hdrEnd := off(x.Body.Lbrace) + 1
									switch sel.Sel.Name {
									case "All":
										if val == "" {
											add(off(x.Pos()), hdrEnd, "for "+key+" := range "+xs+" {")
										} else {
											add(off(x.Pos()), hdrEnd, "for "+key+", "+val+" := range "+xs+" {")
										}
										usedSlices = true
										flush()
									case "Values":
										add(off(x.Pos()), hdrEnd, "for _, "+key+" := range "+xs+" {")
										usedSlices = true
										flush()
									case "Backward":
										k := key
										if k == "_" {
											k = "iBackward"
										}
										hdr := "for " + k + " := len(" + xs + ") - 1; " + k + " >= 0; " + k + "-- {"
										if val != "" && val != "_" {
											hdr += "\n" + val + " := " + xs + "[" + k + "]\n_ = " + val
										}
										add(off(x.Pos()), hdrEnd, hdr)
										usedSlices = true
										flush()
									}
								}
							}
						}
					}
				}
			case *ast.ForStmt:
				if be, ok := x.Cond.(*ast.BinaryExpr); ok && (be.Op == token.GTR || be.Op == token.GEQ) {
					if lv := loopVarOf(x); lv != nil {
						if id, isId := stripParens(be.Y).(*ast.Ident); isId && info.Uses[id] == lv && !isConstLike(be.X) {
							add(off(be.Pos()), off(be.End()), text(be.Y)+" "+cmpFlip[be.Op].String()+" "+text(be.X))
							flush()
						}
					}
				}
			case *ast.IfStmt:
				if blk, ok := x.Else.(*ast.BlockStmt); ok {
					if u, isU := stripParens(x.Cond).(*ast.UnaryExpr); isU && u.Op == token.NOT {
						add(off(x.Cond.Pos()), off(x.Cond.End()), text(stripParens(u.X)))
						add(off(x.Body.Pos()), off(x.Body.End()), text(blk))
						add(off(blk.Pos()), off(blk.End()), text(x.Body))
						flush()
					}
				}
			}
			return true
		})
		if len(groups) == 0 {
			continue
		}
		// outermost-first; a group that overlaps a kept one waits for the next pass
		span := func(g []inlineEdit) (int, int) {
			lo, hi := g[0].start, g[0].end
			for _, e := range g {
				if e.start < lo {
					lo = e.start
				}
				if e.end > hi {
					hi = e.end
				}
			}
			return lo, hi
		}
		sort.SliceStable(groups, func(i, j int) bool {
			li, hi := span(groups[i])
			lj, hj := span(groups[j])
			if li != lj {
				return li < lj
			}
			return hi > hj
		})
		var kept []inlineEdit
		overlaps := func(e inlineEdit) bool {
			for _, k := range kept {
				if e.start < k.end && k.start < e.end {
					return true
				}
				if e.start == e.end && k.start <= e.start && e.start < k.end {
					return true
				}
			}
			return false
		}
		for _, g := range groups {
			okG := true
			for _, e := range g {
				if overlaps(e) {
					okG = false
				}
			}
			if okG {
				kept = append(kept, g...)
			}
		}
		sort.Slice(kept, func(i, j int) bool { return kept[i].start < kept[j].start })
		var b []byte
		pos := 0
		for _, e := range kept {
			b = append(b, src[pos:e.start]...)
			b = append(b, e.text...)
			pos = e.end
		}
		b = append(b, src[pos:]...)
		if usedSlices {
			b = append(b, []byte("\nvar _ = slices.Reverse[[]int] // keeps the import in use after the iterator adapters were unfolded\n")...)
		}
		if usedMaps {
			b = append(b, []byte("\nvar _ = maps.Copy[map[int]int, map[int]int] // keeps the import in use after maps.Copy was unfolded\n")...)
		}
		out[name] = b
	}
	return out
}

// assignsTo: the body assigns to the variable (or field path) x, or to a prefix of it.
func assignsTo(info *types.Info, body ast.Node, x ast.Expr) bool {
	root := x
	for {
		if se, ok := root.(*ast.SelectorExpr); ok {
			root = se.X
			continue
		}
		break
	}
	rid, ok := root.(*ast.Ident)
	if !ok {
		return true
	}
	obj := info.Uses[rid]
	found := false
	ast.Inspect(body, func(n ast.Node) bool {
		switch y := n.(type) {
		case *ast.AssignStmt:
			for _, l := range y.Lhs {
				l2 := l
				for {
					if se, ok := l2.(*ast.SelectorExpr); ok {
						l2 = se.X
						continue
					}
					break
				}
				if id, ok := l2.(*ast.Ident); ok && info.Uses[id] == obj && obj != nil {
					if _, isIdx := l.(*ast.IndexExpr); !isIdx {
						found = true
					}
				}
			}
		case *ast.UnaryExpr:
			if y.Op == token.AND {
				if id, ok := y.X.(*ast.Ident); ok && info.Uses[id] == obj {
					found = true
				}
			}
		}
		return true
	})
	return found
}

// restoreReceivers: rewrite F.
func restoreReceivers(p *packages.Package, overlay map[string][]byte) map[string][]byte {
	info := p.TypesInfo
	srcOf := func(name string) []byte {
		if b, ok := overlay[name]; ok {
			return b
		}
		b, _ := os.ReadFile(name)
		return b
	}
	off := func(pos token.Pos) int { return p.Fset.Position(pos).Offset }
	fileName := map[*ast.File]string{}
	for i, f := range p.Syntax {
		if i < len(p.CompiledGoFiles) {
			fileName[f] = p.CompiledGoFiles[i]
		}
	}
	type restore struct {
		fd   *ast.FuncDecl
		file *ast.File
	}
	cands := map[*types.Func]restore{}
	for _, f := range p.Syntax {
		for _, d := range f.Decls {
			fd, ok := d.(*ast.FuncDecl)
			if !ok || fd.Recv != nil || fd.Body == nil || fd.Name.IsExported() || fd.Type.TypeParams != nil || fd.Type.Params == nil || len(fd.Type.Params.List) == 0 {
				continue
			}
			first := fd.Type.Params.List[0]
			if len(first.Names) != 1 || first.Names[0].Name == "_" {
				continue
			}
			obj, _ := info.Defs[fd.Name].(*types.Func)
			if obj == nil {
				continue
			}
			if _, plainKnown := funcInventory[fd.Name.Name]; plainKnown {
				continue
			}
			sig := obj.Type().(*types.Signature)
			rt := sig.Params().At(0).Type()
			named := rt
			if pt, isPtr := rt.(*types.Pointer); isPtr {
				named = pt.Elem()
			}
			nt, isNamed := named.(*types.Named)
			if !isNamed || nt.Obj().Pkg() != p.Types {
				continue
			}
			key := "(" + tstr(rt, qual) + ")." + fd.Name.Name
			want, known := funcInventory[unaliasTypes(key)]
			if !known {
				continue
			}
			// no method of that name today
			if o, _, _ := types.LookupFieldOrMethod(rt, true, p.Types, fd.Name.Name); o != nil {
				continue
			}
			var ps, rs []string
			for i := 1; i < sig.Params().Len(); i++ {
				ps = append(ps, tstr(sig.Params().At(i).Type(), qual))
			}
			for i := 0; i < sig.Results().Len(); i++ {
				rs = append(rs, tstr(sig.Results().At(i).Type(), qual))
			}
			got := strings.ReplaceAll(tstr(rt, qual)+"|"+strings.Join(ps, ",")+"|"+strings.Join(rs, ","), "any", "interface{}")
			if got != want || sig.Variadic() && sig.Params().Len() == 1 {
				continue
			}
			cands[obj] = restore{fd, f}
		}
	}
	if len(cands) == 0 {
		return nil
	}
	// uses: calls only
	type callUse struct {
		file *ast.File
		call *ast.CallExpr
	}
	calls := map[*types.Func][]callUse{}
	nUses := map[*types.Func]int{}
	for _, f := range p.Syntax {
		ast.Inspect(f, func(n ast.Node) bool {
			switch x := n.(type) {
			case *ast.CallExpr:
				if id, ok := x.Fun.(*ast.Ident); ok {
					if fo, ok := info.Uses[id].(*types.Func); ok {
						if _, isCand := cands[fo]; isCand && len(x.Args) >= 1 {
							calls[fo] = append(calls[fo], callUse{f, x})
						}
					}
				}
			case *ast.Ident:
				if fo, ok := info.Uses[x].(*types.Func); ok {
					if _, isCand := cands[fo]; isCand {
						nUses[fo]++
					}
				}
			}
			return true
		})
	}
	edits := map[string][]inlineEdit{}
	for fo, rc := range cands {
		if nUses[fo] != len(calls[fo]) {
			continue // used as a value somewhere
		}
		fd := rc.fd
		name := fileName[rc.file]
		src := srcOf(name)
		first := fd.Type.Params.List[0]
		rest := ""
		if len(fd.Type.Params.List) > 1 {
			rest = string(src[off(fd.Type.Params.List[1].Pos()):off(fd.Type.Params.Closing)])
		}
		edits[name] = append(edits[name], inlineEdit{off(fd.Name.Pos()), off(fd.Type.Params.End()),
			[]byte("(" + string(src[off(first.Pos()):off(first.End())]) + ") " + fd.Name.Name + "(" + rest + ")")})
		for _, cu := range calls[fo] {
			cn := fileName[cu.file]
			csrc := srcOf(cn)
			arg0 := string(csrc[off(cu.call.Args[0].Pos()):off(cu.call.Args[0].End())])
			endFirst := off(cu.call.Rparen)
			if len(cu.call.Args) > 1 {
				endFirst = off(cu.call.Args[1].Pos())
			}
			edits[cn] = append(edits[cn], inlineEdit{off(cu.call.Pos()), endFirst, []byte("(" + arg0 + ")." + fd.Name.Name + "(")})
		}
	}
	out := map[string][]byte{}
	for name, es := range edits {
		src := srcOf(name)
		sort.Slice(es, func(i, j int) bool { return es[i].start < es[j].start })
		okE := true
		for i := 1; i < len(es); i++ {
			if es[i].start < es[i-1].end {
				okE = false // nested calls of restored functions: left for a later pass
			}
		}
		if !okE {
			return nil
		}
		var b []byte
		pos := 0
		for _, e := range es {
			b = append(b, src[pos:e.start]...)
			b = append(b, e.text...)
			pos = e.end
		}
		b = append(b, src[pos:]...)
		out[name] = b
	}
	return out
}

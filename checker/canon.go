package main

// canon.go — canonical (structural) names for pure SSA expressions.
// go/ssa performs no CSE: two `v.ID()` calls are two values but one canonical string.

import (
	"fmt"
	"go/constant"
	"go/token"
	"go/types"
	"regexp"
	"sort"
	"strings"

	"golang.org/x/tools/go/ssa"
)

// Canon canonicalises values of one function. PhiEdge, when set, resolves a phi to the
// operand selected on a concrete path (see walk.go).
type Canon struct {
	W       *World
	PhiEdge func(*ssa.Phi) ssa.Value
	memo    map[ssa.Value]string
	busy    map[ssa.Value]bool
	// inlining: depth of expression-helper expansion (bounded)
	inlining int
}

func NewCanon(w *World) *Canon {
	return &Canon{W: w, memo: map[ssa.Value]string{}, busy: map[ssa.Value]bool{}}
}

func paramIndex(p *ssa.Parameter) int {
	for i, q := range p.Parent().Params {
		if q == p {
			return i
		}
	}
	return -1
}

// singleStore returns the only value ever stored directly into alloc a (nil if none or several).
func singleStore(a *ssa.Alloc) ssa.Value {
	var val ssa.Value
	n := 0
	for _, r := range *a.Referrers() {
		if st, ok := r.(*ssa.Store); ok && st.Addr == a {
			val = st.Val
			n++
		}
	}
	if n == 1 {
		return val
	}
	return nil
}

// isPureGetter reports whether fn's body is `return recv.field` (possibly through a load).
var canonParamTok = regexp.MustCompile(`\bP(\d+)\b`)

// isExprHelper: one basic block, one result of basic type, no effects, at least one parameter, not a plain getter.
func isExprHelper(fn *ssa.Function) bool {
	// receiver-only methods with a string result: the "path getter" idiom (p.lockPath()); anything wider would rename
	// helpers the rules know by name (normalize, count, Len)
	if fn == nil || len(fn.Blocks) != 1 || len(fn.Params) != 1 || fn.Signature.Recv() == nil || fn.Signature.Results().Len() != 1 {
		return false
	}
	if b, ok := fn.Signature.Results().At(0).Type().Underlying().(*types.Basic); !ok || b.Kind() != types.String {
		return false
	}
	ins := fn.Blocks[0].Instrs
	if len(ins) > 16 {
		return false
	}
	for _, in := range ins {
		switch x := in.(type) {
		case *ssa.FieldAddr, *ssa.Field, *ssa.IndexAddr, *ssa.Index, *ssa.BinOp, *ssa.Convert, *ssa.ChangeType, *ssa.DebugRef, *ssa.Slice, *ssa.Return, *ssa.Alloc:
		case *ssa.UnOp:
		case *ssa.Store:
			// only the argument array of a variadic call
			ia, ok := x.Addr.(*ssa.IndexAddr)
			if !ok {
				return false
			}
			if a, ok := ia.X.(*ssa.Alloc); !ok || a.Comment != "varargs" {
				return false
			}
		case *ssa.Call:
			// calls to other packages' functions only (path joins, conversions); comet calls stay opaque
			if g := staticCallee(x.Common()); g == nil || g.Pkg == fn.Pkg {
				if _, isB := x.Call.Value.(*ssa.Builtin); !isB {
					return false
				}
			}
		default:
			return false
		}
	}
	_, ok := ins[len(ins)-1].(*ssa.Return)
	return ok
}

func isPureGetter(fn *ssa.Function) (string, bool) {
	if fn == nil || len(fn.Blocks) != 1 || len(fn.Params) != 1 {
		return "", false
	}
	var field string
	for _, in := range fn.Blocks[0].Instrs {
		switch x := in.(type) {
		case *ssa.FieldAddr:
			if x.X != fn.Params[0] {
				return "", false
			}
			field = fieldName(x.X.Type(), x.Field)
		case *ssa.Field:
			if x.X != fn.Params[0] {
				return "", false
			}
			field = fieldName(x.X.Type(), x.Field)
		case *ssa.UnOp:
			if x.Op != token.MUL {
				return "", false
			}
		case *ssa.Return:
			if len(x.Results) != 1 {
				return "", false
			}
		case *ssa.DebugRef:
		default:
			return "", false
		}
	}
	return field, field != ""
}

func fieldName(t types.Type, i int) string {
	if p, ok := t.Underlying().(*types.Pointer); ok {
		t = p.Elem()
	}
	if s, ok := t.Underlying().(*types.Struct); ok && i < s.NumFields() {
		return roleFieldName(t, s.Field(i).Name())
	}
	return fmt.Sprintf("f%d", i)
}

// calleeName gives a stable, fully qualified name for the target of a call:
// static callee "pkg.F" / "(*pkg.T).M"; interface call "iface:pkg.I.M"; builtin "builtin:len".
func calleeName(c *ssa.CallCommon) string {
	if c.IsInvoke() {
		recv := c.Value.Type()
		return "iface:" + tstr(recv, nil) + "." + c.Method.Name()
	}
	switch f := c.Value.(type) {
	case *ssa.Function:
		if a, ok := fnAlias[f]; ok {
			return aliasFull(a)
		}
		if o := f.Origin(); o != nil {
			return unaliasTypes(o.String()) // generic instantiation: name of the generic function
		}
		return unaliasTypes(f.String())
	case *ssa.Builtin:
		return "builtin:" + f.Name()
	case *ssa.MakeClosure:
		if fn, ok := f.Fn.(*ssa.Function); ok {
			if a, ok := fnAlias[fn]; ok {
				return aliasFull(a)
			}
		}
		return unaliasTypes(f.Fn.String())
	}
	return "dynamic"
}

// shortCallee strips the comet package path for readability.
func shortCallee(c *ssa.CallCommon) string {
	return strings.ReplaceAll(calleeName(c), cometPath+".", "")
}

// effArgs: the arguments as the resolved callee sees them — for a call through a method value the bound receiver comes first.
func effArgs(c *ssa.CallCommon) []ssa.Value {
	if mc, ok := c.Value.(*ssa.MakeClosure); ok {
		if fn, ok := mc.Fn.(*ssa.Function); ok && strings.HasPrefix(fn.Synthetic, "bound method wrapper") && len(mc.Bindings) == 1 {
			return append([]ssa.Value{mc.Bindings[0]}, c.Args...)
		}
	}
	return c.Args
}

func staticCallee(c *ssa.CallCommon) *ssa.Function {
	if c.IsInvoke() {
		return nil
	}
	switch f := c.Value.(type) {
	case *ssa.Function:
		return f
	case *ssa.MakeClosure:
		if fn, ok := f.Fn.(*ssa.Function); ok {
			// a method value (x.m) is a closure over a synthetic wrapper that just calls the method
			if strings.HasPrefix(fn.Synthetic, "bound method wrapper") {
				for _, b := range fn.Blocks {
					for _, in := range b.Instrs {
						if call, ok := in.(*ssa.Call); ok {
							if g := call.Call.StaticCallee(); g != nil {
								return g
							}
						}
					}
				}
			}
			return fn
		}
	}
	return nil
}

// S returns the canonical string of v.
func (c *Canon) S(v ssa.Value) string {
	if v == nil {
		return "<nil>"
	}
	if s, ok := c.memo[v]; ok {
		return s
	}
	if c.busy[v] {
		return "cyc:" + v.Name()
	}
	c.busy[v] = true
	s := c.s(v)
	delete(c.busy, v)
	if c.PhiEdge == nil { // path-dependent results are not memoised across paths
		c.memo[v] = s
	}
	return s
}

func (c *Canon) s(v ssa.Value) string {
	switch x := v.(type) {
	case *ssa.Parameter:
		return fmt.Sprintf("P%d", paramIndex(x))
	case *ssa.FreeVar:
		for i, fv := range x.Parent().FreeVars {
			if fv == x {
				return fmt.Sprintf("FV%d", i)
			}
		}
		return "FV?"
	case *ssa.Const:
		if x.Value == nil {
			return "nil"
		}
		return "c(" + x.Value.ExactString() + ")"
	case *ssa.Global:
		return "G:" + x.Name()
	case *ssa.Function:
		return "F:" + x.Name()
	case *ssa.Builtin:
		return "builtin:" + x.Name()
	case *ssa.FieldAddr:
		return c.S(x.X) + "." + fieldName(x.X.Type(), x.Field)
	case *ssa.Field:
		return c.S(x.X) + "." + fieldName(x.X.Type(), x.Field)
	case *ssa.IndexAddr:
		// element i of the prefix x[:h] is element i of x
		if sl, ok := x.X.(*ssa.Slice); ok && sl.Low == nil {
			if _, isSlice := sl.X.Type().Underlying().(*types.Slice); isSlice {
				if mk, ok := sl.X.(*ssa.MakeSlice); ok && !c.busy[mk] {
					c.busy[mk] = true
					src, field, isProj := c.sliceProjection(mk)
					delete(c.busy, mk)
					if isProj {
						return c.S(src) + "[" + c.idxOf(src, x.Index) + "]." + field
					}
				}
				return c.S(sl.X) + "[" + c.idxOf(sl.X, x.Index) + "]"
			}
		}
		// O[i] of a projection O[j] = S[j].f (for all j) is S[i].f
		if mk, ok := x.X.(*ssa.MakeSlice); ok && !c.busy[mk] {
			c.busy[mk] = true
			src, field, isProj := c.sliceProjection(mk)
			delete(c.busy, mk)
			if isProj {
				return c.S(src) + "[" + c.idxOf(src, x.Index) + "]." + field
			}
		}
		return c.S(x.X) + "[" + c.idxOf(x.X, x.Index) + "]"
	case *ssa.Index:
		return c.S(x.X) + "[" + c.idxOf(x.X, x.Index) + "]"
	case *ssa.Lookup:
		return c.S(x.X) + "[" + c.S(x.Index) + "]"
	case *ssa.UnOp:
		switch x.Op {
		case token.MUL:
			return c.S(x.X) // address and loaded value share a name
		case token.NOT:
			return "!" + c.S(x.X)
		case token.SUB:
			return "-" + c.S(x.X)
		case token.ARROW:
			return "<-" + c.S(x.X)
		}
		return x.Op.String() + c.S(x.X)
	case *ssa.BinOp:
		return "(" + c.S(x.X) + x.Op.String() + c.S(x.Y) + ")"
	case *ssa.Alloc:
		if sv := singleStore(x); sv != nil {
			return c.S(sv)
		}
		if x.Comment == "varargs" {
			// the argument array of a variadic call: list of the stored elements, in index order
			type el struct {
				i int64
				s string
			}
			var els []el
			for _, r := range *x.Referrers() {
				ia, ok := r.(*ssa.IndexAddr)
				if !ok {
					continue
				}
				ic, ok := ia.Index.(*ssa.Const)
				if !ok {
					continue
				}
				for _, rr := range *ia.Referrers() {
					if st, ok := rr.(*ssa.Store); ok && st.Addr == ssa.Value(ia) {
						els = append(els, el{ic.Int64(), c.S(st.Val)})
					}
				}
			}
			sort.Slice(els, func(i, j int) bool { return els[i].i < els[j].i })
			var parts []string
			for _, e := range els {
				parts = append(parts, e.s)
			}
			return "varargs{" + strings.Join(parts, ",") + "}"
		}
		return "cell:" + x.Name() + ":" + x.Comment
	case *ssa.Phi:
		if c.PhiEdge != nil {
			if e := c.PhiEdge(x); e != nil {
				return c.S(e)
			}
		}
		return fmt.Sprintf("phi@%d.%s", x.Block().Index, x.Name())
	case *ssa.Extract:
		return c.S(x.Tuple) + "#" + fmt.Sprint(x.Index)
	case *ssa.Call:
		return c.call(x.Common(), x)
	case *ssa.Convert:
		return tstr(x.Type(), qual) + "(" + c.S(x.X) + ")"
	case *ssa.ChangeType:
		return c.S(x.X)
	case *ssa.MakeInterface:
		return c.S(x.X)
	case *ssa.ChangeInterface:
		return c.S(x.X)
	case *ssa.TypeAssert:
		return c.S(x.X) + ".(" + tstr(x.AssertedType, qual) + ")"
	case *ssa.Slice:
		lo, hi := "", ""
		if x.Low != nil {
			lo = c.S(x.Low)
		}
		if x.High != nil {
			hi = c.S(x.High)
		}
		if a, ok := x.X.(*ssa.Alloc); ok && a.Comment == "varargs" && lo == "" && hi == "" {
			return c.S(a)
		}
		return c.S(x.X) + "[" + lo + ":" + hi + "]"
	case *ssa.MakeClosure:
		return "closure:" + x.Fn.Name()
	case *ssa.MakeSlice:
		return "make:" + x.Name()
	case *ssa.MakeMap:
		return "makemap:" + x.Name()
	case *ssa.Range:
		return "range(" + c.S(x.X) + ")"
	case *ssa.Next:
		return "next(" + c.S(x.Iter) + ")"
	}
	return "v:" + v.Name()
}

func qual(p *types.Package) string {
	if p.Path() == cometPath {
		return ""
	}
	return p.Name()
}

// idx canonicalises an index expression; the induction variable of a rotated `range`
// loop (phi #rangeindex, +1) becomes "range".
func (c *Canon) idx(v ssa.Value) string {
	if isRangeIndex(v) {
		return "range"
	}
	return c.S(v)
}

// idxOf: like idx, and the induction variable of the canonical counted loop over the indexed container itself
// (for i := 0; i < len(X); i++ { … X[i] … }) is the same full traversal as `range X`.
func (c *Canon) idxOf(base, v ssa.Value) string {
	if isRangeIndex(v) {
		return "range"
	}
	if p, ok := v.(*ssa.Phi); ok && len(p.Edges) == 2 && p.Comment != "rangeindex" {
		if bound := countedLoopBound(p); bound != nil {
			if call, ok := bound.(*ssa.Call); ok {
				if b, ok := call.Call.Value.(*ssa.Builtin); ok && b.Name() == "len" && len(call.Call.Args) == 1 {
					if c.busy[p] {
						return c.S(v)
					}
					c.busy[p] = true
					same := c.S(call.Call.Args[0]) == c.S(base)
					delete(c.busy, p)
					if same {
						return "range"
					}
				}
			}
		}
	}
	return c.S(v)
}

// countedLoopBound: p is `i` of `for i := 0; i < B; i++`; returns B.
func countedLoopBound(p *ssa.Phi) ssa.Value {
	if init, b, ok := countedLoop(p); ok && init == 0 {
		return b
	}
	return nil
}

// countedLoop: p is `i` of `for i := k; i < B; i++` (φ(k, i+1) with constant k, the loop header branches on i < B,
// no other definition of i); returns k and B.
func countedLoop(p *ssa.Phi) (int64, ssa.Value, bool) {
	if len(p.Edges) != 2 || p.Comment == "rangeindex" {
		return 0, nil, false
	}
	var init int64
	hasInit, step := false, false
	for _, e := range p.Edges {
		switch x := e.(type) {
		case *ssa.Const:
			if x.Value != nil && x.Value.Kind() == constant.Int {
				init, hasInit = x.Int64(), true
			}
		case *ssa.BinOp:
			if x.Op == token.ADD && x.X == ssa.Value(p) {
				if k, ok := x.Y.(*ssa.Const); ok && k.Value != nil && k.Value.ExactString() == "1" {
					step = true
				}
			}
		}
	}
	if !hasInit || !step {
		return 0, nil, false
	}
	blk := p.Block()
	iff, ok := blk.Instrs[len(blk.Instrs)-1].(*ssa.If)
	if !ok {
		return 0, nil, false
	}
	cmp, ok := iff.Cond.(*ssa.BinOp)
	if !ok || cmp.Op != token.LSS || cmp.X != ssa.Value(p) {
		return 0, nil, false
	}
	return init, cmp.Y, true
}

func isRangeIndex(v ssa.Value) bool {
	if b, ok := v.(*ssa.BinOp); ok && b.Op == token.ADD {
		if p, ok := b.X.(*ssa.Phi); ok && p.Comment == "rangeindex" {
			return true
		}
	}
	if p, ok := v.(*ssa.Phi); ok && p.Comment == "rangeindex" {
		return true
	}
	return false
}

func (c *Canon) call(cc *ssa.CallCommon, v ssa.Value) string {
	name := shortCallee(cc)
	// a step new to the tree that is the identity unless a new option is set (defaults.go) is named by its operand
	if cv, ok := v.(*ssa.Call); ok && cv.Parent() != nil && !cc.IsInvoke() && len(cc.Args) >= 2 {
		if inner, ok := identityAtDefault(c.W, cv.Parent(), cv); ok {
			return c.S(inner)
		}
	}
	if b, ok := cc.Value.(*ssa.Builtin); ok {
		switch b.Name() {
		case "len", "cap":
			return b.Name() + "(" + c.S(cc.Args[0]) + ")"
		}
	}
	if fn := staticCallee(cc); fn != nil && fn.Pkg == c.W.SPkg {
		if f, ok := isPureGetter(fn); ok {
			return "get:" + f + "(" + c.S(cc.Args[0]) + ")"
		}
		// a straight-line expression helper with a scalar / string result (p.lockPath() = Join(p.baseDir, "LOCK")) is
		// named by the expression it returns, so that spelling it inline or through the helper makes no difference
		if isExprHelper(fn) && c.inlining < 3 {
			var args []string
			for _, a := range cc.Args {
				args = append(args, c.S(a))
			}
			sub := NewCanon(c.W)
			sub.inlining = c.inlining + 1
			body := sub.S(fn.Blocks[0].Instrs[len(fn.Blocks[0].Instrs)-1].(*ssa.Return).Results[0])
			return canonParamTok.ReplaceAllStringFunc(body, func(m string) string {
				n := 0
				fmt.Sscanf(m, "P%d", &n)
				if n < len(args) {
					return args[n]
				}
				return m
			})
		}
	}
	var args []string
	if cc.IsInvoke() {
		args = append(args, c.S(cc.Value))
	}
	for _, a := range cc.Args {
		args = append(args, c.S(a))
	}
	return name + "(" + strings.Join(args, ",") + ")"
}

// sliceProjection: mk is make([]T, len(S)) filled by exactly one store O[j] = S[j].f in the body of `for j := range S`:
// O is the column f of S. Returns S and the field name.
func (c *Canon) sliceProjection(mk *ssa.MakeSlice) (ssa.Value, string, bool) {
	var store *ssa.Store
	var at *ssa.IndexAddr
	for _, ref := range *mk.Referrers() {
		switch x := ref.(type) {
		case *ssa.IndexAddr:
			for _, rr := range *x.Referrers() {
				if st, ok := rr.(*ssa.Store); ok && st.Addr == ssa.Value(x) {
					if store != nil {
						return nil, "", false
					}
					store, at = st, x
				}
			}
		case *ssa.Call:
			// len(O) is harmless; append / copy would change the contents
			if b, ok := x.Call.Value.(*ssa.Builtin); !ok || (b.Name() != "len" && b.Name() != "cap") {
				return nil, "", false
			}
		case *ssa.Slice:
			// a prefix O[:h] that is only read (ranged over, indexed for loading, measured) leaves the contents alone
			if x.X != ssa.Value(mk) || !readOnlyView(x) {
				return nil, "", false
			}
		case *ssa.Store, *ssa.MakeClosure:
			return nil, "", false
		}
	}
	if store == nil || !isRangeIndex(at.Index) {
		return nil, "", false
	}
	// the stored value: field f of S[j] with the same j
	var elem *ssa.IndexAddr
	field := ""
	switch v := store.Val.(type) {
	case *ssa.Field:
		if ld, ok := v.X.(*ssa.UnOp); ok && ld.Op == token.MUL {
			elem, _ = ld.X.(*ssa.IndexAddr)
			field = fieldName(v.X.Type(), v.Field)
		}
	case *ssa.UnOp:
		if fa, ok := v.X.(*ssa.FieldAddr); ok && v.Op == token.MUL {
			field = fieldName(fa.X.Type(), fa.Field)
			elem, _ = fa.X.(*ssa.IndexAddr)
			if a, isA := fa.X.(*ssa.Alloc); isA {
				if sv := singleStore(a); sv != nil {
					if ld, ok := sv.(*ssa.UnOp); ok && ld.Op == token.MUL {
						elem, _ = ld.X.(*ssa.IndexAddr)
					}
				}
			}
		}
	}
	if elem == nil || elem.Index != at.Index || field == "" {
		return nil, "", false
	}
	src := elem.X
	// the loop ranges over S and the made slice is as long as S
	inc, ok := at.Index.(*ssa.BinOp)
	if !ok {
		return nil, "", false
	}
	bounded := false
	for _, ref := range *inc.Referrers() {
		if cmp, ok := ref.(*ssa.BinOp); ok && cmp.Op == token.LSS && cmp.X == ssa.Value(inc) {
			if lc, ok := cmp.Y.(*ssa.Call); ok {
				if b, ok := lc.Call.Value.(*ssa.Builtin); ok && b.Name() == "len" && c.S(lc.Call.Args[0]) == c.S(src) {
					bounded = true
				}
			}
		}
	}
	if !bounded || c.S(mk.Len) != "len("+c.S(src)+")" {
		return nil, "", false
	}
	// stored on every iteration: the store sits in the loop body's first block
	ph, _ := inc.X.(*ssa.Phi)
	if ph == nil || store.Block().Idom() != ph.Block() {
		return nil, "", false
	}
	return src, field, true
}

// isAllIndex: v indexes every element of a container exactly once in ascending order: the index of a range statement,
// or the counter of `for i := 0; i < len(X); i++` (no other definition of i).
func isAllIndex(v ssa.Value) bool {
	if isRangeIndex(v) {
		return true
	}
	ph, ok := v.(*ssa.Phi)
	if !ok {
		return false
	}
	b := countedLoopBound(ph)
	if b == nil {
		return false
	}
	call, ok := b.(*ssa.Call)
	if !ok {
		return false
	}
	bi, ok := call.Call.Value.(*ssa.Builtin)
	return ok && bi.Name() == "len"
}

// readOnlyView: every use of the slice value is a load of an element, len / cap, or a debug reference.
func readOnlyView(sl *ssa.Slice) bool {
	if sl.Referrers() == nil {
		return true
	}
	for _, ref := range *sl.Referrers() {
		switch x := ref.(type) {
		case *ssa.IndexAddr:
			for _, rr := range *x.Referrers() {
				if u, ok := rr.(*ssa.UnOp); !ok || u.Op != token.MUL {
					return false
				}
			}
		case *ssa.Call:
			if b, ok := x.Call.Value.(*ssa.Builtin); !ok || (b.Name() != "len" && b.Name() != "cap") {
				return false
			}
		case *ssa.DebugRef:
		default:
			return false
		}
	}
	return true
}

// countedLoopIncl: p is `i` of `for i := k; i <= B; i++` (inclusive bound); returns k and B.
func countedLoopIncl(p *ssa.Phi) (int64, ssa.Value, bool) {
	if len(p.Edges) != 2 || p.Comment == "rangeindex" {
		return 0, nil, false
	}
	var init int64
	hasInit, step := false, false
	for _, e := range p.Edges {
		switch x := e.(type) {
		case *ssa.Const:
			if x.Value != nil && x.Value.Kind() == constant.Int {
				init, hasInit = x.Int64(), true
			}
		case *ssa.BinOp:
			if x.Op == token.ADD && x.X == ssa.Value(p) {
				if k, ok := x.Y.(*ssa.Const); ok && k.Value != nil && k.Value.ExactString() == "1" {
					step = true
				}
			}
		}
	}
	if !hasInit || !step {
		return 0, nil, false
	}
	blk := p.Block()
	iff, ok := blk.Instrs[len(blk.Instrs)-1].(*ssa.If)
	if !ok {
		return 0, nil, false
	}
	cmp, ok := iff.Cond.(*ssa.BinOp)
	if !ok || cmp.Op != token.LEQ || cmp.X != ssa.Value(p) {
		return 0, nil, false
	}
	// no other definition of i inside the loop: the phi's only non-constant edge is i+1
	return init, cmp.Y, true
}

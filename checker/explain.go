package main

import (
	"encoding/json"
	"fmt"
	"os"
)

// doExplain re-evaluates, on the current tree, the rule instance recorded in a findings file.
func doExplain(path, repo, verif string) int {
	b, err := os.ReadFile(path)
	if err != nil {
		fmt.Println("cannot read", path, err)
		return 2
	}
	var f struct{ Property, Key string }
	if err := json.Unmarshal(b, &f); err != nil {
		fmt.Println("bad findings file:", err)
		return 2
	}
	def := registry[f.Property]
	if def == nil {
		fmt.Println("unknown property", f.Property)
		return 2
	}
	w, err := Load(repo, "")
	if err != nil {
		fmt.Println("LOAD-FAILURE", err)
		return 1
	}
	run := NewRun(w, f.Property, "quick")
	def.Rules(run)
	exit := 0
	found := false
	for _, o := range run.Obs {
		if o.Key == f.Key {
			found = true
			fmt.Printf("[%s] %s @ %s\n    %s\n    breaks => %s\n", o.Status, o.Key, o.Site, o.Detail, o.Breaks)
			if o.Status != OK && o.Status != Info {
				exit = 1
			}
		}
	}
	if !found {
		fmt.Printf("instance %s is no longer produced on the current tree\n", f.Key)
	}
	return exit
}

package main

// defaults.go — options that are the identity at their default: a step g(X, s.opt…) added to a pipeline leaves the
// behaviour of every caller that does not set the option unchanged when g returns X for the option's default value.
// Decided by interpreting g under the defaults (only integer comparisons of parameters and constants are evaluated;
// anything else on the path makes the answer "unknown").

import (
	"go/constant"
	"go/token"
	"go/types"
	"strings"

	"golang.org/x/tools/go/ssa"
)

// builderDefaultInt: the value an integer builder field has when its setter is never called — the constant stored
// where the builder is constructed, 0 when the constructor does not mention it.
type defaultKey struct {
	w     *World
	t     string
	field string
}
type defaultVal struct {
	v     int64
	known bool
}

var defaultCache = map[defaultKey]defaultVal{}

func builderDefaultInt(w *World, recvT types.Type, field string) (int64, bool) {
	key := defaultKey{w, recvT.String(), field}
	if d, ok := defaultCache[key]; ok {
		return d.v, d.known
	}
	v, known := builderDefaultInt0(w, recvT, field)
	defaultCache[key] = defaultVal{v, known}
	return v, known
}

func builderDefaultInt0(w *World, recvT types.Type, field string) (int64, bool) {
	pt, ok := recvT.(*types.Pointer)
	if !ok {
		return 0, false
	}
	val, known, n := int64(0), true, 0
	for _, fn := range w.Funcs {
		allInstrs(fn, func(in ssa.Instruction) {
			st, isSt := in.(*ssa.Store)
			if !isSt {
				return
			}
			var path []string
			var v ssa.Value = st.Addr
			for {
				fa, isFA := v.(*ssa.FieldAddr)
				if !isFA {
					break
				}
				path = append([]string{fieldName(fa.X.Type(), fa.Field)}, path...)
				v = fa.X
			}
			a, isA := v.(*ssa.Alloc)
			if !isA || len(path) == 0 || !types.Identical(a.Type(), pt) {
				return
			}
			if strings.Join(path, ".") == field {
				n++
				c, isC := st.Val.(*ssa.Const)
				if !isC || c.Value == nil || c.Value.Kind() != constant.Int {
					known = false
					return
				}
				if n > 1 && c.Int64() != val {
					known = false
				}
				val = c.Int64()
			}
			// a whole embedded struct stored at once: its literal decides
			if len(path) > 0 && strings.HasPrefix(field, strings.Join(path, ".")+".") {
				known = false
			}
		})
	}
	return val, known
}

// returnUnderInts follows the single path g takes when the given integer parameters have the given values and returns
// the first result of the return it reaches (nil when a branch cannot be decided or the path has effects).
func returnUnderInts(g *ssa.Function, ints map[*ssa.Parameter]int64) ssa.Value {
	if len(g.Blocks) == 0 {
		return nil
	}
	intOf := func(v ssa.Value) (int64, bool) {
		switch x := v.(type) {
		case *ssa.Const:
			if x.Value != nil && x.Value.Kind() == constant.Int {
				return x.Int64(), true
			}
		case *ssa.Parameter:
			n, ok := ints[x]
			return n, ok
		}
		return 0, false
	}
	var evalB func(v ssa.Value) (bool, bool)
	evalB = func(v ssa.Value) (bool, bool) {
		switch x := v.(type) {
		case *ssa.UnOp:
			if x.Op == token.NOT {
				b, ok := evalB(x.X)
				return !b, ok
			}
		case *ssa.BinOp:
			a, okA := intOf(x.X)
			b, okB := intOf(x.Y)
			if !okA || !okB {
				return false, false
			}
			switch x.Op {
			case token.LSS:
				return a < b, true
			case token.LEQ:
				return a <= b, true
			case token.GTR:
				return a > b, true
			case token.GEQ:
				return a >= b, true
			case token.EQL:
				return a == b, true
			case token.NEQ:
				return a != b, true
			}
		}
		return false, false
	}
	b := g.Blocks[0]
	var prev *ssa.BasicBlock
	phis := map[*ssa.Phi]ssa.Value{}
	for steps := 0; steps < 64; steps++ {
		var next *ssa.BasicBlock
		for _, in := range b.Instrs {
			switch x := in.(type) {
			case *ssa.Phi:
				for i, p := range b.Preds {
					if p == prev {
						phis[x] = x.Edges[i]
					}
				}
			case *ssa.BinOp, *ssa.UnOp, *ssa.DebugRef, *ssa.Convert, *ssa.ChangeType, *ssa.Slice:
			case *ssa.Call:
				if bi, ok := x.Call.Value.(*ssa.Builtin); !ok || (bi.Name() != "len" && bi.Name() != "cap") {
					return nil
				}
			case *ssa.If:
				cond := x.Cond
				if ph, ok := cond.(*ssa.Phi); ok && phis[ph] != nil {
					cond = phis[ph]
				}
				var c, ok bool
				if k, isC := cond.(*ssa.Const); isC && k.Value != nil && k.Value.Kind() == constant.Bool {
					c, ok = constant.BoolVal(k.Value), true
				} else {
					c, ok = evalB(cond)
				}
				if !ok {
					return nil
				}
				if c {
					next = b.Succs[0]
				} else {
					next = b.Succs[1]
				}
			case *ssa.Jump:
				next = b.Succs[0]
			case *ssa.Return:
				if len(x.Results) == 0 {
					return nil
				}
				v := x.Results[0]
				if ph, ok := v.(*ssa.Phi); ok && phis[ph] != nil {
					v = phis[ph]
				}
				return v
			default:
				return nil
			}
		}
		if next == nil {
			return nil
		}
		prev, b = b, next
	}
	return nil
}

// identityAtDefault: v is a call g(X, s.opt₁, …) of a comet function whose every further argument is an integer option of
// the builder (receiver of exec) and which returns its first parameter when those options have their default values.
// It returns X.
func identityAtDefault(w *World, exec *ssa.Function, v ssa.Value) (ssa.Value, bool) {
	call, ok := v.(*ssa.Call)
	if !ok || call.Call.IsInvoke() || len(call.Call.Args) < 2 || exec.Signature.Recv() == nil {
		return nil, false
	}
	g := staticCallee(call.Common())
	if g == nil || g.Pkg != w.SPkg && (g.Origin() == nil || g.Origin().Pkg != w.SPkg) || len(g.Params) != len(call.Call.Args) {
		return nil, false
	}
	// only steps the pinned tree does not have: the known ones (LimitResults, AutocutResults, …) are what the rules are about
	decl := g
	if g.Origin() != nil {
		decl = g.Origin()
	}
	if _, pinned := funcInventory[unaliasTypes(decl.RelString(w.Types))]; pinned || fnAlias[decl] != "" {
		return nil, false
	}
	c := NewCanon(w)
	ints := map[*ssa.Parameter]int64{}
	for i, a := range call.Call.Args[1:] {
		s := c.S(a)
		if !strings.HasPrefix(s, "P0.") || strings.ContainsAny(s[3:], "([ ") {
			return nil, false
		}
		d, known := builderDefaultInt(w, exec.Signature.Recv().Type(), s[3:])
		if !known {
			return nil, false
		}
		ints[g.Params[i+1]] = d
	}
	if ret := returnUnderInts(g, ints); ret != nil && ret == ssa.Value(g.Params[0]) {
		return call.Call.Args[0], true
	}
	return nil, false
}

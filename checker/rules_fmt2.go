package main

// rules_fmt2.go — FMT9..FMT11: what the reader does with the values it decodes.

import (
	"fmt"
	"go/ast"
	"go/constant"
	"go/token"
	"go/types"
	"sort"
	"strings"

	"golang.org/x/tools/go/ssa"
)

// ruleDecodedUsed (FMT9): every local variable the reader decodes a field into is used afterwards — compared, stored,
// used as a bound — and not only named in error messages. A decoded value that is dropped means the field the writer
// emitted is restored from something else (or not at all).
func ruleDecodedUsed(r *Run, rule string, k *serKind) {
	w := r.W
	info := w.Info
	r.Doc(rule, "a field of the stream is decoded and dropped: the state it carried is restored from another value or lost")
	n := 0
	for _, root := range k.Reader.Roots {
		// destinations: read(&x) / binary.Read(r, order, &x) with x a local variable
		type dest struct {
			obj  types.Object
			call *ast.CallExpr
		}
		var dests []dest
		for _, c := range k.Reader.Calls {
			if c.Pos() < root.Pos() || c.Pos() >= root.End() {
				continue
			}
			for _, a := range c.Args {
				u, ok := a.(*ast.UnaryExpr)
				if !ok || u.Op != token.AND {
					continue
				}
				id, ok := u.X.(*ast.Ident)
				if !ok {
					continue
				}
				obj := info.Uses[id]
				if v, ok := obj.(*types.Var); ok && !v.IsField() && v.Parent() != w.Types.Scope() {
					dests = append(dests, dest{obj, c})
				}
			}
		}
		for _, d := range dests {
			n++
			used := false
			var visit func(node ast.Node, inMsg bool)
			visit = func(node ast.Node, inMsg bool) {
				ast.Inspect(node, func(m ast.Node) bool {
					if m == nil || used {
						return false
					}
					if c, ok := m.(*ast.CallExpr); ok {
						if c == d.call {
							return false // the decode itself
						}
						name := calleeOfExpr(info, c)
						if name == "fmt.Errorf" || name == "errors.New" || strings.HasPrefix(name, "fmt.Sprint") || strings.HasPrefix(name, "fmt.Print") || strings.HasPrefix(name, "log.") {
							return false // naming the value in a message is not a use
						}
					}
					if id, ok := m.(*ast.Ident); ok && info.Uses[id] == d.obj {
						used = true
					}
					return true
				})
			}
			visit(root, false)
			key := fmt.Sprintf("%s:decoded:%s", k.Name, d.obj.Name())
			site := w.Pos(d.call.Pos()) + " (*" + k.Name + ").ReadFrom"
			r.Check(used, rule, key, site, "the decoded value "+d.obj.Name()+" is used (compared / stored / bound)", "the value decoded into "+d.obj.Name()+" is never used: the field the writer emitted here is not what the reader restores")
		}
	}
	if n == 0 {
		r.Note(rule, k.Name+":decoded:none", w.Pos(k.RDecl.Pos()), "no local decode destinations")
	}
}

// ruleIterationRestores (FMT10): in a reader loop that rebuilds a container (map update, slice element store, append at the
// loop's own nesting level), every iteration that does not fail performs that update: an entry that was decoded is never
// skipped (`if n == 0 { continue }` drops entries the writer did emit).
func ruleIterationRestores(r *Run, rule string, k *serKind) {
	w := r.W
	r.Doc(rule, "the reader skips entries the writer emitted: the reloaded index lacks state the source had")
	fn := w.Method(k.T, "ReadFrom")
	if fn == nil {
		return
	}
	loops := loopsOf(fn)
	c := NewCanon(w)
	isRestore := func(in ssa.Instruction) bool {
		switch x := in.(type) {
		case *ssa.MapUpdate:
			return true
		case *ssa.Store:
			if ia, ok := x.Addr.(*ssa.IndexAddr); ok {
				// element of a slice / array being rebuilt (not a scratch byte buffer used for decoding)
				if strings.HasPrefix(c.S(ia.X), "cell:") && strings.Contains(tstr(ia.X.Type(), nil), "byte") {
					return false
				}
				return true
			}
			if fa, ok := x.Addr.(*ssa.FieldAddr); ok && strings.HasPrefix(c.S(fa.X), "P0") {
				return true
			}
		case *ssa.Call:
			if b, ok := x.Call.Value.(*ssa.Builtin); ok && b.Name() == "append" {
				return true
			}
		}
		return false
	}
	n := 0
	for li, l := range loops {
		// own-level restore instructions
		var own []ssa.Instruction
		for b := range l.Blocks {
			inner := false
			for _, l2 := range loops {
				if l2 != l && l2.Blocks[b] && len(l2.Blocks) < len(l.Blocks) && l.Blocks[l2.Header] {
					inner = true
				}
			}
			if inner {
				continue
			}
			for _, in := range b.Instrs {
				if isRestore(in) {
					own = append(own, in)
				}
			}
		}
		if len(own) == 0 {
			continue
		}
		n++
		site := w.InstrPos(own[0]) + " (*" + k.Name + ").ReadFrom"
		key := fmt.Sprintf("%s:iteration#%d", k.Name, li)
		paths, trunc := enumPaths(l.Header, walkCfg{
			Stop:      func(b *ssa.BasicBlock) bool { return b == l.Header || !l.Blocks[b] },
			MaxVisits: 2, MaxPaths: 4000,
		})
		if trunc {
			r.Und(rule, key, site, "too many paths through the reader loop")
			continue
		}
		bad := ""
		for _, p := range paths {
			if p.End != EndStop || len(p.Blocks) < 2 || p.Blocks[len(p.Blocks)-1] != l.Header || !p.Feasible() {
				continue // left the loop (error return / loop exit), or a cycle of an inner loop
			}
			hit := false
			for _, in := range own {
				if p.Has(in) {
					hit = true
				}
			}
			if !hit {
				// name the branch that skipped
				for _, d := range p.Decisions {
					bad = w.InstrPos(d.If)
				}
				if bad == "" {
					bad = w.InstrPos(own[0])
				}
			}
		}
		r.Check(bad == "", rule, key, site, fmt.Sprintf("every completed iteration performs the container update (%d paths)", len(paths)), "an iteration can complete without the container update (last branch at "+bad+"): decoded entries are dropped")
	}
	if n == 0 {
		r.Note(rule, k.Name+":iteration:none", w.Pos(fn.Pos()), "no rebuilding loops")
	}
}

// ruleRejections (FMT11): the reader rejects a stream only for reasons the writer cannot produce: a failed stream
// operation, a failed sub-decoder, or an (in)equality test (magic, version, construction parameters). A rejection on an
// ordering comparison of a decoded value (len > 8) refuses streams the writer emits unless the writer enforces the same
// bound on what it writes.
func ruleRejections(r *Run, rule string, k *serKind) {
	w := r.W
	info := w.Info
	r.Doc(rule, "the reader refuses streams the writer produces (reload of a valid index fails)")
	decoded := map[types.Object]bool{}
	for _, c := range k.Reader.Calls {
		for _, a := range c.Args {
			if u, ok := a.(*ast.UnaryExpr); ok && u.Op == token.AND {
				if id, ok := u.X.(*ast.Ident); ok {
					if obj := info.Uses[id]; obj != nil {
						decoded[obj] = true
					}
				}
			}
		}
	}
	// locals initialised from a decoded variable carry the decoded value (parameter bindings of an inlined validator)
	for changed := true; changed; {
		changed = false
		for _, root := range k.Reader.Roots {
			ast.Inspect(root, func(n ast.Node) bool {
				vs, ok := n.(*ast.ValueSpec)
				if !ok {
					return true
				}
				for i, nm := range vs.Names {
					if i >= len(vs.Values) {
						continue
					}
					if id, ok := ast.Unparen(vs.Values[i]).(*ast.Ident); ok && decoded[info.Uses[id]] {
						if obj := info.Defs[nm]; obj != nil && !decoded[obj] {
							decoded[obj] = true
							changed = true
						}
					}
				}
				return true
			})
		}
	}
	// ordering comparisons the writer enforces before emitting (same operator and constant)
	enforced := map[string]bool{}
	for _, root := range k.Writer.Roots {
		ast.Inspect(root, func(n ast.Node) bool {
			ifs, ok := n.(*ast.IfStmt)
			if !ok || !returnsError(ifs.Body) {
				return true
			}
			ast.Inspect(ifs.Cond, func(m ast.Node) bool {
				if be, ok := m.(*ast.BinaryExpr); ok && isOrdering(be.Op) {
					if tv, ok := info.Types[be.Y]; ok && tv.Value != nil {
						enforced[be.Op.String()+tv.Value.ExactString()] = true
					}
				}
				return true
			})
			return true
		})
	}
	n := 0
	for _, root := range k.Reader.Roots {
		ast.Inspect(root, func(nd ast.Node) bool {
			ifs, ok := nd.(*ast.IfStmt)
			if !ok || !returnsError(ifs.Body) {
				return true
			}
			ast.Inspect(ifs.Cond, func(m ast.Node) bool {
				be, ok := m.(*ast.BinaryExpr)
				if !ok || !isOrdering(be.Op) {
					return true
				}
				mentions := false
				ast.Inspect(be, func(x ast.Node) bool {
					if id, ok := x.(*ast.Ident); ok && decoded[info.Uses[id]] {
						mentions = true
					}
					return true
				})
				if !mentions {
					return true
				}
				n++
				key := fmt.Sprintf("%s:rejects:%s", k.Name, exprStr(be))
				site := w.Pos(ifs.Pos()) + " (*" + k.Name + ").ReadFrom"
				okB := false
				if tv, ok := info.Types[be.Y]; ok && tv.Value != nil {
					okB = enforced[be.Op.String()+tv.Value.ExactString()]
					// or the writer can only emit constants that satisfy the bound: the value written at the position the
					// variable is decoded from is a local assigned constants only (flag := 0; if … { flag = 1 })
					if !okB {
						if id, isID := be.X.(*ast.Ident); isID {
							if vals, known := writerConstSet(k, info, id.Name); known && len(vals) > 0 {
								okB = true
								bound, _ := constant.Int64Val(constant.ToInt(tv.Value))
								for _, v := range vals {
									rejected := false
									switch be.Op {
									case token.GTR:
										rejected = v > bound
									case token.GEQ:
										rejected = v >= bound
									case token.LSS:
										rejected = v < bound
									case token.LEQ:
										rejected = v <= bound
									}
									if rejected {
										okB = false
									}
								}
							}
						}
					}
				}
				r.Check(okB, rule, key, site, "the writer enforces the same bound before emitting", "the reader rejects streams with "+exprStr(be)+", a bound the writer does not enforce on what it emits")
				return true
			})
			return true
		})
	}
	r.Ok(rule, k.Name+":rejections", w.Pos(k.RDecl.Pos())+" (*"+k.Name+").ReadFrom", fmt.Sprintf("%d ordering rejections on decoded values, each enforced by the writer", n))
}

// writerConstSet: the reader variable `name` is decoded at some stream position; the writer emits at that position a local
// variable all of whose assignments are integer constants. Returns those constants.
func writerConstSet(k *serKind, info *types.Info, name string) ([]int64, bool) {
	wf, rf := fieldsOnly(flattenToks(k.Writer.Toks)), fieldsOnly(flattenToks(k.Reader.Toks))
	if len(wf) != len(rf) {
		return nil, false
	}
	pos := -1
	for i, t := range rf {
		if t.Arg == name {
			if pos >= 0 {
				return nil, false // decoded at several positions
			}
			pos = i
		}
	}
	if pos < 0 {
		return nil, false
	}
	warg := wf[pos].Arg
	// find the writer's local of that name at/before the token
	var obj types.Object
	for _, root := range k.Writer.Roots {
		ast.Inspect(root, func(n ast.Node) bool {
			if id, ok := n.(*ast.Ident); ok && id.Name == warg && id.Pos() <= wf[pos].Pos+token.Pos(len(warg)+64) {
				if o := info.Uses[id]; o != nil {
					if _, isVar := o.(*types.Var); isVar {
						obj = o
					}
				}
			}
			return true
		})
	}
	if obj == nil {
		return nil, false
	}
	var vals []int64
	okAll := true
	record := func(e ast.Expr) {
		tv, ok := info.Types[e]
		if !ok || tv.Value == nil || tv.Value.Kind() != constant.Int {
			okAll = false
			return
		}
		v, _ := constant.Int64Val(tv.Value)
		vals = append(vals, v)
	}
	for _, root := range k.Writer.Roots {
		ast.Inspect(root, func(n ast.Node) bool {
			switch x := n.(type) {
			case *ast.AssignStmt:
				for i, l := range x.Lhs {
					id, ok := l.(*ast.Ident)
					if !ok {
						continue
					}
					o := info.Defs[id]
					if o == nil {
						o = info.Uses[id]
					}
					if o != obj {
						continue
					}
					if len(x.Rhs) != len(x.Lhs) || (x.Tok != token.ASSIGN && x.Tok != token.DEFINE) {
						okAll = false
						continue
					}
					record(x.Rhs[i])
				}
			case *ast.ValueSpec:
				for i, nm := range x.Names {
					if info.Defs[nm] == obj {
						if i < len(x.Values) {
							record(x.Values[i])
						} else {
							vals = append(vals, 0)
						}
					}
				}
			case *ast.IncDecStmt:
				if id, ok := x.X.(*ast.Ident); ok && info.Uses[id] == obj {
					okAll = false
				}
			case *ast.UnaryExpr:
				if x.Op == token.AND {
					if id, ok := x.X.(*ast.Ident); ok && info.Uses[id] == obj {
						okAll = false
					}
				}
			}
			return true
		})
	}
	return vals, okAll
}

func isOrdering(op token.Token) bool {
	return op == token.LSS || op == token.GTR || op == token.LEQ || op == token.GEQ
}

func returnsError(body *ast.BlockStmt) bool {
	for i, st := range body.List {
		if rs, ok := st.(*ast.ReturnStmt); ok && len(rs.Results) > 0 && exprStr(rs.Results[len(rs.Results)-1]) != "nil" {
			return true
		}
		// the same in an inlined helper (inline2.go): `r…_hN = <error>; break L_hN`
		if as, ok := st.(*ast.AssignStmt); ok && as.Tok == token.ASSIGN && i+1 < len(body.List) {
			br, isBr := body.List[i+1].(*ast.BranchStmt)
			if !isBr || br.Tok != token.BREAK || br.Label == nil || !strings.HasPrefix(br.Label.Name, "L_h") {
				continue
			}
			for j, l := range as.Lhs {
				id, ok := l.(*ast.Ident)
				if !ok || !strings.Contains(id.Name, "_h") || !strings.HasPrefix(id.Name, "r") {
					continue
				}
				if j < len(as.Rhs) {
					if c, isCall := as.Rhs[j].(*ast.CallExpr); isCall && (strings.HasSuffix(exprStr(c.Fun), "Errorf") || strings.HasSuffix(exprStr(c.Fun), "errors.New")) {
						return true
					}
				}
			}
		}
	}
	return false
}

// ruleHeaderPairing (FMT3, pairing): a rejecting comparison in the reader that mentions the variable decoded at stream
// position i and a field of the receiver must name the field the writer emitted at position i — efSearch from the
// stream is compared with the receiver's efSearch, not with another parameter of the same type.
func ruleHeaderPairing(r *Run, rule string, k *serKind) {
	w := r.W
	info := w.Info
	wf, rf := fieldsOnly(flattenToks(k.Writer.Toks)), fieldsOnly(flattenToks(k.Reader.Toks))
	if len(wf) != len(rf) {
		return // FMT1 reports the disagreement
	}
	st, _ := k.T.(*types.Pointer).Elem().Underlying().(*types.Struct)
	if st == nil {
		return
	}
	recvW, recvR := k.Writer.RecvName, k.Reader.RecvName
	// writer aliases: x := idx.f
	walias := map[string]string{}
	for obj, def := range k.Writer.Defs {
		ds := exprStr(def)
		for i := 0; i < st.NumFields(); i++ {
			if containsSel(ds, recvW, st.Field(i).Name()) {
				walias[obj.Name()] = st.Field(i).Name()
			}
		}
	}
	emittedField := func(arg string) string {
		for i := 0; i < st.NumFields(); i++ {
			if containsSel(arg, recvW, st.Field(i).Name()) {
				return st.Field(i).Name()
			}
		}
		for a, f := range walias {
			if identIn(arg, a) {
				return f
			}
		}
		return ""
	}
	// decoded variable (by name) -> field emitted at that position
	want := map[string]string{}
	for i := range rf {
		if f := emittedField(wf[i].Arg); f != "" && rf[i].Arg != "" && !strings.ContainsAny(rf[i].Arg, ".[") {
			want[rf[i].Arg] = f
		}
	}
	n := 0
	for _, root := range k.Reader.Roots {
		ast.Inspect(root, func(nd ast.Node) bool {
			ifs, ok := nd.(*ast.IfStmt)
			if !ok || !returnsError(ifs.Body) {
				return true
			}
			be, ok := ifs.Cond.(*ast.BinaryExpr)
			if !ok || be.Op != token.NEQ {
				return true
			}
			cs := exprStr(be)
			for v, f := range want {
				if !identIn(cs, v) {
					continue
				}
				// which receiver fields does the comparison name?
				var named []string
				for i := 0; i < st.NumFields(); i++ {
					if containsSel(cs, recvR, st.Field(i).Name()) {
						named = append(named, st.Field(i).Name())
					}
				}
				if len(named) == 0 {
					continue
				}
				n++
				okP := len(named) == 1 && named[0] == f
				r.Check(okP, rule, fmt.Sprintf("%s:pairs:%s", k.Name, v), w.Pos(ifs.Pos())+" (*"+k.Name+").ReadFrom",
					"the decoded "+v+" is compared with the receiver's "+f+", the field written at that position",
					fmt.Sprintf("the value decoded into %s was written from %s.%s but is compared with %s.%s: a stream with another %s is accepted (and a valid one may be refused)", v, recvW, f, recvR, strings.Join(named, ","), f))
			}
			return true
		})
	}
	_ = info
	if n == 0 {
		r.Note(rule, k.Name+":pairs:none", w.Pos(k.RDecl.Pos()), "no header comparisons against receiver fields")
	}
}

// ruleCtorParamsImmutable: the receiver fields the reader compares with the stream (construction parameters) are written
// by constructors and ReadFrom only. A search or an operation that adjusts one of them makes the next snapshot unreadable
// by an index built with the original parameters.
func ruleCtorParamsImmutable(r *Run, rule string, k *serKind) {
	w := r.W
	r.Doc(rule, "a construction parameter that is persisted and compared on reload changes after construction: the segment written later is rejected by the template it is loaded into")
	st, _ := k.T.(*types.Pointer).Elem().Underlying().(*types.Struct)
	if st == nil {
		return
	}
	recvR := k.Reader.RecvName
	compared := map[string]bool{}
	for _, root := range k.Reader.Roots {
		ast.Inspect(root, func(nd ast.Node) bool {
			ifs, ok := nd.(*ast.IfStmt)
			if !ok || !returnsError(ifs.Body) {
				return true
			}
			if be, ok := ifs.Cond.(*ast.BinaryExpr); ok && be.Op == token.NEQ {
				cs := exprStr(be)
				for i := 0; i < st.NumFields(); i++ {
					if containsSel(cs, recvR, st.Field(i).Name()) {
						compared[st.Field(i).Name()] = true
					}
				}
			}
			return true
		})
	}
	if len(compared) == 0 {
		return
	}
	// writes anywhere in the package to T.f for compared f, outside constructors (functions returning T) and ReadFrom
	for _, fn := range w.Funcs {
		top := fn
		for top.Parent() != nil {
			top = top.Parent()
		}
		if top.Name() == "ReadFrom" && top.Signature.Recv() != nil && types.Identical(top.Signature.Recv().Type(), k.T) {
			continue
		}
		isCtor := false
		if top.Signature.Recv() == nil {
			for i := 0; i < top.Signature.Results().Len(); i++ {
				if types.Identical(top.Signature.Results().At(i).Type(), k.T) {
					isCtor = true
				}
			}
		}
		// a function that allocates the object it assigns to is constructing it
		allInstrs(top, func(in ssa.Instruction) {
			if a, ok := in.(*ssa.Alloc); ok && a.Heap && types.Identical(a.Type(), k.T) {
				isCtor = true
			}
		})
		if isCtor {
			continue
		}
		// an exported setter of the type is the API's way to change the parameter (the owner decides): reported only
		isSetter := top.Signature.Recv() != nil && types.Identical(top.Signature.Recv().Type(), k.T) && top.Object() != nil && top.Object().Exported() && strings.HasPrefix(top.Name(), "Set")
		allInstrs(fn, func(in ssa.Instruction) {
			st2, ok := in.(*ssa.Store)
			if !ok {
				return
			}
			fa, ok := st2.Addr.(*ssa.FieldAddr)
			if !ok {
				return
			}
			owner := fa.X.Type()
			if p, ok := owner.Underlying().(*types.Pointer); ok {
				owner = p.Elem()
			}
			if !types.Identical(owner, k.T.(*types.Pointer).Elem()) {
				return
			}
			f := fieldName(fa.X.Type(), fa.Field)
			if compared[f] && isSetter {
				r.Note(rule, fmt.Sprintf("%s:ctor-param:%s:%s", k.Name, f, w.Name(fn)), w.InstrPos(in)+" "+w.Name(fn), "exported setter of the persisted, compared parameter "+f+": a snapshot taken after calling it loads only into an index configured alike")
				return
			}
			if compared[f] {
				r.Bad(rule, fmt.Sprintf("%s:ctor-param:%s:%s", k.Name, f, w.Name(fn)), w.InstrPos(in)+" "+w.Name(fn), "construction parameter "+f+" (persisted and compared on reload) is assigned outside the constructor / ReadFrom")
			}
		})
	}
	var fs []string
	for f := range compared {
		fs = append(fs, f)
	}
	sort.Strings(fs)
	r.Ok(rule, k.Name+":ctor-params", w.Pos(k.RDecl.Pos())+" (*"+k.Name+").ReadFrom", fmt.Sprintf("compared construction parameters %v: no assignment outside constructors and ReadFrom (other than those reported)", fs))
}

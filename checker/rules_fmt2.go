package main

// rules_fmt2.go — FMT9..FMT11: what the reader does with the values it decodes.

import (
	"fmt"
	"go/ast"
	"go/token"
	"go/types"
	"strings"

	"golang.org/x/tools/go/ssa"
)

// ruleDecodedUsed (FMT9): every local variable the reader decodes a field into is used afterwards — compared, stored,
// used as a bound — and not only named in error messages. A decoded value that is dropped means the field the writer
// emitted is restored from something else (or not at all).
func ruleDecodedUsed(r *Run, rule string, k *serKind) {
	w := r.W
	info := w.Info
	r.Doc(rule, "a field of the stream is decoded and dropped: the state it carried is restored from another value or lost")
	n := 0
	for _, root := range k.Reader.Roots {
		// destinations: read(&x) / binary.Read(r, order, &x) with x a local variable
		type dest struct {
			obj  types.Object
			call *ast.CallExpr
		}
		var dests []dest
		for _, c := range k.Reader.Calls {
			if c.Pos() < root.Pos() || c.Pos() >= root.End() {
				continue
			}
			for _, a := range c.Args {
				u, ok := a.(*ast.UnaryExpr)
				if !ok || u.Op != token.AND {
					continue
				}
				id, ok := u.X.(*ast.Ident)
				if !ok {
					continue
				}
				obj := info.Uses[id]
				if v, ok := obj.(*types.Var); ok && !v.IsField() && v.Parent() != w.Types.Scope() {
					dests = append(dests, dest{obj, c})
				}
			}
		}
		for _, d := range dests {
			n++
			used := false
			var visit func(node ast.Node, inMsg bool)
			visit = func(node ast.Node, inMsg bool) {
				ast.Inspect(node, func(m ast.Node) bool {
					if m == nil || used {
						return false
					}
					if c, ok := m.(*ast.CallExpr); ok {
						if c == d.call {
							return false // the decode itself
						}
						name := calleeOfExpr(info, c)
						if name == "fmt.Errorf" || name == "errors.New" || strings.HasPrefix(name, "fmt.Sprint") || strings.HasPrefix(name, "fmt.Print") || strings.HasPrefix(name, "log.") {
							return false // naming the value in a message is not a use
						}
					}
					if id, ok := m.(*ast.Ident); ok && info.Uses[id] == d.obj {
						used = true
					}
					return true
				})
			}
			visit(root, false)
			key := fmt.Sprintf("%s:decoded:%s", k.Name, d.obj.Name())
			site := w.Pos(d.call.Pos()) + " (*" + k.Name + ").ReadFrom"
			r.Check(used, rule, key, site, "the decoded value "+d.obj.Name()+" is used (compared / stored / bound)", "the value decoded into "+d.obj.Name()+" is never used: the field the writer emitted here is not what the reader restores")
		}
	}
	if n == 0 {
		r.Note(rule, k.Name+":decoded:none", w.Pos(k.RDecl.Pos()), "no local decode destinations")
	}
}

// ruleIterationRestores (FMT10): in a reader loop that rebuilds a container (map update, slice element store, append at the
// loop's own nesting level), every iteration that does not fail performs that update: an entry that was decoded is never
// skipped (`if n == 0 { continue }` drops entries the writer did emit).
func ruleIterationRestores(r *Run, rule string, k *serKind) {
	w := r.W
	r.Doc(rule, "the reader skips entries the writer emitted: the reloaded index lacks state the source had")
	fn := w.Method(k.T, "ReadFrom")
	if fn == nil {
		return
	}
	loops := loopsOf(fn)
	c := NewCanon(w)
	isRestore := func(in ssa.Instruction) bool {
		switch x := in.(type) {
		case *ssa.MapUpdate:
			return true
		case *ssa.Store:
			if ia, ok := x.Addr.(*ssa.IndexAddr); ok {
				// element of a slice / array being rebuilt (not a scratch byte buffer used for decoding)
				if strings.HasPrefix(c.S(ia.X), "cell:") && strings.Contains(types.TypeString(ia.X.Type(), nil), "byte") {
					return false
				}
				return true
			}
			if fa, ok := x.Addr.(*ssa.FieldAddr); ok && strings.HasPrefix(c.S(fa.X), "P0") {
				return true
			}
		case *ssa.Call:
			if b, ok := x.Call.Value.(*ssa.Builtin); ok && b.Name() == "append" {
				return true
			}
		}
		return false
	}
	n := 0
	for li, l := range loops {
		// own-level restore instructions
		var own []ssa.Instruction
		for b := range l.Blocks {
			inner := false
			for _, l2 := range loops {
				if l2 != l && l2.Blocks[b] && len(l2.Blocks) < len(l.Blocks) && l.Blocks[l2.Header] {
					inner = true
				}
			}
			if inner {
				continue
			}
			for _, in := range b.Instrs {
				if isRestore(in) {
					own = append(own, in)
				}
			}
		}
		if len(own) == 0 {
			continue
		}
		n++
		site := w.InstrPos(own[0]) + " (*" + k.Name + ").ReadFrom"
		key := fmt.Sprintf("%s:iteration#%d", k.Name, li)
		paths, trunc := enumPaths(l.Header, walkCfg{
			Stop:      func(b *ssa.BasicBlock) bool { return b == l.Header || !l.Blocks[b] },
			MaxVisits: 2, MaxPaths: 4000,
		})
		if trunc {
			r.Und(rule, key, site, "too many paths through the reader loop")
			continue
		}
		bad := ""
		for _, p := range paths {
			if p.End != EndStop || len(p.Blocks) < 2 || p.Blocks[len(p.Blocks)-1] != l.Header || !p.Feasible() {
				continue // left the loop (error return / loop exit), or a cycle of an inner loop
			}
			hit := false
			for _, in := range own {
				if p.Has(in) {
					hit = true
				}
			}
			if !hit {
				// name the branch that skipped
				for _, d := range p.Decisions {
					bad = w.InstrPos(d.If)
				}
				if bad == "" {
					bad = w.InstrPos(own[0])
				}
			}
		}
		r.Check(bad == "", rule, key, site, fmt.Sprintf("every completed iteration performs the container update (%d paths)", len(paths)), "an iteration can complete without the container update (last branch at "+bad+"): decoded entries are dropped")
	}
	if n == 0 {
		r.Note(rule, k.Name+":iteration:none", w.Pos(fn.Pos()), "no rebuilding loops")
	}
}

// ruleRejections (FMT11): the reader rejects a stream only for reasons the writer cannot produce: a failed stream
// operation, a failed sub-decoder, or an (in)equality test (magic, version, construction parameters). A rejection on an
// ordering comparison of a decoded value (len > 8) refuses streams the writer emits unless the writer enforces the same
// bound on what it writes.
func ruleRejections(r *Run, rule string, k *serKind) {
	w := r.W
	info := w.Info
	r.Doc(rule, "the reader refuses streams the writer produces (reload of a valid index fails)")
	decoded := map[types.Object]bool{}
	for _, c := range k.Reader.Calls {
		for _, a := range c.Args {
			if u, ok := a.(*ast.UnaryExpr); ok && u.Op == token.AND {
				if id, ok := u.X.(*ast.Ident); ok {
					if obj := info.Uses[id]; obj != nil {
						decoded[obj] = true
					}
				}
			}
		}
	}
	// ordering comparisons the writer enforces before emitting (same operator and constant)
	enforced := map[string]bool{}
	for _, root := range k.Writer.Roots {
		ast.Inspect(root, func(n ast.Node) bool {
			ifs, ok := n.(*ast.IfStmt)
			if !ok || !returnsError(ifs.Body) {
				return true
			}
			ast.Inspect(ifs.Cond, func(m ast.Node) bool {
				if be, ok := m.(*ast.BinaryExpr); ok && isOrdering(be.Op) {
					if tv, ok := info.Types[be.Y]; ok && tv.Value != nil {
						enforced[be.Op.String()+tv.Value.ExactString()] = true
					}
				}
				return true
			})
			return true
		})
	}
	n := 0
	for _, root := range k.Reader.Roots {
		ast.Inspect(root, func(nd ast.Node) bool {
			ifs, ok := nd.(*ast.IfStmt)
			if !ok || !returnsError(ifs.Body) {
				return true
			}
			ast.Inspect(ifs.Cond, func(m ast.Node) bool {
				be, ok := m.(*ast.BinaryExpr)
				if !ok || !isOrdering(be.Op) {
					return true
				}
				mentions := false
				ast.Inspect(be, func(x ast.Node) bool {
					if id, ok := x.(*ast.Ident); ok && decoded[info.Uses[id]] {
						mentions = true
					}
					return true
				})
				if !mentions {
					return true
				}
				n++
				key := fmt.Sprintf("%s:rejects:%s", k.Name, exprStr(be))
				site := w.Pos(ifs.Pos()) + " (*" + k.Name + ").ReadFrom"
				okB := false
				if tv, ok := info.Types[be.Y]; ok && tv.Value != nil {
					okB = enforced[be.Op.String()+tv.Value.ExactString()]
				}
				r.Check(okB, rule, key, site, "the writer enforces the same bound before emitting", "the reader rejects streams with "+exprStr(be)+", a bound the writer does not enforce on what it emits")
				return true
			})
			return true
		})
	}
	r.Ok(rule, k.Name+":rejections", w.Pos(k.RDecl.Pos())+" (*"+k.Name+").ReadFrom", fmt.Sprintf("%d ordering rejections on decoded values, each enforced by the writer", n))
}

func isOrdering(op token.Token) bool {
	return op == token.LSS || op == token.GTR || op == token.LEQ || op == token.GEQ
}

func returnsError(body *ast.BlockStmt) bool {
	for _, st := range body.List {
		if rs, ok := st.(*ast.ReturnStmt); ok && len(rs.Results) > 0 && exprStr(rs.Results[len(rs.Results)-1]) != "nil" {
			return true
		}
	}
	return false
}

package main

// roles.go — rename resilience for the unexported functions the rules know by name.
//
// Rules anchor on exported API names (stable for users) and on roles found through the call graph. A number of
// unexported helpers are nevertheless looked up by name. Renaming one of them does not change behaviour, so the name is
// only the first way to find it: when it is absent, the function with the same receiver type and parameter / result
// types (and, where several share that shape, the same structural fingerprint) takes its place, and every name-based
// match (Fn, calleeName, Name) sees it under the name the rules use.

import (
	"go/types"
	"regexp"
	"sort"
	"strings"

	"golang.org/x/tools/go/ssa"
)

// fnAlias: renamed function -> package-relative name the rules know it by.
var fnAlias = map[*ssa.Function]string{}

type fnRole struct {
	name string // package-relative name on the pinned tree
	sig  string // sigKey on the pinned tree
	pred func(w *World, fn *ssa.Function) bool
}

func callsNamed(fn *ssa.Function, names ...string) bool {
	found := false
	allInstrs(fn, func(in ssa.Instruction) {
		if c, ok := in.(ssa.CallInstruction); ok {
			n := calleeName(c.Common())
			for _, want := range names {
				if n == want || strings.HasSuffix(n, want) {
					found = true
				}
			}
		}
	})
	return found
}

func hasIf(fn *ssa.Function) bool {
	found := false
	allInstrs(fn, func(in ssa.Instruction) {
		if _, ok := in.(*ssa.If); ok {
			found = true
		}
	})
	return found
}

func callsResultType(fn *ssa.Function, typ string) bool {
	found := false
	allInstrs(fn, func(in ssa.Instruction) {
		if c, ok := in.(*ssa.Call); ok {
			if g := staticCallee(c.Common()); g != nil && g.Signature.Results().Len() > 0 && tstr(g.Signature.Results().At(0).Type(), qual) == typ {
				found = true
			}
		}
	})
	return found
}

var fnRoles = []fnRole{
	{name: "normalize", sig: "|string|string"},
	{name: "tokenize", sig: "|string|[]string"},
	{name: "kmeansInternal", sig: "|[][]float32,int,Distance,int|[][]float32,[]int"},
	{name: "scoreMapToRanks", sig: "|map[uint32]float64,bool|map[uint32]int"},
	{name: "toInt64", sig: "|interface{}|int64,error"},
	{name: "mergeResults", sig: "|[]HybridSearchResult|[]HybridSearchResult"},
	{name: "sortResultsByScore", sig: "|[]HybridSearchResult|"},
	{name: "sanitizeK", sig: "|int,int|int"},
	{name: "newStorageProvider", sig: "|string|*storageProvider,error"},
	{name: "newMemtable", sig: "|VectorIndex,TextIndex,MetadataIndex,int64|*memtable"},
	{name: "newSegmentMetadata", sig: "|uint64,string,string,string,string|*segmentMetadata"},
	{name: "(*storageProvider).acquireLock", sig: "*storageProvider||error", pred: func(w *World, fn *ssa.Function) bool { return callsNamed(fn, "os.OpenFile") }},
	{name: "(*storageProvider).releaseLock", sig: "*storageProvider||error", pred: func(w *World, fn *ssa.Function) bool {
		return callsNamed(fn, "os.Remove") && callsNamed(fn, "(*os.File).Close") && !callsNamed(fn, "os.OpenFile")
	}},
	{name: "(*storageProvider).initSegmentCounter", sig: "*storageProvider||error", pred: func(w *World, fn *ssa.Function) bool { return callsNamed(fn, "os.ReadDir") }},
	{name: "(*storageProvider).close", sig: "*storageProvider||error", pred: func(w *World, fn *ssa.Function) bool {
		return !callsNamed(fn, "os.OpenFile", "os.ReadDir", "os.Remove")
	}},
	{name: "(*storageProvider).nextSegmentID", sig: "*storageProvider||uint64"},
	{name: "(*storageProvider).segmentPaths", sig: "*storageProvider|uint64|string,string,string,string"},
	{name: "(*storageProvider).deleteSegment", sig: "*storageProvider|uint64|error"},
	{name: "(*storageProvider).listSegments", sig: "*storageProvider||[]uint64,error"},
	{name: "(*segmentManager).add", sig: "*segmentManager|*segmentMetadata|"},
	{name: "(*segmentManager).remove", sig: "*segmentManager|uint64|bool"},
	{name: "(*segmentManager).list", sig: "*segmentManager||[]*segmentMetadata"},
	{name: "(*segmentMetadata).getIndex", sig: "*segmentMetadata|VectorIndex,TextIndex,MetadataIndex|HybridSearchIndex,error"},
	{name: "(*segmentMetadata).updateStats", sig: "*segmentMetadata|uint32,int64|"},
	{name: "(*memtable).freeze", sig: "*memtable||", pred: func(w *World, fn *ssa.Function) bool { return callsNamed(fn, "atomic.Bool).Store") }},
	{name: "(*memtable).flush", sig: "*memtable||HybridSearchIndex,error"},
	{name: "(*memtable).count", sig: "*memtable||uint32"},
	{name: "(*memtable).add", sig: "*memtable|[]float32,string,map[string]interface{}|uint32,error"},
	{name: "(*memtable).addWithID", sig: "*memtable|uint32,[]float32,string,map[string]interface{}|error"},
	{name: "(*memtable).remove", sig: "*memtable|uint32|error"},
	{name: "(*memtableQueue).add", sig: "*memtableQueue|[]float32,string,map[string]interface{}|uint32,error"},
	{name: "(*memtableQueue).addWithID", sig: "*memtableQueue|uint32,[]float32,string,map[string]interface{}|error"},
	{name: "(*memtableQueue).removeFromMutable", sig: "*memtableQueue|uint32|error"},
	{name: "(*memtableQueue).remove", sig: "*memtableQueue|*memtable|"},
	{name: "(*memtableQueue).list", sig: "*memtableQueue||[]*memtable", pred: func(w *World, fn *ssa.Function) bool { return !hasIf(fn) }},
	{name: "(*memtableQueue).listFrozen", sig: "*memtableQueue||[]*memtable", pred: func(w *World, fn *ssa.Function) bool { return hasIf(fn) }},
	{name: "(*memtableQueue).rotateNoLock", sig: "*memtableQueue||", pred: func(w *World, fn *ssa.Function) bool { return callsResultType(fn, "*memtable") }},
	{name: "(*memtableQueue).rotateIfNotEmpty", sig: "*memtableQueue||", pred: func(w *World, fn *ssa.Function) bool {
		return hasIf(fn) && !callsResultType(fn, "*memtable") && !fn.Object().Exported()
	}},
	{name: "(*PersistentHybridIndex).compactSegments", sig: "*PersistentHybridIndex|[]*segmentMetadata|error"},
	{name: "(*PersistentHybridIndex).flushMemtable", sig: "*PersistentHybridIndex|*memtable|error"},
	{name: "(*PersistentHybridIndex).writeIndexToSegment", sig: "*PersistentHybridIndex|HybridSearchIndex,string,string,string,string|error"},
}

// sigKey: receiver type | parameter types | result types — no identifier of the function or of its parameters.
func sigKey(fn *ssa.Function) string {
	recv := ""
	if r := fn.Signature.Recv(); r != nil {
		recv = tstr(r.Type(), qual)
	}
	var ps, rs []string
	for i := 0; i < fn.Signature.Params().Len(); i++ {
		ps = append(ps, tstr(fn.Signature.Params().At(i).Type(), qual))
	}
	for i := 0; i < fn.Signature.Results().Len(); i++ {
		rs = append(rs, tstr(fn.Signature.Results().At(i).Type(), qual))
	}
	k := recv + "|" + strings.Join(ps, ",") + "|" + strings.Join(rs, ",")
	return strings.ReplaceAll(k, "any", "interface{}")
}

// resolveRoles binds every role whose name is absent to the unique function with its shape.
func (w *World) resolveRoles() (notes []string) {
	owned := map[*ssa.Function]bool{}
	for _, ro := range fnRoles {
		if fn := w.byName[ro.name]; fn != nil {
			owned[fn] = true
		}
	}
	for _, ro := range fnRoles {
		if w.byName[ro.name] != nil {
			continue
		}
		var cands []*ssa.Function
		for _, fn := range w.Funcs {
			if fn.Parent() != nil || owned[fn] || fnAlias[fn] != "" || sigKey(fn) != ro.sig {
				continue
			}
			if obj := fn.Object(); obj == nil || obj.Exported() {
				continue // exported API keeps its name; only unexported helpers are matched by shape
			}
			if ro.pred != nil && !ro.pred(w, fn) {
				continue
			}
			cands = append(cands, fn)
		}
		if len(cands) == 1 {
			fn := cands[0]
			fnAlias[fn] = ro.name
			w.byName[ro.name] = fn
			owned[fn] = true
			notes = append(notes, ro.name+" is now "+unaliasTypes(fn.RelString(w.Types))+" (matched by receiver, signature and structure)")
			if d := w.astDecl[unaliasTypes(fn.RelString(w.Types))]; d != nil {
				w.astDecl[ro.name] = d
			}
		}
	}
	// generic rename detection against the pinned inventory: a declared name that is gone and whose signature reappears
	// under exactly one name the inventory does not know
	missingBySig := map[string][]string{}
	for name, sig := range funcInventory {
		if w.byName[name] == nil && sig != "" && !strings.Contains(name, "$") {
			missingBySig[sig] = append(missingBySig[sig], name)
		}
	}
	newBySig := map[string][]*ssa.Function{}
	for _, fn := range w.Funcs {
		if fn.Parent() != nil || fnAlias[fn] != "" {
			continue
		}
		if _, known := funcInventory[unaliasTypes(fn.RelString(w.Types))]; known {
			continue
		}
		if obj := fn.Object(); obj == nil || obj.Exported() {
			continue
		}
		newBySig[sigKey(fn)] = append(newBySig[sigKey(fn)], fn)
	}
	for sig, names := range missingBySig {
		fns := newBySig[sig]
		if len(names) != 1 || len(fns) != 1 {
			continue
		}
		fn, name := fns[0], names[0]
		fnAlias[fn] = name
		w.byName[name] = fn
		notes = append(notes, name+" is now "+unaliasTypes(fn.RelString(w.Types))+" (the only new function with the signature of the only missing one)")
		if d := w.astDecl[unaliasTypes(fn.RelString(w.Types))]; d != nil {
			w.astDecl[name] = d
		}
	}
	// a method of the inventory turned into a plain function of the same name that takes the receiver as its first
	// parameter (or the reverse): still the known routine. The SSA parameters are the same list either way.
	for name, sig := range funcInventory {
		if w.byName[name] != nil || sig == "" || strings.Contains(name, "$") {
			continue
		}
		parts := strings.SplitN(sig, "|", 3)
		if len(parts) != 3 {
			continue
		}
		short := name
		if i := strings.LastIndex(name, ")."); i >= 0 {
			short = name[i+2:]
		}
		var want string
		if parts[0] != "" { // method → function
			ps := parts[0]
			if parts[1] != "" {
				ps += "," + parts[1]
			}
			want = "|" + ps + "|" + parts[2]
		} else { // function → method on its first parameter's type
			ps := strings.SplitN(parts[1], ",", 2)
			if len(ps) == 0 || ps[0] == "" {
				continue
			}
			rest := ""
			if len(ps) == 2 {
				rest = ps[1]
			}
			want = ps[0] + "|" + rest + "|" + parts[2]
		}
		var cands []*ssa.Function
		for _, fn := range w.Funcs {
			if fn.Parent() != nil || fnAlias[fn] != "" || sigKey(fn) != want {
				continue
			}
			if _, known := funcInventory[unaliasTypes(fn.RelString(w.Types))]; known {
				continue
			}
			if obj := fn.Object(); obj == nil || obj.Exported() || obj.Name() != short {
				continue
			}
			cands = append(cands, fn)
		}
		if len(cands) == 1 {
			fn := cands[0]
			fnAlias[fn] = name
			w.byName[name] = fn
			notes = append(notes, name+" is now "+unaliasTypes(fn.RelString(w.Types))+" (same name and parameters, receiver moved)")
			if d := w.astDecl[unaliasTypes(fn.RelString(w.Types))]; d != nil {
				w.astDecl[name] = d
			}
		}
	}
	return notes
}

// aliasFull: the fully qualified String() form of an aliased function, as calleeName reports it.
func aliasFull(rel string) string {
	if strings.HasPrefix(rel, "(*") {
		return "(*" + cometPath + "." + rel[2:]
	}
	if strings.HasPrefix(rel, "(") {
		return "(" + cometPath + "." + rel[1:]
	}
	return cometPath + "." + rel
}

// fnShortName: the method / function identifier the rules compare with (alias aware).
func fnShortName(fn *ssa.Function) string {
	if a, ok := fnAlias[fn]; ok {
		if i := strings.LastIndex(a, "."); i >= 0 {
			return a[i+1:]
		}
		return a
	}
	return fn.Name()
}

// ---------------------------------------------------------------- struct fields

// fieldEnt is one field of a comet struct on the pinned tree (fields_gen.go, written by `cometlint -dumpfields`).
type fieldEnt struct{ Name, Type string }

// fieldAlias: struct name -> current field name -> the name the rules know the field by.
var fieldAlias = map[string]map[string]string{}

// resolveFieldAliases: a field of the pinned layout that is absent today is matched with the field of the same type the
// pinned layout does not know (by elimination; several of one type: in declaration order).
func (w *World) resolveFieldAliases() (notes []string) {
	for sname, pinned := range fieldTable {
		lookup := sname
		for cur, old := range typeAlias {
			if old == sname {
				lookup = cur
			}
		}
		tn, ok := w.Types.Scope().Lookup(lookup).(*types.TypeName)
		if !ok {
			continue
		}
		st, ok := tn.Type().Underlying().(*types.Struct)
		if !ok {
			continue
		}
		known := map[string]bool{}
		for _, f := range pinned {
			known[f.Name] = true
		}
		present := map[string]bool{}
		extras := map[string][]string{} // type -> current names unknown to the pinned layout, in order
		for i := 0; i < st.NumFields(); i++ {
			f := st.Field(i)
			present[f.Name()] = true
			if !known[f.Name()] {
				t := tstr(f.Type(), qual)
				extras[t] = append(extras[t], f.Name())
			}
		}
		missing := map[string][]string{} // type -> pinned names absent today, in order
		for _, f := range pinned {
			if !present[f.Name] {
				missing[f.Type] = append(missing[f.Type], f.Name)
			}
		}
		for t, ms := range missing {
			es := extras[t]
			if len(es) != len(ms) {
				continue // removed / retyped fields, or new ones of the same type: no safe match
			}
			for i := range ms {
				if fieldAlias[sname] == nil {
					fieldAlias[sname] = map[string]string{}
				}
				fieldAlias[sname][es[i]] = ms[i]
				notes = append(notes, sname+"."+ms[i]+" is now "+sname+"."+es[i]+" (matched by type and position)")
			}
		}
	}
	return notes
}

// roleFieldName maps a current field name of struct type t to the name the rules use.
func roleFieldName(t types.Type, name string) string {
	if len(fieldAlias) == 0 {
		return name
	}
	if p, ok := t.(*types.Pointer); ok {
		t = p.Elem()
	}
	if p, ok := t.Underlying().(*types.Pointer); ok {
		t = p.Elem()
	}
	if n, ok := t.(*types.Named); ok {
		nm := n.Obj().Name()
		if a, ok := typeAlias[nm]; ok {
			nm = a
		}
		if m := fieldAlias[nm]; m != nil {
			if a, ok := m[name]; ok {
				return a
			}
		}
	}
	return name
}

// ---------------------------------------------------------------- named types

// typeAlias: current name of a package-level type -> the name the pinned tree (and the rules) know it by.
var typeAlias = map[string]string{}
var typeAliasRe *regexp.Regexp

// tstr is types.TypeString with renamed types spelled as the pinned tree spells them.
func tstr(t types.Type, q types.Qualifier) string {
	return unaliasTypes(types.TypeString(t, q))
}

// unaliasTypes rewrites whole-word occurrences of renamed type names.
func unaliasTypes(s string) string {
	if len(typeAlias) == 0 {
		return s
	}
	return typeAliasRe.ReplaceAllStringFunc(s, func(m string) string { return typeAlias[m] })
}

func setTypeAliases(m map[string]string) {
	typeAlias = m
	typeAliasRe = nil
	if len(m) == 0 {
		return
	}
	var names []string
	for n := range m {
		names = append(names, regexp.QuoteMeta(n))
	}
	sort.Strings(names)
	typeAliasRe = regexp.MustCompile(`\b(` + strings.Join(names, "|") + `)\b`)
}

// typeShape: what a renamed type keeps — its underlying type, with field names for structs.
func typeShape(t types.Type) string {
	return tstr(t.Underlying(), qual)
}

// resolveTypeAliases: a type of the pinned inventory (types_gen.go) that is gone is matched with the only new type of the
// same shape. Two passes, so that a shape mentioning another renamed type still matches.
func resolveTypeAliases(pkg *types.Package) (notes []string) {
	setTypeAliases(nil)
	for pass := 0; pass < 2; pass++ {
		aliases := map[string]string{}
		for k, v := range typeAlias {
			aliases[k] = v
		}
		missing := map[string][]string{} // shape -> pinned names absent today
		for name, shape := range typeInventory {
			if pkg.Scope().Lookup(name) == nil {
				missing[shape] = append(missing[shape], name)
			}
		}
		fresh := map[string][]string{} // shape -> new names
		for _, name := range pkg.Scope().Names() {
			tn, ok := pkg.Scope().Lookup(name).(*types.TypeName)
			if !ok || tn.IsAlias() {
				continue
			}
			if _, known := typeInventory[name]; known {
				continue
			}
			fresh[typeShape(tn.Type())] = append(fresh[typeShape(tn.Type())], name)
		}
		for shape, olds := range missing {
			news := fresh[shape]
			if len(olds) == 1 && len(news) == 1 {
				aliases[news[0]] = olds[0]
			}
		}
		setTypeAliases(aliases)
	}
	for n, o := range typeAlias {
		notes = append(notes, "type "+o+" is now "+n+" (the only new type with its shape)")
	}
	sort.Strings(notes)
	return notes
}

package main

// rules_hybrid3.go — HYB.FLAGBYTES: the presence flags of the hybrid stream (which sub-indexes exist, which parts each
// document has) are written as one byte each and decoded by comparison; the grammar rules see three bytes on both
// sides and are satisfied — this rule decides that byte i means the same flag on both sides and that 1 means "present".

import (
	"fmt"
	"go/constant"
	"go/token"
	"go/types"
	"sort"
	"strings"

	"golang.org/x/tools/go/ssa"
)

// flagByteOf: v is φ(0, 1) chosen by a branch on cond; returns the canonical condition under which it is 1.
func flagByteOf(c *Canon, v ssa.Value) (string, bool) {
	for {
		if mi, ok := v.(*ssa.MakeInterface); ok {
			v = mi.X
			continue
		}
		if cv, ok := v.(*ssa.Convert); ok {
			v = cv.X
			continue
		}
		break
	}
	ph, ok := v.(*ssa.Phi)
	if !ok || len(ph.Edges) != 2 {
		return "", false
	}
	one := -1
	for i, e := range ph.Edges {
		k, isK := e.(*ssa.Const)
		if !isK || k.Value == nil || k.Value.Kind() != constant.Int {
			return "", false
		}
		switch k.Int64() {
		case 1:
			one = i
		case 0:
		default:
			return "", false
		}
	}
	if one < 0 {
		return "", false
	}
	// the block the 1 comes from is the arm of a branch; the 0 comes from the branch block itself (or its other arm)
	arm := ph.Block().Preds[one]
	other := ph.Block().Preds[1-one]
	var iff *ssa.If
	var d *ssa.BasicBlock
	if len(arm.Preds) == 1 {
		d = arm.Preds[0]
		iff, _ = d.Instrs[len(d.Instrs)-1].(*ssa.If)
	}
	if iff == nil || (other != d && !(len(other.Preds) == 1 && other.Preds[0] == d)) {
		return "", false
	}
	cond, neg := stripNot(iff.Cond)
	onTrue := d.Succs[0] == arm
	s := c.S(cond)
	if bo, isB := cond.(*ssa.BinOp); isB && (bo.Op == token.NEQ || bo.Op == token.EQL) {
		if x, nonNil, ok := nilCmp(c, cond); ok {
			s = x + "!=nil"
			if !nonNil {
				neg = !neg
			}
		}
	}
	if onTrue == neg {
		s = "!" + s
	}
	return s, true
}

func ruleHybridFlagBytes(r *Run, rule string) {
	w := r.W
	r.Doc(rule, "a presence flag is written for one part and read back as another, or with the opposite meaning: after a reload Remove skips a sub-index, or valid streams are refused")
	hk, err := hybridKindOf(w)
	if err != nil {
		r.Unres(rule, "flagbytes:hybrid", err.Error())
		return
	}
	wf, rf := w.Method(hk.IndexT, "WriteTo"), w.Method(hk.IndexT, "ReadFrom")
	if wf == nil || rf == nil {
		r.Unres(rule, "flagbytes:methods", "hybrid WriteTo/ReadFrom not found")
		return
	}
	c := NewCanon(w)
	// ---- writer: every byte-sized value handed to the codec helper (or binary.Write), in source order
	type wflag struct {
		pos  token.Pos
		when string
	}
	var wflags []wflag
	allInstrs(wf, func(in ssa.Instruction) {
		call, ok := in.(*ssa.Call)
		if !ok {
			return
		}
		for _, a := range call.Call.Args {
			x := a
			if mi, isMI := x.(*ssa.MakeInterface); isMI {
				x = mi.X
			} else {
				continue
			}
			if tstr(x.Type(), nil) != "uint8" && tstr(x.Type(), nil) != "byte" {
				continue
			}
			if when, ok := flagByteOf(c, x); ok {
				wflags = append(wflags, wflag{call.Pos(), when})
			} else {
				wflags = append(wflags, wflag{call.Pos(), "?" + c.S(x)})
			}
		}
	})
	sort.Slice(wflags, func(i, j int) bool { return wflags[i].pos < wflags[j].pos })
	// ---- reader: the byte-sized locals handed to the codec helper by address, in source order
	type rflag struct {
		pos   token.Pos
		alloc *ssa.Alloc
	}
	var rflags []rflag
	allInstrs(rf, func(in ssa.Instruction) {
		call, ok := in.(*ssa.Call)
		if !ok {
			return
		}
		for _, a := range call.Call.Args {
			x := a
			if mi, isMI := x.(*ssa.MakeInterface); isMI {
				x = mi.X
			} else {
				continue
			}
			al, isA := x.(*ssa.Alloc)
			if !isA {
				continue
			}
			pt, isP := al.Type().Underlying().(*types.Pointer)
			if !isP {
				continue
			}
			if et := tstr(pt.Elem(), nil); et != "uint8" && et != "byte" {
				continue
			}
			rflags = append(rflags, rflag{call.Pos(), al})
		}
	})
	sort.Slice(rflags, func(i, j int) bool { return rflags[i].pos < rflags[j].pos })
	site := w.Pos(rf.Pos()) + " " + w.Name(rf)
	if len(rflags) != 0 && (len(wflags) != len(rflags) || len(wflags) < 6) {
		r.Und(rule, "flagbytes:count", site, fmt.Sprintf("writer emits %d flag bytes, reader decodes %d (expected 6 on both sides: three index-presence flags, three per-document flags)", len(wflags), len(rflags)))
		return
	}
	// what each decoded byte is used for: `b == 1` / `b != 0` feeding a field of the documentInfo literal or a presence test
	var useBoolRec func(bv ssa.Value, means1 bool, i int, want string, uses *int, okAll *bool, detail *string)
	useBool := func(bv ssa.Value, means1 bool, i int, want string, uses *int, okAll *bool, detail *string) {
		if bv.Referrers() == nil {
			return
		}
		for _, r3 := range *bv.Referrers() {
			switch y := r3.(type) {
			case *ssa.Store:
				fa, isFA := y.Addr.(*ssa.FieldAddr)
				if !isFA {
					// a named local that is loaded again later (hasVector := flag): follow the cell
					if a, isA := y.Addr.(*ssa.Alloc); isA && y.Val == bv {
						for _, r4 := range *a.Referrers() {
							if ld, isLd := r4.(*ssa.UnOp); isLd && ld.Op == token.MUL {
								useBoolRec(ld, means1, i, want, uses, okAll, detail)
							}
						}
					}
					continue
				}
				f := fieldName(fa.X.Type(), fa.Field)
				*uses++
				if !means1 || !strings.HasSuffix(want, "."+f) {
					*okAll = false
					*detail = fmt.Sprintf("byte #%d is written as `%s` but decoded into %s (true ⇔ byte is 1: %v)", i, want, f, means1)
				}
			case *ssa.BinOp:
				var otherOp ssa.Value = y.X
				if y.X == bv {
					otherOp = y.Y
				}
				x, nonNil, okN := nilCmp(c, otherOp)
				if !okN {
					continue
				}
				*uses++
				present := x + "!=nil"
				rejectsWhenDifferent := (y.Op == token.NEQ) == (means1 == nonNil)
				rejecting := false
				for _, r4 := range *y.Referrers() {
					if iff, isIf := r4.(*ssa.If); isIf {
						if allPathsFail(iff.Block().Succs[0]) {
							rejecting = true
						}
					}
				}
				if !rejecting || !rejectsWhenDifferent || present != want {
					*okAll = false
					*detail = fmt.Sprintf("byte #%d is written as `%s` but checked against %s (rejects a mismatch: %v)", i, want, present, rejecting && rejectsWhenDifferent)
				}
			case *ssa.Phi:
				useBoolRec(y, means1, i, want, uses, okAll, detail)
			}
		}
	}
	useBoolRec = useBool
	// the reader may decode through one local helper `readFlag() (bool, error)`: its calls, in order, are the decoded flags
	if len(rflags) == 0 {
		for _, af := range rf.AnonFuncs {
			if af.Signature.Results().Len() != 2 || tstr(af.Signature.Results().At(0).Type(), nil) != "bool" {
				continue
			}
			// exactly one byte is decoded, and the result is `b == 1` (or an equivalent spelling)
			nAlloc := 0
			means1, okRet := false, true
			allInstrs(af, func(in ssa.Instruction) {
				if al, isA := in.(*ssa.Alloc); isA {
					if pt, isP := al.Type().Underlying().(*types.Pointer); isP && (tstr(pt.Elem(), nil) == "uint8" || tstr(pt.Elem(), nil) == "byte") {
						nAlloc++
					}
				}
			})
			for _, ret := range returnsOf(af) {
				switch x := ret.Results[0].(type) {
				case *ssa.Const:
				case *ssa.BinOp:
					k, isK := x.Y.(*ssa.Const)
					if !isK || k.Value == nil || k.Value.Kind() != constant.Int {
						okRet = false
						continue
					}
					switch {
					case x.Op == token.EQL && k.Int64() == 1:
						means1 = true
					default:
						okRet = false
					}
				default:
					okRet = false
				}
			}
			if nAlloc != 1 || !okRet || !means1 {
				continue
			}
			type fcall struct {
				pos token.Pos
				v   ssa.Value
			}
			var calls []fcall
			allInstrs(rf, func(in ssa.Instruction) {
				call, isCall := in.(*ssa.Call)
				if !isCall {
					return
				}
				if mc, isMC := call.Call.Value.(*ssa.MakeClosure); isMC && mc.Fn == ssa.Value(af) {
					for _, ref := range *call.Referrers() {
						if ex, isEx := ref.(*ssa.Extract); isEx && ex.Index == 0 {
							calls = append(calls, fcall{call.Pos(), ex})
						}
					}
				}
				// the closure value may be held in a variable
				if ld, isLd := call.Call.Value.(*ssa.UnOp); isLd {
					if a, isA := ld.X.(*ssa.Alloc); isA {
						if sv := singleStore(a); sv != nil {
							if mc, isMC := sv.(*ssa.MakeClosure); isMC && mc.Fn == ssa.Value(af) {
								for _, ref := range *call.Referrers() {
									if ex, isEx := ref.(*ssa.Extract); isEx && ex.Index == 0 {
										calls = append(calls, fcall{call.Pos(), ex})
									}
								}
							}
						}
					}
				}
			})
			sort.Slice(calls, func(i, j int) bool { return calls[i].pos < calls[j].pos })
			if len(calls) == len(wflags) && len(calls) >= 6 {
				for i, fc := range calls {
					want := wflags[i].when
					uses, okAll, detail := 0, true, ""
					useBool(fc.v, true, i, want, &uses, &okAll, &detail)
					key := fmt.Sprintf("flagbytes:byte#%d", i)
					if strings.HasPrefix(want, "?") || strings.HasPrefix(want, "!") {
						r.Bad(rule, key, w.Pos(wflags[i].pos)+" "+w.Name(wf), "flag byte #"+fmt.Sprint(i)+" is not `1 when present, 0 otherwise`: "+want)
						continue
					}
					if detail == "" && uses == 0 {
						detail = fmt.Sprintf("byte #%d (`%s`) is decoded but never interpreted", i, want)
					}
					r.Check(okAll && uses > 0, rule, key, w.Pos(fc.pos)+" "+w.Name(rf), fmt.Sprintf("byte #%d: 1 ⇔ %s on both sides (decoded by %s)", i, want, w.Name(af)), detail)
				}
				return
			}
		}
	}
	if len(rflags) == 0 {
		r.Und(rule, "flagbytes:count", site, fmt.Sprintf("writer emits %d flag bytes, but how the reader decodes them was not recognised (byte locals handed to the codec helper, or one local helper returning `b == 1`)", len(wflags)))
		return
	}
	for i, rfl := range rflags {
		want := wflags[i].when // e.g. P0.vectorIndex!=nil, next(range(P0.docInfo))#2.hasVector
		uses := 0
		okAll := true
		detail := ""
		for _, ref := range *rfl.alloc.Referrers() {
			ld, isLd := ref.(*ssa.UnOp)
			if !isLd || ld.Op != token.MUL {
				continue
			}
			for _, r2 := range *ld.Referrers() {
				bo, isB := r2.(*ssa.BinOp)
				if !isB {
					continue
				}
				k, isK := bo.Y.(*ssa.Const)
				if !isK || k.Value == nil || k.Value.Kind() != constant.Int {
					continue
				}
				// meaning of this comparison: true ⇔ byte is 1 (for a byte that is 0 or 1)
				var means1 bool
				switch {
				case bo.Op == token.EQL && k.Int64() == 1, bo.Op == token.NEQ && k.Int64() == 0, bo.Op == token.GTR && k.Int64() == 0, bo.Op == token.GEQ && k.Int64() == 1:
					means1 = true
				case bo.Op == token.EQL && k.Int64() == 0, bo.Op == token.NEQ && k.Int64() == 1, bo.Op == token.LSS && k.Int64() == 1:
					means1 = false
				default:
					// a range check of the byte that refuses the stream (`if b > 1 { return …, error }`) interprets nothing
					validation := false
					for _, r3 := range *bo.Referrers() {
						if iff, isIf := r3.(*ssa.If); isIf {
							t := iff.Block().Succs[0]
							if ret, isRet := t.Instrs[len(t.Instrs)-1].(*ssa.Return); isRet && classifyErr(ret) == ErrNonNil {
								validation = true
							}
						}
					}
					if !validation {
						okAll = false
						detail = "byte compared as " + c.S(bo)
					}
					continue
				}
				// where does the boolean go?
				useBool(bo, means1, i, want, &uses, &okAll, &detail)
				for _, r3 := range []ssa.Instruction{} {
					switch y := r3.(type) {
					case *ssa.Store:
						fa, isFA := y.Addr.(*ssa.FieldAddr)
						if !isFA {
							continue
						}
						f := fieldName(fa.X.Type(), fa.Field)
						uses++
						if !means1 || !strings.HasSuffix(want, "."+f) {
							okAll = false
							detail = fmt.Sprintf("byte #%d is written as `%s` but decoded into %s (true ⇔ byte is 1: %v)", i, want, f, means1)
						}
					case *ssa.BinOp:
						// (b == 1) != (idx.X != nil)  ⇒ error
						var otherOp ssa.Value = y.X
						if y.X == ssa.Value(bo) {
							otherOp = y.Y
						}
						x, nonNil, okN := nilCmp(c, otherOp)
						if !okN {
							continue
						}
						uses++
						present := x + "!=nil"
						// rejects ⇔ (means1 ? b==1 : b==0) y.Op (nonNil ? present : absent); must equal (b==1) != present
						rejectsWhenDifferent := (y.Op == token.NEQ) == (means1 == nonNil)
						rejecting := false
						for _, r4 := range *y.Referrers() {
							if iff, isIf := r4.(*ssa.If); isIf {
								t := iff.Block().Succs[0]
								if ret, isRet := t.Instrs[len(t.Instrs)-1].(*ssa.Return); isRet && classifyErr(ret) == ErrNonNil {
									rejecting = true
								}
							}
						}
						if !rejecting || !rejectsWhenDifferent || present != want {
							okAll = false
							detail = fmt.Sprintf("byte #%d is written as `%s` but checked against %s (rejects a mismatch: %v)", i, want, present, rejecting && rejectsWhenDifferent)
						}
					}
				}
			}
		}
		key := fmt.Sprintf("flagbytes:byte#%d", i)
		if strings.HasPrefix(want, "?") || strings.HasPrefix(want, "!") {
			r.Bad(rule, key, w.Pos(wflags[i].pos)+" "+w.Name(wf), "flag byte #"+fmt.Sprint(i)+" is not `1 when present, 0 otherwise`: "+want)
			continue
		}
		r.Check(okAll && uses > 0, rule, key, w.Pos(rfl.pos)+" "+w.Name(rf), fmt.Sprintf("byte #%d: 1 ⇔ %s on both sides", i, want),
			func() string {
				if detail != "" {
					return detail
				}
				return fmt.Sprintf("byte #%d (`%s`) is decoded but never interpreted", i, want)
			}())
	}
}

package main

// kinds.go — role-based discovery of the vector index kinds and their helper functions.
// Anchors are the exported interfaces; private helpers are found by call-graph role.

import (
	"fmt"
	"go/types"
	"sort"
	"strings"

	"golang.org/x/tools/go/ssa"
)

type vecKind struct {
	Name       string        // flat, hnsw, ivf, pq, ivfpq (from the type name, for reports only)
	IndexT     types.Type    // *FlatIndex
	IndexName  string        // FlatIndex
	SearchT    types.Type    // *flatIndexSearch
	SearchName string        // flatIndexSearch
	Execute    *ssa.Function // (*flatIndexSearch).Execute
	Single     *ssa.Function // per-query search routine
	Lookup     *ssa.Function // node-id -> vector lookup
	DelField   string        // soft-delete bitmap field of the index
	Add        *ssa.Function
	Remove     *ssa.Function
	Flush      *ssa.Function
}

var kindCache = map[*World][]*vecKind{}

// vecKinds discovers the implementers of VectorIndex and the roles around them.
func vecKinds(w *World) ([]*vecKind, error) {
	if k, ok := kindCache[w]; ok {
		return k, nil
	}
	vi := w.Iface("VectorIndex")
	vs := w.Iface("VectorSearch")
	if vi == nil || vs == nil {
		return nil, fmt.Errorf("interfaces VectorIndex/VectorSearch not found")
	}
	var out []*vecKind
	for _, T := range w.Implementers(vi) {
		k := &vecKind{IndexT: T, IndexName: namedTypeName(T)}
		k.Name = strings.ToLower(strings.TrimSuffix(k.IndexName, "Index"))
		ns := w.Method(T, "NewSearch")
		if ns == nil {
			return nil, fmt.Errorf("%s has no NewSearch", k.IndexName)
		}
		// concrete type returned by NewSearch
		allInstrs(ns, func(in ssa.Instruction) {
			if mi, ok := in.(*ssa.MakeInterface); ok && types.Implements(mi.X.Type(), vs) {
				k.SearchT = mi.X.Type()
			}
		})
		if k.SearchT == nil {
			return nil, fmt.Errorf("%s.NewSearch: concrete search type not found", k.IndexName)
		}
		k.SearchName = namedTypeName(k.SearchT)
		k.Execute = w.Method(k.SearchT, "Execute")
		k.Add = w.Method(T, "Add")
		k.Remove = w.Method(T, "Remove")
		k.Flush = w.Method(T, "Flush")
		if k.Execute == nil || k.Add == nil || k.Remove == nil || k.Flush == nil {
			return nil, fmt.Errorf("%s: Execute/Add/Remove/Flush missing", k.IndexName)
		}
		// helpers below Execute (methods of the same search type, found through same-type callees to depth 3): the per-query
		// routine returns ([]VectorResult, error), the node lookup ([][]float32, error). When a wrapper with the same result
		// type was extracted (collectQueries → lookupNodeVectors) the innermost candidate is the role holder.
		var singles, lookups []*ssa.Function
		for _, f := range sameRecvCallees(w, k.Execute, 3) {
			if f == k.Execute {
				continue
			}
			res := f.Signature.Results()
			if res.Len() != 2 {
				continue
			}
			switch tstr(res.At(0).Type(), qual) {
			case "[]VectorResult":
				singles = append(singles, f)
			case "[][]float32":
				lookups = append(lookups, f)
			}
		}
		innermost := func(cands []*ssa.Function) *ssa.Function {
			for _, f := range cands {
				callsOther := false
				for _, g := range sameRecvCallees(w, f, 3) {
					if g == f {
						continue
					}
					for _, o := range cands {
						if o == g {
							callsOther = true
						}
					}
				}
				if !callsOther {
					return f
				}
			}
			return nil
		}
		k.Single, k.Lookup = innermost(singles), innermost(lookups)
		if k.Single == nil || k.Lookup == nil {
			return nil, fmt.Errorf("%s: per-query search / node lookup helpers not found below Execute", k.SearchName)
		}
		// soft-delete field: the roaring bitmap field of the receiver that Remove (or a helper it
		// calls with the receiver) adds the id to
		fields := map[string]bool{}
		seen := map[*ssa.Function]bool{}
		var visit func(fn *ssa.Function, depth int)
		visit = func(fn *ssa.Function, depth int) {
			if seen[fn] || depth > 2 {
				return
			}
			seen[fn] = true
			c := NewCanon(w)
			allInstrs(fn, func(in ssa.Instruction) {
				call, ok := in.(ssa.CallInstruction)
				if !ok {
					return
				}
				cc := call.Common()
				if calleeName(cc) == roaringBitmap+"Add" {
					s := c.S(cc.Args[0])
					if strings.HasPrefix(s, "P0.") && !strings.Contains(s[3:], ".") {
						fields[s[3:]] = true
					}
				}
				if f := staticCallee(cc); f != nil && f.Pkg == w.SPkg && f.Signature.Recv() != nil && types.Identical(f.Signature.Recv().Type(), T) {
					visit(f, depth+1)
				}
			})
		}
		visit(k.Remove, 0)
		if len(fields) != 1 {
			return nil, fmt.Errorf("%s.Remove: soft-delete bitmap role resolves to %d fields", k.IndexName, len(fields))
		}
		for f := range fields {
			k.DelField = f
		}
		out = append(out, k)
	}
	sort.Slice(out, func(i, j int) bool { return out[i].Name < out[j].Name })
	if len(out) != 5 {
		return nil, fmt.Errorf("expected 5 implementers of VectorIndex, found %d", len(out))
	}
	kindCache[w] = out
	return out, nil
}

func kindByName(w *World, name string) (*vecKind, error) {
	ks, err := vecKinds(w)
	if err != nil {
		return nil, err
	}
	for _, k := range ks {
		if k.Name == name {
			return k, nil
		}
	}
	return nil, fmt.Errorf("vector kind %q not found", name)
}

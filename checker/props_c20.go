package main

import "golang.org/x/tools/go/ssa"

func trainRoots(w *World) []*ssa.Function {
	roots := []*ssa.Function{w.Fn("KMeans"), w.Fn("KMeansSubspace"), w.Fn("FindNearestCentroidIndex")}
	if ks, err := vecKinds(w); err == nil {
		for _, k := range ks {
			roots = append(roots, w.Method(k.IndexT, "Train"))
		}
	}
	if qi := w.Iface("Quantizer"); qi != nil {
		for _, T := range w.Implementers(qi) {
			for _, m := range []string{"Train", "Quantize", "Dequantize"} {
				roots = append(roots, w.Method(T, m))
			}
		}
	}
	return roots
}

func init() {
	register("C20", propMeta{
		Explanation: "Structural conditions of deterministic, in-range training and quantisation: no nondeterminism source (math/rand, crypto/rand, time, os, goroutines, select, map iteration) reachable from k-means, nearest-centroid search, the five Train methods and the quantisers (interface dispatch resolved to every implementer); no write through any input and no input slice stored into a returned / written / receiver container (centroids are copies, never aliases of input rows); the k clamp table over all weak orders of (k,0,n) ⇒ exactly min(k,n) centroids or nil; every centroid initialised by copy; every vector assigned per iteration; all nearest-selection loops are argmins; quantisers: make(T,len(input)), fresh result returned, int8 guarded by IsTrained and using round(x/absMax·127) / x/127·absMax, half precision through float16, full precision by copy.",
		NotDecided:  "bounding-box containment, convergence, reconstruction error bounds (numerical).",
		Assumptions: []string{"Distance.Calculate is pure (C18.IMM)", "float16 library implements IEEE half precision"},
	}, func(r *Run) {
		w := r.W
		ruleDeterminism(r, "C20.DET", trainRoots(w))
		km := w.Fn("kmeansInternal")
		fns := []*ssa.Function{km, w.Fn("KMeans"), w.Fn("KMeansSubspace"), w.Fn("FindNearestCentroidIndex")}
		if ks, err := vecKinds(w); err == nil {
			for _, k := range ks {
				fns = append(fns, w.Method(k.IndexT, "Train"))
			}
		}
		qfns := ruleQuantizers(r, "C20")
		ruleNoAlias(r, "C20.IMM", append(fns, qfns...))
		ruleKMeansShape(r, "C20")
		n := ruleArgmins(r, "C20.ARGMIN", []*ssa.Function{km, w.Fn("FindNearestCentroidIndex")})
		if n < 2 {
			r.add("C20.ARGMIN", "argmin:floor", "-", "fewer than 2 argmin loops found", Floor)
		}
		ruleKMeansUpdate(r, "C20.UPDATE")
		r.FloorCheck("C20.IMM", 12)
		r.FloorCheck("C20.QUANT", 15)
	})
}

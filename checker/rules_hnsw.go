package main

// rules_hnsw.go — HNSW layer search, linking and flush rules (C02, C12, C15).

import (
	"fmt"
	"go/token"
	"go/types"
	"strings"

	"golang.org/x/tools/go/ssa"
)

type heapPush struct {
	Call   *ssa.Call
	Heap   string // canonical of the heap object
	ID     string // canonical of the pushed candidate's id
	Dist   string
	Result bool
}

// hnswLayerFn discovers the layer-search routine: the HNSWIndex method that pushes onto two heaps and
// returns a slice filled from heap.Pop.
func hnswLayerFn(w *World) *ssa.Function {
	var best *ssa.Function
	for _, fn := range w.Funcs {
		if fn.Signature.Recv() == nil || namedTypeName(fn.Signature.Recv().Type()) != "HNSWIndex" {
			continue
		}
		pushes, pops := 0, 0
		allInstrs(fn, func(in ssa.Instruction) {
			if isCallTo(in, "container/heap.Push") {
				pushes++
			}
			if isCallTo(in, "container/heap.Pop") {
				pops++
			}
		})
		if pushes >= 2 && pops >= 2 {
			if best != nil {
				return nil // ambiguous
			}
			best = fn
		}
	}
	return best
}

// ruleHNSWLayerSearch: result pushes are gated by ¬DEL of the pushed id; exploration pushes are not gated by DEL
// (C12.FRONTIER); with ord=true also the heap-order conditions of the layer search (C12.ORD).
func ruleHNSWLayerSearch(r *Run, rule string, ord bool) {
	w := r.W
	fn := hnswLayerFn(w)
	r.Doc(rule, "a soft-deleted vertex is reported, or removing the entry point / a hub hides every vector behind it")
	if fn == nil {
		r.Unres(rule, "hnsw:layer-search", "the HNSW layer-search routine (two heaps) could not be identified")
		return
	}
	name := w.Name(fn)
	r.Analysed(name)
	c := NewCanon(w)
	k, err := kindByName(w, "hnsw")
	if err != nil {
		r.Unres(rule, "hnsw:kind", err.Error())
		return
	}
	delCanon := "P0." + k.DelField
	// result heap: the heap whose Pop results are stored into the returned slice
	resultHeap := ""
	allInstrs(fn, func(in ssa.Instruction) {
		st, ok := in.(*ssa.Store)
		if !ok {
			return
		}
		ia, ok := st.Addr.(*ssa.IndexAddr)
		if !ok {
			return
		}
		if _, ok := ia.X.(*ssa.MakeSlice); !ok {
			return
		}
		ta, ok := st.Val.(*ssa.TypeAssert)
		if !ok {
			return
		}
		if pop, ok := ta.X.(*ssa.Call); ok && calleeName(pop.Common()) == "container/heap.Pop" {
			resultHeap = c.S(pop.Call.Args[0])
		}
	})
	if resultHeap == "" {
		r.Unres(rule, "hnsw:result-heap", name+": no heap whose Pop results fill the returned slice")
		return
	}
	var pushes []heapPush
	allInstrs(fn, func(in ssa.Instruction) {
		call, ok := in.(*ssa.Call)
		if !ok || calleeName(call.Common()) != "container/heap.Push" {
			return
		}
		p := heapPush{Call: call, Heap: c.S(call.Call.Args[0])}
		p.Result = p.Heap == resultHeap
		v := call.Call.Args[1]
		if mi, ok := v.(*ssa.MakeInterface); ok {
			v = mi.X
		}
		if f, ok := litFields(v); ok {
			if f["id"] != nil {
				p.ID = c.S(f["id"])
			}
			if f["distance"] != nil {
				p.Dist = c.S(f["distance"])
			}
		}
		pushes = append(pushes, p)
	})
	// DEL-controlled regions
	type delIf struct {
		iff  *ssa.If
		id   string
		live *ssa.BasicBlock // successor taken when the id is NOT deleted
		dead *ssa.BasicBlock
	}
	var dels []delIf
	allInstrs(fn, func(in ssa.Instruction) {
		iff, ok := in.(*ssa.If)
		if !ok {
			return
		}
		cond := iff.Cond
		neg := false
		for {
			u, ok := cond.(*ssa.UnOp)
			if !ok || u.Op != token.NOT {
				break
			}
			neg = !neg
			cond = u.X
		}
		call, ok := cond.(*ssa.Call)
		if !ok || calleeName(call.Common()) != roaringBitmap+"Contains" || c.S(call.Call.Args[0]) != delCanon {
			return
		}
		d := delIf{iff: iff, id: c.S(call.Call.Args[1])}
		if neg {
			d.live, d.dead = iff.Block().Succs[0], iff.Block().Succs[1]
		} else {
			d.live, d.dead = iff.Block().Succs[1], iff.Block().Succs[0]
		}
		dels = append(dels, d)
	})
	inRegion := func(succ, b *ssa.BasicBlock) bool {
		return len(succ.Preds) == 1 && (succ == b || succ.Dominates(b))
	}
	nRes, nExp := 0, 0
	for i, p := range pushes {
		site := w.InstrPos(p.Call) + " " + name
		if p.ID == "" {
			r.Und(rule, fmt.Sprintf("hnsw:push#%d", i), site, "pushed value is not a candidate literal")
			continue
		}
		if p.Result {
			nRes++
			gated := false
			for _, d := range dels {
				if d.id == p.ID && inRegion(d.live, p.Call.Block()) {
					gated = true
				}
				// `if deleted { continue }` shape: the dead successor leaves, the push is dominated by the If and
				// only reachable through the live edge
				if d.id == p.ID && domInstr(d.iff, p.Call) && !inRegion(d.dead, p.Call.Block()) {
					reach := reachAvoid(fn, d.dead.Instrs[0], func(in ssa.Instruction) bool { return in == ssa.Instruction(p.Call) },
						func(in ssa.Instruction) bool { return in.Block() == d.iff.Block() && in == d.iff.Block().Instrs[0] })
					if reach == nil && d.dead.Instrs[0] != ssa.Instruction(p.Call) {
						gated = true
					}
				}
			}
			r.Check(gated, rule, fmt.Sprintf("hnsw:result-push#%d", nRes), site,
				"push onto the result heap is reached only when the pushed id "+p.ID+" is not soft-deleted",
				"push onto the result heap is not guarded by a soft-delete test of the pushed id "+p.ID)
		} else {
			nExp++
			ctrl := ""
			for _, d := range dels {
				if inRegion(d.live, p.Call.Block()) && !inRegion(d.dead, p.Call.Block()) {
					ctrl = w.InstrPos(d.iff)
				}
				// `if deleted { continue }` before the push
				if domInstr(d.iff, p.Call) && !inRegion(d.live, p.Call.Block()) && !inRegion(d.dead, p.Call.Block()) {
					reach := reachAvoid(fn, d.dead.Instrs[0], func(in ssa.Instruction) bool { return in == ssa.Instruction(p.Call) },
						func(in ssa.Instruction) bool { return in == d.iff.Block().Instrs[0] })
					if reach == nil && d.dead.Instrs[0] != ssa.Instruction(p.Call) {
						ctrl = w.InstrPos(d.iff)
					}
				}
			}
			r.Check(ctrl == "", rule, fmt.Sprintf("hnsw:explore-push#%d", nExp), site,
				"push onto the exploration heap does not depend on the soft-delete state (deleted vertices are traversed)",
				"push onto the exploration heap is skipped for soft-deleted vertices (test at "+ctrl+"): removing an entry point or hub cuts the traversal")
		}
	}
	if nRes < 2 || nExp < 2 {
		r.add(rule, "hnsw:push:floor", "-", fmt.Sprintf("found %d result pushes and %d exploration pushes, floor is 2+2", nRes, nExp), Floor)
	}
	if !ord {
		return
	}
	// ---- C12.ORD: comparison shapes of the layer search
	rule2 := strings.Replace(rule, "FRONTIER", "ORD", 1)
	r.Doc(rule2, "the search stops early / keeps the farthest candidates")
	worst := resultHeap + "[c(0)].distance"
	var term, admitLen, admitDist, evict bool
	allInstrs(fn, func(in ssa.Instruction) {
		bo, ok := in.(*ssa.BinOp)
		if !ok {
			return
		}
		cmp, neg, ok := normCmp(c, bo)
		if !ok || neg {
			return
		}
		isLen := func(s string) bool { return strings.Contains(s, ".Len(") && strings.Contains(s, resultHeap) }
		// ef: the size parameter, possibly clamped (`if ef < 1 { ef = 1 }`) — either operand may be it
		isEf := func(a, b ssa.Value) bool {
			isIntParam := func(v ssa.Value) bool {
				pm, ok := v.(*ssa.Parameter)
				if !ok {
					return false
				}
				bt, ok := pm.Type().Underlying().(*types.Basic)
				return ok && bt.Kind() == types.Int
			}
			for _, v := range []ssa.Value{a, b} {
				if isIntParam(v) {
					return true
				}
				if ph, ok := v.(*ssa.Phi); ok {
					for _, e := range ph.Edges {
						if isIntParam(e) {
							return true
						}
					}
				}
			}
			return false
		}
		switch {
		case cmp.Op == token.LSS && cmp.L == worst && strings.HasSuffix(cmp.R, ".distance") && !strings.Contains(cmp.R, "[c(0)]"):
			// worst < current.distance  (current popped from the exploration heap)
			term = true
		case cmp.Op == token.LSS && cmp.R == worst && !strings.HasSuffix(cmp.L, ".distance"):
			// d < worst  (d = Calculate(...))
			if strings.Contains(cmp.L, "Distance.Calculate(") {
				admitDist = true
			}
		case cmp.Op == token.LSS && isLen(cmp.L) && isEf(bo.Y, bo.X):
			admitLen = true // len < ef
		case cmp.Op == token.LSS && isLen(cmp.R) && isEf(bo.X, bo.Y):
			evict = true // ef < len
		// the same tests spelled through their complements (`if len >= ef && !(d < worst) { continue }`)
		case cmp.Op == token.LEQ && isLen(cmp.R) && isEf(bo.X, bo.Y):
			admitLen = true // ef <= len
		case cmp.Op == token.LEQ && isLen(cmp.L) && isEf(bo.Y, bo.X):
			evict = true // len <= ef
		case cmp.Op == token.LEQ && cmp.L == worst && strings.Contains(cmp.R, "Distance.Calculate("):
			admitDist = true // worst <= d
		case cmp.Op == token.LEQ && cmp.R == worst && strings.HasSuffix(cmp.L, ".distance") && !strings.Contains(cmp.L, "[c(0)]"):
			term = true // current.distance <= worst
		}
	})
	site := w.Pos(fn.Pos()) + " " + name
	r.Check(term, rule2, "hnsw:layer:terminate", site, "stop ⇔ current.distance > worst result", "termination test `current.distance > worst` not found in this form")
	r.Check(admitDist, rule2, "hnsw:layer:admit-dist", site, "admit ⇐ d < worst result", "admission test `d < worst` not found in this form")
	r.Check(admitLen, rule2, "hnsw:layer:admit-len", site, "admit ⇐ |result| < ef", "admission test `|result| < ef` not found in this form")
	r.Check(evict, rule2, "hnsw:layer:evict", site, "evict ⇔ |result| > ef", "eviction test `|result| > ef` not found in this form")
}

// ruleHeapOrders: minHeap.Less is <, maxHeap.Less is >, resultHeap.Less is < (by Pop flow / role).
func ruleHeapOrders(r *Run, rule string, want map[string]string) {
	w := r.W
	r.Doc(rule, "heap root is the wrong extreme: nearest/farthest confused")
	for typ, dir := range want {
		fn := w.Fn("(" + typ + ").Less")
		if fn == nil {
			r.Unres(rule, typ+".Less", "method not found")
			continue
		}
		r.Analysed(w.Name(fn))
		got, field, why := comparatorDirection(w, fn)
		site := w.Pos(fn.Pos()) + " " + w.Name(fn)
		if got == "" {
			r.Und(rule, typ+".Less", site, why)
			continue
		}
		r.Check(got == dir, rule, typ+".Less", site, "Less is "+dir+" on "+field, "Less is "+got+" on "+field+", must be "+dir)
	}
}

package main

// rules_hnsw.go — HNSW layer search, linking and flush rules (C02, C12, C15).

import (
	"fmt"
	"go/token"
	"go/types"
	"strings"

	"golang.org/x/tools/go/ssa"
)

type heapPush struct {
	Call   *ssa.Call
	Heap   string // canonical of the heap object
	ID     string // canonical of the pushed candidate's id
	Dist   string
	Result bool
}

// hnswLayerFn discovers the layer-search routine: the HNSWIndex method that pushes onto two heaps and
// returns a slice filled from heap.Pop.
func hnswLayerFn(w *World) *ssa.Function {
	var best *ssa.Function
	for _, fn := range w.Funcs {
		if fn.Signature.Recv() == nil || namedTypeName(fn.Signature.Recv().Type()) != "HNSWIndex" {
			continue
		}
		pushes, pops := 0, 0
		allInstrs(fn, func(in ssa.Instruction) {
			if isCallTo(in, "container/heap.Push") {
				pushes++
			}
			if isCallTo(in, "container/heap.Pop") {
				pops++
			}
		})
		if pushes >= 2 && pops >= 2 {
			if best != nil {
				return nil // ambiguous
			}
			best = fn
		}
	}
	return best
}

// ruleHNSWLayerSearch: result pushes are gated by ¬DEL of the pushed id; exploration pushes are not gated by DEL
// (C12.FRONTIER); with ord=true also the heap-order conditions of the layer search (C12.ORD).
func ruleHNSWLayerSearch(r *Run, rule string, ord bool) {
	w := r.W
	fn := hnswLayerFn(w)
	r.Doc(rule, "a soft-deleted vertex is reported, or removing the entry point / a hub hides every vector behind it")
	if fn == nil {
		r.Unres(rule, "hnsw:layer-search", "the HNSW layer-search routine (two heaps) could not be identified")
		return
	}
	name := w.Name(fn)
	r.Analysed(name)
	c := NewCanon(w)
	k, err := kindByName(w, "hnsw")
	if err != nil {
		r.Unres(rule, "hnsw:kind", err.Error())
		return
	}
	delCanon := "P0." + k.DelField
	// result heap: the heap whose Pop results are stored into the returned slice
	resultHeap := ""
	allInstrs(fn, func(in ssa.Instruction) {
		st, ok := in.(*ssa.Store)
		if !ok {
			return
		}
		ia, ok := st.Addr.(*ssa.IndexAddr)
		if !ok {
			return
		}
		if _, ok := ia.X.(*ssa.MakeSlice); !ok {
			return
		}
		ta, ok := st.Val.(*ssa.TypeAssert)
		if !ok {
			return
		}
		if pop, ok := ta.X.(*ssa.Call); ok && calleeName(pop.Common()) == "container/heap.Pop" {
			resultHeap = c.S(pop.Call.Args[0])
		}
	})
	if resultHeap == "" {
		r.Unres(rule, "hnsw:result-heap", name+": no heap whose Pop results fill the returned slice")
		return
	}
	var pushes []heapPush
	allInstrs(fn, func(in ssa.Instruction) {
		call, ok := in.(*ssa.Call)
		if !ok || calleeName(call.Common()) != "container/heap.Push" {
			return
		}
		p := heapPush{Call: call, Heap: c.S(call.Call.Args[0])}
		p.Result = p.Heap == resultHeap
		v := call.Call.Args[1]
		if mi, ok := v.(*ssa.MakeInterface); ok {
			v = mi.X
		}
		if f, ok := litFields(v); ok {
			if f["id"] != nil {
				p.ID = c.S(f["id"])
			}
			if f["distance"] != nil {
				p.Dist = c.S(f["distance"])
			}
		}
		pushes = append(pushes, p)
	})
	// DEL-controlled regions
	type delIf struct {
		iff  *ssa.If
		id   string
		live *ssa.BasicBlock // successor taken when the id is NOT deleted
		dead *ssa.BasicBlock
	}
	var dels []delIf
	allInstrs(fn, func(in ssa.Instruction) {
		iff, ok := in.(*ssa.If)
		if !ok {
			return
		}
		cond := iff.Cond
		neg := false
		for {
			u, ok := cond.(*ssa.UnOp)
			if !ok || u.Op != token.NOT {
				break
			}
			neg = !neg
			cond = u.X
		}
		call, ok := cond.(*ssa.Call)
		if !ok || calleeName(call.Common()) != roaringBitmap+"Contains" || c.S(call.Call.Args[0]) != delCanon {
			return
		}
		d := delIf{iff: iff, id: c.S(call.Call.Args[1])}
		if neg {
			d.live, d.dead = iff.Block().Succs[0], iff.Block().Succs[1]
		} else {
			d.live, d.dead = iff.Block().Succs[1], iff.Block().Succs[0]
		}
		dels = append(dels, d)
	})
	inRegion := func(succ, b *ssa.BasicBlock) bool {
		return len(succ.Preds) == 1 && (succ == b || succ.Dominates(b))
	}
	nRes, nExp := 0, 0
	for i, p := range pushes {
		site := w.InstrPos(p.Call) + " " + name
		if p.ID == "" {
			r.Und(rule, fmt.Sprintf("hnsw:push#%d", i), site, "pushed value is not a candidate literal")
			continue
		}
		if p.Result {
			nRes++
			gated := false
			for _, d := range dels {
				if d.id == p.ID && inRegion(d.live, p.Call.Block()) {
					gated = true
				}
				// `if deleted { continue }` shape: the dead successor leaves, the push is dominated by the If and
				// only reachable through the live edge
				if d.id == p.ID && domInstr(d.iff, p.Call) && !inRegion(d.dead, p.Call.Block()) {
					reach := reachAvoid(fn, d.dead.Instrs[0], func(in ssa.Instruction) bool { return in == ssa.Instruction(p.Call) },
						func(in ssa.Instruction) bool { return in.Block() == d.iff.Block() && in == d.iff.Block().Instrs[0] })
					if reach == nil && d.dead.Instrs[0] != ssa.Instruction(p.Call) {
						gated = true
					}
				}
			}
			r.Check(gated, rule, fmt.Sprintf("hnsw:result-push#%d", nRes), site,
				"push onto the result heap is reached only when the pushed id "+p.ID+" is not soft-deleted",
				"push onto the result heap is not guarded by a soft-delete test of the pushed id "+p.ID)
		} else {
			nExp++
			ctrl := ""
			for _, d := range dels {
				if inRegion(d.live, p.Call.Block()) && !inRegion(d.dead, p.Call.Block()) {
					ctrl = w.InstrPos(d.iff)
				}
				// `if deleted { continue }` before the push
				if domInstr(d.iff, p.Call) && !inRegion(d.live, p.Call.Block()) && !inRegion(d.dead, p.Call.Block()) {
					reach := reachAvoid(fn, d.dead.Instrs[0], func(in ssa.Instruction) bool { return in == ssa.Instruction(p.Call) },
						func(in ssa.Instruction) bool { return in == d.iff.Block().Instrs[0] })
					if reach == nil && d.dead.Instrs[0] != ssa.Instruction(p.Call) {
						ctrl = w.InstrPos(d.iff)
					}
				}
			}
			r.Check(ctrl == "", rule, fmt.Sprintf("hnsw:explore-push#%d", nExp), site,
				"push onto the exploration heap does not depend on the soft-delete state (deleted vertices are traversed)",
				"push onto the exploration heap is skipped for soft-deleted vertices (test at "+ctrl+"): removing an entry point or hub cuts the traversal")
		}
	}
	if nRes < 2 || nExp < 2 {
		r.add(rule, "hnsw:push:floor", "-", fmt.Sprintf("found %d result pushes and %d exploration pushes, floor is 2+2", nRes, nExp), Floor)
	}
	if !ord {
		return
	}
	// ---- C12.ORD: comparison shapes of the layer search
	rule2 := strings.Replace(rule, "FRONTIER", "ORD", 1)
	r.Doc(rule2, "the search stops early / keeps the farthest candidates")
	worst := resultHeap + "[c(0)].distance"
	var term, admitLen, admitDist, evict bool
	allInstrs(fn, func(in ssa.Instruction) {
		bo, ok := in.(*ssa.BinOp)
		if !ok {
			return
		}
		cmp, neg, ok := normCmp(c, bo)
		if !ok || neg {
			return
		}
		isLen := func(s string) bool { return strings.Contains(s, ".Len(") && strings.Contains(s, resultHeap) }
		// ef: the size parameter, possibly clamped (`if ef < 1 { ef = 1 }`) — either operand may be it
		isEf := func(a, b ssa.Value) bool {
			isIntParam := func(v ssa.Value) bool {
				pm, ok := v.(*ssa.Parameter)
				if !ok {
					return false
				}
				bt, ok := pm.Type().Underlying().(*types.Basic)
				return ok && bt.Kind() == types.Int
			}
			for _, v := range []ssa.Value{a, b} {
				if isIntParam(v) {
					return true
				}
				if ph, ok := v.(*ssa.Phi); ok {
					for _, e := range ph.Edges {
						if isIntParam(e) {
							return true
						}
					}
				}
				// the clamp written with the builtin: ef = max(ef, 1)
				if call, ok := v.(*ssa.Call); ok {
					if bi, isB := call.Call.Value.(*ssa.Builtin); isB && (bi.Name() == "max" || bi.Name() == "min") {
						for _, e := range call.Call.Args {
							if isIntParam(e) {
								return true
							}
						}
					}
				}
			}
			return false
		}
		switch {
		case cmp.Op == token.LSS && cmp.L == worst && strings.HasSuffix(cmp.R, ".distance") && !strings.Contains(cmp.R, "[c(0)]"):
			// worst < current.distance  (current popped from the exploration heap)
			term = true
		case cmp.Op == token.LSS && cmp.R == worst && !strings.HasSuffix(cmp.L, ".distance"):
			// d < worst  (d = Calculate(...))
			if strings.Contains(cmp.L, "Distance.Calculate(") {
				admitDist = true
			}
		case cmp.Op == token.LSS && isLen(cmp.L) && isEf(bo.Y, bo.X):
			admitLen = true // len < ef
		case cmp.Op == token.LSS && isLen(cmp.R) && isEf(bo.X, bo.Y):
			evict = true // ef < len
		// the same tests spelled through their complements (`if len >= ef && !(d < worst) { continue }`)
		case cmp.Op == token.LEQ && isLen(cmp.R) && isEf(bo.X, bo.Y):
			admitLen = true // ef <= len
		case cmp.Op == token.LEQ && isLen(cmp.L) && isEf(bo.Y, bo.X):
			evict = true // len <= ef
		case cmp.Op == token.LEQ && cmp.L == worst && strings.Contains(cmp.R, "Distance.Calculate("):
			admitDist = true // worst <= d
		case cmp.Op == token.LEQ && cmp.R == worst && strings.HasSuffix(cmp.L, ".distance") && !strings.Contains(cmp.L, "[c(0)]"):
			term = true // current.distance <= worst
		}
	})
	site := w.Pos(fn.Pos()) + " " + name
	r.Check(term, rule2, "hnsw:layer:terminate", site, "stop ⇔ current.distance > worst result", "termination test `current.distance > worst` not found in this form")
	r.Check(admitDist, rule2, "hnsw:layer:admit-dist", site, "admit ⇐ d < worst result", "admission test `d < worst` not found in this form")
	r.Check(admitLen, rule2, "hnsw:layer:admit-len", site, "admit ⇐ |result| < ef", "admission test `|result| < ef` not found in this form")
	r.Check(evict, rule2, "hnsw:layer:evict", site, "evict ⇔ |result| > ef", "eviction test `|result| > ef` not found in this form")
}

// ruleHeapOrders: minHeap.Less is <, maxHeap.Less is >, resultHeap.Less is < (by Pop flow / role).
func ruleHeapOrders(r *Run, rule string, want map[string]string) {
	w := r.W
	r.Doc(rule, "heap root is the wrong extreme: nearest/farthest confused")
	for typ, dir := range want {
		fn := w.Fn("(" + typ + ").Less")
		if fn == nil {
			r.Unres(rule, typ+".Less", "method not found")
			continue
		}
		r.Analysed(w.Name(fn))
		got, field, why := comparatorDirection(w, fn)
		site := w.Pos(fn.Pos()) + " " + w.Name(fn)
		if got == "" {
			r.Und(rule, typ+".Less", site, why)
			continue
		}
		r.Check(got == dir, rule, typ+".Less", site, "Less is "+dir+" on "+field, "Less is "+got+" on "+field+", must be "+dir)
	}
}

// ruleHNSWNeighbourTable: the body of the neighbour loop of the layer search as a truth table over
// (VISITED, FULL = |result| ≥ ef, CLOSER = d < worst result, DELETED, OVER = |result| > ef after the push):
//
//	visited            ⇒ nothing happens
//	¬visited           ⇒ marked visited; explored (pushed on the exploration heap) ⇔ ¬FULL ∨ CLOSER;
//	                     reported (pushed on the result heap) ⇔ explored ∧ ¬DELETED; worst result evicted ⇔ reported ∧ OVER
//
// and no iteration leaves the loop. Decided by path enumeration over one iteration, however the guards are spelled.
func ruleHNSWNeighbourTable(r *Run, rule string) {
	w := r.W
	fn := hnswLayerFn(w)
	if fn == nil {
		return
	}
	name := w.Name(fn)
	k, err := kindByName(w, "hnsw")
	if err != nil {
		return
	}
	c := NewCanon(w)
	delCanon := "P0." + k.DelField
	// result heap = the one whose Pop feeds the returned slice (as in ruleHNSWLayerSearch)
	resultHeap := ""
	allInstrs(fn, func(in ssa.Instruction) {
		if st, ok := in.(*ssa.Store); ok {
			if ta, ok := st.Val.(*ssa.TypeAssert); ok {
				if pop, ok := ta.X.(*ssa.Call); ok && calleeName(pop.Common()) == "container/heap.Pop" {
					if ia, ok := st.Addr.(*ssa.IndexAddr); ok {
						if _, ok := ia.X.(*ssa.MakeSlice); ok {
							resultHeap = c.S(pop.Call.Args[0])
						}
					}
				}
			}
		}
	})
	if resultHeap == "" {
		return
	}
	// the neighbour loop: innermost loop containing a result push whose id is not the entry point parameter
	var pushR, pushE, popR *ssa.Call
	var loop *Loop
	loops := loopsOf(fn)
	allInstrs(fn, func(in ssa.Instruction) {
		call, ok := in.(*ssa.Call)
		if !ok {
			return
		}
		l := innermostLoop(loops, call.Block())
		if l == nil {
			return
		}
		switch calleeName(call.Common()) {
		case "container/heap.Push":
			inner := true
			for _, l2 := range loops {
				if l2 != l && l.Blocks[l2.Header] {
					inner = false // l contains another loop: not the innermost one
				}
			}
			if !inner {
				return
			}
			if c.S(call.Call.Args[0]) == resultHeap {
				pushR, loop = call, l
			} else {
				pushE = call
			}
		case "container/heap.Pop":
			if c.S(call.Call.Args[0]) == resultHeap && l != nil {
				isInner := true
				for _, l2 := range loops {
					if l2 != l && l.Blocks[l2.Header] {
						isInner = false
					}
				}
				if isInner {
					popR = call
				}
			}
		}
	})
	popR = nil
	if loop != nil {
		allInstrs(fn, func(in ssa.Instruction) {
			if call, ok := in.(*ssa.Call); ok && calleeName(call.Common()) == "container/heap.Pop" && c.S(call.Call.Args[0]) == resultHeap && loop.Blocks[call.Block()] {
				popR = call
			}
		})
	}
	site := w.Pos(fn.Pos()) + " " + name
	if loop == nil || pushR == nil || pushE == nil || !loop.Blocks[pushE.Block()] {
		r.Und(rule, "hnsw:neighbours:shape", site, "the neighbour loop with its two heap pushes was not found")
		return
	}
	worst := resultHeap + "[c(0)].distance"
	var visitAdd *ssa.Call
	allInstrs(fn, func(in ssa.Instruction) {
		if call, ok := in.(*ssa.Call); ok && (calleeName(call.Common()) == roaringBitmap+"Add" || calleeName(call.Common()) == roaringBitmap+"CheckedAdd") && loop.Blocks[call.Block()] && strings.Contains(c.S(call.Call.Args[0]), "roaring.New(") {
			visitAdd = call // CheckedAdd marks and tells whether the id was new in one call
		}
	})
	efParam := pruneBoundParam(fn) // the int parameter that does not index an edge table (the other one is the layer)
	isEf := func(s string) bool {
		return s == efParam || strings.HasPrefix(s, "phi@") || strings.HasPrefix(s, "builtin:max("+efParam+",") || strings.HasPrefix(s, "builtin:max(c(1),"+efParam) // ef, possibly clamped
	}
	classify := func(cond ssa.Value) (string, bool) {
		switch x := cond.(type) {
		case *ssa.Call:
			if calleeName(x.Common()) == roaringBitmap+"Contains" {
				if c.S(x.Call.Args[0]) == delCanon {
					return "DELETED", false
				}
				if strings.Contains(c.S(x.Call.Args[0]), "roaring.New(") {
					return "VISITED", false
				}
			}
			// CheckedAdd(id) is true exactly when id had not been visited (and marks it)
			if calleeName(x.Common()) == roaringBitmap+"CheckedAdd" && strings.Contains(c.S(x.Call.Args[0]), "roaring.New(") {
				return "VISITED", true
			}
		case *ssa.BinOp:
			cmp, neg, ok := normCmp(c, x)
			if !ok {
				return "", false
			}
			isLen := func(s string) bool { return strings.Contains(s, ".Len(") && strings.Contains(s, resultHeap) }
			after := domInstr(pushR, x)
			switch {
			case !after && cmp.Op == token.LSS && isLen(cmp.L) && isEf(cmp.R): // len < ef
				return "FULL", !neg
			case !after && cmp.Op == token.LEQ && isEf(cmp.L) && isLen(cmp.R): // ef <= len
				return "FULL", neg
			case after && cmp.Op == token.LSS && isEf(cmp.L) && isLen(cmp.R): // ef < len
				return "OVER", neg
			case after && cmp.Op == token.LEQ && isLen(cmp.L) && isEf(cmp.R): // len <= ef
				return "OVER", !neg
			case cmp.Op == token.LSS && cmp.L == "c(0)" && isLen(cmp.R): // 0 < len
				return "NONEMPTY", neg
			case cmp.Op == token.LEQ && isLen(cmp.L) && cmp.R == "c(0)": // len <= 0
				return "NONEMPTY", !neg
			case cmp.Op == token.EQL && (isLen(cmp.L) && cmp.R == "c(0)" || isLen(cmp.R) && cmp.L == "c(0)"): // len == 0
				return "NONEMPTY", !neg
			case cmp.Op == token.LSS && cmp.R == worst && strings.Contains(cmp.L, "Distance.Calculate("): // d < worst
				return "CLOSER", neg
			case cmp.Op == token.LEQ && cmp.L == worst && strings.Contains(cmp.R, "Distance.Calculate("): // worst <= d
				return "CLOSER", !neg
			}
		}
		return "", false
	}
	paths, trunc := enumPaths(loop.Header, walkCfg{
		Stop:      func(b *ssa.BasicBlock) bool { return b == loop.Header || !loop.Blocks[b] },
		MaxVisits: 2, MaxPaths: 8000 * pathScale, Decide: decideOnPath,
	})
	if trunc {
		r.Und(rule, "hnsw:neighbours:paths", site, "the neighbour loop has too many paths to enumerate")
		return
	}
	var rows []pathRow
	early := ""
	for _, p := range paths {
		if p.End == EndCycle || !p.Feasible() {
			continue
		}
		if p.End == EndStop && len(p.Blocks) == 2 && !loop.Blocks[p.Blocks[1]] {
			continue // the loop condition ended the loop
		}
		if p.End != EndStop || !loop.Blocks[p.Blocks[len(p.Blocks)-1]] {
			last := p.Blocks[len(p.Blocks)-2]
			early = w.InstrPos(last.Instrs[len(last.Instrs)-1])
			continue
		}
		if row := classifyPath(p, classify); !row.Conflict {
			rows = append(rows, row)
		}
	}
	r.Check(early == "", rule, "hnsw:neighbours:complete", site, "every neighbour of the expanded vertex is considered (no iteration leaves the loop)",
		"an iteration of the neighbour loop leaves the loop at "+early+": the remaining neighbours of the vertex are never looked at")
	outcome := func(row pathRow) string {
		var parts []string
		if visitAdd != nil && row.P.Has(visitAdd) && !(calleeName(visitAdd.Common()) == roaringBitmap+"CheckedAdd" && row.Atoms["VISITED"]) {
			// (CheckedAdd on an id that was visited already changes nothing)
			parts = append(parts, "mark")
		}
		if row.P.Has(pushE) {
			parts = append(parts, "explore")
		}
		if row.P.Has(pushR) {
			parts = append(parts, "report")
		}
		if popR != nil && row.P.Has(popR) {
			parts = append(parts, "evict")
		}
		if len(parts) == 0 {
			return "nothing"
		}
		return strings.Join(parts, "+")
	}
	bad, states := tableCheck([]string{"VISITED", "FULL", "CLOSER", "DELETED", "OVER", "NONEMPTY"}, rows, outcome, func(a map[string]bool) string {
		if !a["NONEMPTY"] && (a["FULL"] || a["CLOSER"]) {
			return "-" // an empty result heap is not full (ef ≥ 1) and has no worst element to beat
		}
		if a["VISITED"] {
			return "nothing"
		}
		admit := !a["FULL"] || a["CLOSER"]
		switch {
		case !admit:
			return "mark"
		case a["DELETED"]:
			return "mark+explore"
		case a["OVER"]:
			return "mark+explore+report+evict"
		}
		return "mark+explore+report"
	})
	r.Check(len(bad) == 0, rule, "hnsw:neighbours:table", site, fmt.Sprintf("neighbour handling agrees with the specification in all %d states of (VISITED, FULL, CLOSER, DELETED, OVER)", states),
		"neighbour handling differs from `unvisited ⇒ mark; explore ⇔ ¬full ∨ closer; report ⇔ explored ∧ ¬deleted; evict ⇔ reported ∧ over`: "+truncList(bad, 3))
}

// ruleHNSWEdgeBudget: in the insertion routine the number of edges a vertex may keep on a layer is decided per layer:
// 2·M on layer 0, M above. The rule follows every path through one iteration of the layer loop to the neighbour
// selection (and to the pruning call) and reads the budget handed over on that path; the test that doubles it must be a
// test of that loop's own layer counter. A budget computed once from the new node's level gives a vertex of level ≥ 1
// only M edges on the bottom layer: its neighbours prune the back links of late, far-away vertices, which then have no
// in-edge on layer 0 and are never found.
func ruleHNSWEdgeBudget(r *Run, rule string) {
	w := r.W
	r.Doc(rule, "a vertex gets the upper-layer edge budget M on the bottom layer (or 2·M above): back links are pruned away and vertices become unreachable")
	ins := hnswFn(w, "insert")
	sel := hnswFn(w, "select")
	prune := hnswFn(w, "prune")
	if ins == nil || sel == nil {
		r.Unres(rule, "hnsw:budget", "insert / select helpers not found by role")
		return
	}
	name := w.Name(ins)
	r.Analysed(name)
	c := NewCanon(w)
	loops := loopsOf(ins)
	type site struct {
		call ssa.Instruction
		arg  ssa.Value
		what string
	}
	var sites []site
	for _, call := range callsIn(ins, func(cc *ssa.CallCommon) bool { return staticCallee(cc) == sel }) {
		// the budget is the selection's integer argument (wherever it stands)
		for _, a := range call.Common().Args {
			if bt, ok := a.Type().Underlying().(*types.Basic); ok && bt.Kind() == types.Int {
				sites = append(sites, site{call, a, "selection"})
			}
		}
	}
	if prune != nil {
		pM := pruneBoundParam(prune)
		var pi int
		fmt.Sscanf(pM, "P%d", &pi)
		for _, call := range callsIn(ins, func(cc *ssa.CallCommon) bool { return staticCallee(cc) == prune }) {
			if pi < len(call.Common().Args) {
				sites = append(sites, site{call, call.Common().Args[pi], "pruning"})
			}
		}
	}
	if len(sites) == 0 {
		r.Und(rule, "hnsw:budget", w.Pos(ins.Pos())+" "+name, "the insertion routine calls neither the selection nor the pruning helper directly")
		return
	}
	for i, st := range sites {
		key := fmt.Sprintf("hnsw:budget:%s#%d", st.what, i)
		site := w.InstrPos(st.call) + " " + name
		// the layer loop: the outermost loop of the routine that contains the call and whose counter is the layer handed to
		// the helpers — here: the outermost loop containing the call
		var loop *Loop
		for _, l := range loops {
			if l.Blocks[st.call.Block()] && (loop == nil || len(l.Blocks) > len(loop.Blocks)) {
				loop = l
			}
		}
		if loop == nil {
			r.Bad(rule, key, site, "the "+st.what+" is not inside a loop over the layers")
			continue
		}
		// the loop's counters: phis of the header
		counter := map[ssa.Value]bool{}
		for _, in := range loop.Header.Instrs {
			if ph, ok := in.(*ssa.Phi); ok {
				counter[ph] = true
			}
		}
		classify := func(cond ssa.Value) (string, bool) {
			bo, ok := cond.(*ssa.BinOp)
			if !ok {
				return "", false
			}
			x, y := bo.X, bo.Y
			if isZeroConst(x) {
				x, y = y, x
			}
			if !isZeroConst(y) || !counter[x] {
				// lc < 1 / lc <= 0 / lc >= 1 …
				if k, isK := y.(*ssa.Const); isK && counter[x] && k.Value != nil && k.Value.ExactString() == "1" {
					switch bo.Op {
					case token.LSS:
						return "LC0", false
					case token.GEQ:
						return "LC0", true
					}
				}
				return "", false
			}
			switch bo.Op {
			case token.EQL, token.LEQ:
				return "LC0", false
			case token.NEQ, token.GTR:
				return "LC0", true
			}
			return "", false
		}
		paths, trunc := enumPaths(loop.Header, walkCfg{Stop: func(b *ssa.BasicBlock) bool { return b == st.call.Block() }, MaxVisits: 1, MaxPaths: 4000})
		if trunc {
			r.Und(rule, key, site, "too many paths through one layer iteration")
			continue
		}
		var bad []string
		n := 0
		for _, pth := range paths {
			if pth.End != EndStop || !pth.Feasible() {
				continue
			}
			row := classifyPath(pth, classify)
			if row.Conflict {
				continue
			}
			n++
			v := resolveOnPath(pth, st.arg)
			got := ""
			switch s := c.S(v); {
			case s == "P0.M":
				got = "M"
			case s == "(P0.M*c(2))" || s == "(c(2)*P0.M)" || s == "(P0.M+P0.M)" || s == "(P0.M<<c(1))":
				got = "2M"
			default:
				got = "other:" + short(s, 60)
			}
			lc0, decided := row.Atoms["LC0"]
			switch {
			case !decided:
				bad = append(bad, "the budget "+got+" is chosen without a test of this loop's layer counter against 0")
			case lc0 && got != "2M":
				bad = append(bad, "layer 0 gets "+got+", expected 2·M")
			case !lc0 && got != "M":
				bad = append(bad, "a layer above 0 gets "+got+", expected M")
			}
		}
		if n == 0 {
			r.Und(rule, key, site, "no path through a layer iteration reaches the "+st.what)
			continue
		}
		if len(bad) > 0 {
			r.Bad(rule, key, site, "edge budget of the "+st.what+": "+truncList(dedup(bad), 3))
		} else {
			r.Ok(rule, key, site, fmt.Sprintf("%d ways through a layer iteration: the %s is given 2·M exactly when the loop's layer counter is 0, M otherwise", n, st.what))
		}
	}
}

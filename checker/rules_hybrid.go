package main

// rules_hybrid.go — hybrid index rules (C05 search pipeline, C06 write atomicity).

import (
	"fmt"
	"go/token"
	"go/types"
	"sort"
	"strings"

	"golang.org/x/tools/go/ssa"
)

type hybridKind struct {
	IndexT   types.Type // *hybridSearchIndex
	SearchT  types.Type // *hybridSearch
	Execute  *ssa.Function
	AddInt   *ssa.Function // shared add routine below Add / AddWithID
	Remove   *ssa.Function
	IdxField string
}

func hybridKindOf(w *World) (*hybridKind, error) {
	ctor := w.Fn("NewHybridSearchIndex")
	if ctor == nil {
		return nil, fmt.Errorf("NewHybridSearchIndex not found")
	}
	k := &hybridKind{}
	hi := w.Iface("HybridSearchIndex")
	allInstrs(ctor, func(in ssa.Instruction) {
		if mi, ok := in.(*ssa.MakeInterface); ok && hi != nil && types.Implements(mi.X.Type(), hi) {
			k.IndexT = mi.X.Type()
		}
	})
	if k.IndexT == nil {
		return nil, fmt.Errorf("concrete hybrid index type not found")
	}
	ns := w.Method(k.IndexT, "NewSearch")
	hs := w.Iface("HybridSearch")
	if ns == nil || hs == nil {
		return nil, fmt.Errorf("NewSearch / HybridSearch missing")
	}
	allInstrs(ns, func(in ssa.Instruction) {
		if mi, ok := in.(*ssa.MakeInterface); ok && types.Implements(mi.X.Type(), hs) {
			k.SearchT = mi.X.Type()
		}
	})
	if k.SearchT == nil {
		return nil, fmt.Errorf("concrete hybrid search type not found")
	}
	k.Execute = w.Method(k.SearchT, "Execute")
	k.Remove = w.Method(k.IndexT, "Remove")
	add, addID := w.Method(k.IndexT, "Add"), w.Method(k.IndexT, "AddWithID")
	if k.Execute == nil || k.Remove == nil || add == nil || addID == nil {
		return nil, fmt.Errorf("Execute/Remove/Add/AddWithID missing")
	}
	// the shared add routine: same-receiver callee of both Add and AddWithID
	callees := func(fn *ssa.Function) map[*ssa.Function]bool {
		m := map[*ssa.Function]bool{}
		for _, f := range sameRecvCallees(w, fn, 1) {
			if f != fn {
				m[f] = true
			}
		}
		return m
	}
	a, b := callees(add), callees(addID)
	for f := range a {
		if b[f] {
			k.AddInt = f
		}
	}
	if k.AddInt == nil {
		return nil, fmt.Errorf("shared add routine below Add and AddWithID not found")
	}
	k.IdxField = indexFieldOf(k.SearchT, k.IndexT)
	for _, f := range []string{"vectorIndex", "textIndex", "metadataIndex", "docInfo"} {
		if !hasField(k.IndexT, f) {
			return nil, fmt.Errorf("hybrid index has no field %s", f)
		}
	}
	return k, nil
}

func invokesOf(fn *ssa.Function, method string) []*ssa.Call {
	var out []*ssa.Call
	allInstrs(fn, func(in ssa.Instruction) {
		if c, ok := in.(*ssa.Call); ok && c.Call.IsInvoke() && c.Call.Method.Name() == method {
			out = append(out, c)
		}
	})
	return out
}

// guardedBy reports whether instruction in lies in the region controlled by the given outcome of a branch on
// a condition with canonical form cond (the branch dominates it and the chosen successor leads to it exclusively).
func guardedBy(c *Canon, in ssa.Instruction, match func(cmp Cmp, neg bool) (wantTrue bool, ok bool)) bool {
	for b := in.Block(); b != nil; b = b.Idom() {
		d := b.Idom()
		if d == nil {
			return false
		}
		iff, ok := d.Instrs[len(d.Instrs)-1].(*ssa.If)
		if !ok {
			continue
		}
		cond, neg0 := stripNot(iff.Cond)
		bo, ok := cond.(*ssa.BinOp)
		if !ok {
			continue
		}
		cmp, neg, ok := normCmp(c, bo)
		if !ok {
			continue
		}
		wantTrue, ok := match(cmp, neg != neg0)
		if !ok {
			continue
		}
		succ := d.Succs[1]
		if wantTrue {
			succ = d.Succs[0]
		}
		if len(succ.Preds) == 1 && (succ == b || succ.Dominates(b)) {
			return true
		}
	}
	return false
}

// nonEmptyGuard matches `len(X) > 0` / `len(X) != 0` (true branch) or `len(X) == 0` (false branch) for X with canonical xs.
func nonEmptyGuard(xs string) func(cmp Cmp, neg bool) (bool, bool) {
	return func(cmp Cmp, neg bool) (bool, bool) {
		lenX := "len(" + xs + ")"
		switch {
		case cmp.Op == token.LSS && cmp.L == "c(0)" && cmp.R == lenX: // 0 < len
			return !neg, true
		case cmp.Op == token.EQL && (cmp.L == lenX && cmp.R == "c(0)" || cmp.R == lenX && cmp.L == "c(0)"): // len == 0
			return neg, true
		case cmp.Op == token.LEQ && cmp.L == lenX && cmp.R == "c(0)": // len <= 0
			return neg, true
		}
		return false, false
	}
}

// ruleHybridCandidates: C05.CAND / C05.EMPTY / C05.NIL.
func ruleHybridCandidates(r *Run, k *hybridKind) {
	w := r.W
	fn := k.Execute
	name := w.Name(fn)
	r.Analysed(name)
	c := NewCanon(w)
	r.Doc("C05.CAND", "a modality ignores the metadata filter (results outside the filtered set)")
	r.Doc("C05.EMPTY", "a filter that matches nothing returns everything")
	r.Doc("C05.NIL", "querying a modality that is not configured panics instead of failing")
	// candidate list: the []uint32 slice filled from the metadata results' ids
	var cand *ssa.MakeSlice
	allInstrs(fn, func(in ssa.Instruction) {
		st, ok := in.(*ssa.Store)
		if !ok {
			return
		}
		ia, ok := st.Addr.(*ssa.IndexAddr)
		if !ok {
			return
		}
		mk, ok := ia.X.(*ssa.MakeSlice)
		if !ok || tstr(mk.Type(), nil) != "[]uint32" {
			return
		}
		if strings.Contains(c.S(st.Val), "GetId(") && strings.Contains(c.S(st.Val), "MetadataSearch.Execute(") {
			cand = mk
		}
	})
	if cand == nil {
		r.Unres("C05.CAND", "candidates", name+": the candidate id list filled from the metadata results was not found")
		return
	}
	// candidate list covers all metadata results: make(len(metaResults)), filled at the range index
	lenOK := strings.Contains(c.S(cand.Len), "len(") && strings.Contains(c.S(cand.Len), "MetadataSearch.Execute(")
	r.Check(lenOK, "C05.CAND", "candidates:complete", w.InstrPos(cand)+" "+name, "candidate list has one slot per metadata result", "candidate list length is "+c.S(cand.Len))
	// the value of candidateIDs visible later (phi of nil / cand)
	isCand := func(v ssa.Value) bool {
		seen := map[ssa.Value]bool{}
		var rec func(v ssa.Value) bool
		rec = func(v ssa.Value) bool {
			if seen[v] {
				return false
			}
			seen[v] = true
			switch x := v.(type) {
			case *ssa.MakeSlice:
				return x == cand
			case *ssa.Phi:
				for _, e := range x.Edges {
					if rec(e) {
						return true
					}
				}
			}
			return false
		}
		return rec(v)
	}
	nDoc := 0
	for _, call := range invokesOf(fn, "WithDocumentIDs") {
		nDoc++
		site := w.InstrPos(call) + " " + name
		arg := call.Call.Args[0]
		modality := "vector"
		if strings.Contains(tstr(call.Call.Value.Type(), qual), "Text") {
			modality = "text"
		}
		okArg := isCand(arg)
		r.Check(okArg, "C05.CAND", "candidates:"+modality+":arg", site, modality+" search is restricted to the metadata candidate list",
			modality+" search is restricted to "+c.S(arg)+", which is not the metadata candidate list")
		okGuard := guardedBy(c, call, nonEmptyGuard(c.S(arg)))
		r.Check(okGuard, "C05.CAND", "candidates:"+modality+":guard", site, "restriction applied iff the very list passed is non-empty",
			"the non-emptiness guard does not test the list that is passed (an empty list means 'no restriction' to the sub-index)")
	}
	if nDoc != 2 {
		r.add("C05.CAND", "candidates:floor", "-", fmt.Sprintf("%d WithDocumentIDs calls in %s, expected 2 (vector and text)", nDoc, name), Floor)
	}
	// the restriction precedes the sub-search Execute and is unconditional on the filtered path
	for _, ex := range invokesOf(fn, "Execute") {
		recvT := tstr(ex.Call.Value.Type(), qual)
		if !strings.Contains(recvT, "VectorSearch") && !strings.Contains(recvT, "TextSearch") {
			continue
		}
		site := w.InstrPos(ex) + " " + name
		// the receiver of Execute derives (phi) from a WithDocumentIDs result
		fromDoc := false
		seen := map[ssa.Value]bool{}
		var rec func(v ssa.Value)
		rec = func(v ssa.Value) {
			if seen[v] {
				return
			}
			seen[v] = true
			switch x := v.(type) {
			case *ssa.Phi:
				for _, e := range x.Edges {
					rec(e)
				}
			case *ssa.Call:
				if x.Call.IsInvoke() && x.Call.Method.Name() == "WithDocumentIDs" {
					fromDoc = true
				}
			}
		}
		rec(ex.Call.Value)
		r.Check(fromDoc, "C05.CAND", "candidates:flows:"+recvT, site, "the executed sub-search is the builder that received the candidate restriction", "the executed sub-search builder never received WithDocumentIDs")
		// EMPTY: from the creation of the candidate list, the sub-search cannot be reached without passing the emptiness exit
		isEmptyTest := func(in ssa.Instruction) bool {
			iff, ok := in.(*ssa.If)
			if !ok {
				return false
			}
			cond, _ := stripNot(iff.Cond)
			bo, ok := cond.(*ssa.BinOp)
			if !ok {
				return false
			}
			cmp, _, ok := normCmp(c, bo)
			if !ok {
				return false
			}
			lenX := "len(" + c.S(cand) + ")"
			return (cmp.L == lenX && cmp.R == "c(0)") || (cmp.R == lenX && cmp.L == "c(0)")
		}
		esc := reachAvoid(fn, cand, func(in ssa.Instruction) bool { return in == ssa.Instruction(ex) }, isEmptyTest)
		r.Check(esc == nil, "C05.EMPTY", "empty:before:"+recvT, site, "with a filter, the emptiness test of the candidate list precedes the sub-search",
			"the sub-search is reachable after a filter was evaluated without testing whether it matched nothing")
	}
	// the emptiness test returns an empty success
	okRet := false
	allInstrs(fn, func(in ssa.Instruction) {
		iff, ok := in.(*ssa.If)
		if !ok {
			return
		}
		cond, neg0 := stripNot(iff.Cond)
		bo, ok := cond.(*ssa.BinOp)
		if !ok {
			return
		}
		cmp, neg, ok := normCmp(c, bo)
		if !ok {
			return
		}
		lenX := "len(" + c.S(cand) + ")"
		var emptySucc *ssa.BasicBlock
		switch {
		case cmp.Op == token.EQL && (cmp.L == lenX || cmp.R == lenX):
			emptySucc = iff.Block().Succs[0]
			if neg != neg0 {
				emptySucc = iff.Block().Succs[1]
			}
		case cmp.Op == token.LSS && cmp.L == "c(0)" && cmp.R == lenX:
			emptySucc = iff.Block().Succs[1]
			if neg != neg0 {
				emptySucc = iff.Block().Succs[0]
			}
		}
		if emptySucc == nil {
			return
		}
		if ret, ok := emptySucc.Instrs[len(emptySucc.Instrs)-1].(*ssa.Return); ok && classifyErr(ret) == ErrNil {
			okRet = true
		}
		// resolved per path: every path from the empty outcome returns success with an empty result and runs no sub-search
		if !okRet {
			paths, trunc := enumPaths(emptySucc, walkCfg{MaxVisits: 2, MaxPaths: 5000})
			good := !trunc && len(paths) > 0
			for _, pth := range paths {
				if !pth.Feasible() {
					continue
				}
				if pth.End != EndReturn || pathErrClass(pth) != ErrNil {
					good = false
					continue
				}
				for _, in := range pth.Instrs() {
					if call, isCall := in.(*ssa.Call); isCall && call.Call.IsInvoke() && (call.Call.Method.Name() == "Execute" || call.Call.Method.Name() == "NewSearch") {
						good = false
					}
				}
				// the result: an empty literal / make(…, 0) / nil
				rv := resolveOnPath(pth, pth.Ret.Results[0])
				switch x := rv.(type) {
				case *ssa.Const:
				case *ssa.MakeSlice:
					if k0, isC := x.Len.(*ssa.Const); !isC || k0.Int64() != 0 {
						good = false
					}
				case *ssa.Slice:
					if a, isA := x.X.(*ssa.Alloc); !isA || !strings.Contains(a.Type().String(), "[0]") {
						good = false
					}
				default:
					good = false
				}
			}
			if good {
				okRet = true
			}
		}
	})
	r.Check(okRet, "C05.EMPTY", "empty:returns-empty", w.Pos(fn.Pos())+" "+name, "no candidates ⇒ empty result, no error", "the empty-candidate outcome does not return an empty success")
	// NIL: NewSearch on each sub-index is dominated by a nil test returning an error
	for _, ns := range invokesOf(fn, "NewSearch") {
		recv := c.S(ns.Call.Value)
		site := w.InstrPos(ns) + " " + name
		ok := false
		for b := ns.Block(); b != nil; b = b.Idom() {
			d := b.Idom()
			if d == nil {
				break
			}
			iff, isIf := d.Instrs[len(d.Instrs)-1].(*ssa.If)
			if !isIf {
				continue
			}
			bo, isBo := iff.Cond.(*ssa.BinOp)
			if !isBo || bo.Op != token.EQL {
				continue
			}
			if c.S(bo.X) == recv && c.S(bo.Y) == "nil" {
				// the nil outcome fails (resolved per path) without reaching the use
				if onlyFailsFrom(d.Succs[0], func(in ssa.Instruction) bool { return in == ssa.Instruction(ns) }) == nil {
					ok = true
				}
			}
		}
		r.Check(ok, "C05.NIL", "nil:"+recv, site, recv+" is tested for nil (error) before use", recv+" is used without a dominating nil test that returns an error")
	}
}

// ruleHybridBranch: C05.BRANCH — fusion dispatch and metadata-only fill table.
func ruleHybridBranch(r *Run, k *hybridKind) {
	w := r.W
	fn := k.Execute
	name := w.Name(fn)
	rule := "C05.BRANCH"
	r.Doc(rule, "single-modality scores are fused, or a query matching nothing inside the filter returns the whole filtered set with score 1")
	c := NewCanon(w)
	combines := invokesOf(fn, "Combine")
	if len(combines) != 1 {
		r.Unres(rule, "branch:combine", fmt.Sprintf("%s: expected one Fusion.Combine call, found %d", name, len(combines)))
		return
	}
	comb := combines[0]
	V, T := comb.Call.Args[0], comb.Call.Args[1]
	site := w.InstrPos(comb) + " " + name
	// V is filled from the vector search results, T from the text search results
	filledFrom := func(m ssa.Value) string {
		out := ""
		seen := map[ssa.Value]bool{}
		var rec func(v ssa.Value)
		rec = func(v ssa.Value) {
			if seen[v] {
				return
			}
			seen[v] = true
			switch x := v.(type) {
			case *ssa.Phi:
				for _, e := range x.Edges {
					rec(e)
				}
			case *ssa.MakeMap:
				for _, ref := range *x.Referrers() {
					if mu, ok := ref.(*ssa.MapUpdate); ok {
						ks, vs := c.S(mu.Key), c.S(mu.Value)
						switch {
						case strings.Contains(ks, "VectorSearch.Execute(") && strings.Contains(ks, "GetId(") && strings.Contains(vs, "GetScore(") && strings.Contains(vs, "VectorSearch.Execute("):
							out = "vector"
						case strings.Contains(ks, "TextSearch.Execute(") && strings.Contains(ks, "GetId(") && strings.Contains(vs, "GetScore(") && strings.Contains(vs, "TextSearch.Execute("):
							out = "text"
						default:
							out = "other:" + ks + "=" + vs
						}
					}
				}
			}
		}
		rec(m)
		return out
	}
	fv, ft := filledFrom(V), filledFrom(T)
	r.Check(fv == "vector" && ft == "text", rule, "branch:combine:args", site, "Combine(vector scores by id, text scores by id), each map filled id→score from its own sub-search",
		fmt.Sprintf("Combine arguments are filled from (%s, %s); expected (vector, text)", fv, ft))
	fus := c.S(comb.Call.Value)
	fusField := builderField(w, k.SearchT, "WithFusion")
	r.Check(fus == "P0."+fusField, rule, "branch:combine:fusion", site, "the configured fusion is used", "fusion object is "+fus)

	vqField, tqField := builderField(w, k.SearchT, "WithVector"), builderField(w, k.SearchT, "WithText")
	if vqField == "" || tqField == "" {
		r.Unres(rule, "branch:fields", "builder fields for the vector / text query not found")
		return
	}
	// candidate list value
	var candPhi ssa.Value
	for _, call := range invokesOf(fn, "WithDocumentIDs") {
		candPhi = call.Call.Args[0]
	}
	// first decision block of the dispatch: the block with the len(V) > 0 comparison that dominates Combine
	var start *ssa.BasicBlock
	allInstrs(fn, func(in ssa.Instruction) {
		bo, ok := in.(*ssa.BinOp)
		if !ok || start != nil {
			return
		}
		if lc, ok := bo.X.(*ssa.Call); ok {
			if b, ok := lc.Call.Value.(*ssa.Builtin); ok && b.Name() == "len" && lc.Call.Args[0] == V && in.Block().Dominates(comb.Block()) {
				start = in.Block()
			}
		}
	})
	// end: the make of the result slice
	var end *ssa.BasicBlock
	allInstrs(fn, func(in ssa.Instruction) {
		if mk, ok := in.(*ssa.MakeSlice); ok && strings.Contains(tstr(mk.Type(), qual), "HybridSearchResult") && start != nil && start.Dominates(in.Block()) && in.Block() != start {
			if end == nil {
				end = in.Block()
			}
		}
	})
	if start == nil || end == nil {
		r.Und(rule, "branch:region", site, "dispatch region (from the len(vector scores) test to the result construction) not found")
		return
	}
	lenAtom := func(v ssa.Value) (string, bool) {
		lc, ok := v.(*ssa.Call)
		if !ok {
			return "", false
		}
		b, ok := lc.Call.Value.(*ssa.Builtin)
		if !ok || b.Name() != "len" {
			return "", false
		}
		a := lc.Call.Args[0]
		switch {
		case a == V:
			return "Vn", true
		case a == T:
			return "Tn", true
		case candPhi != nil && a == candPhi:
			return "Cn", true
		}
		switch c.S(a) {
		case "P0." + vqField:
			return "VQ", true
		case "P0." + tqField:
			return "TQ", true
		}
		return "", false
	}
	classify := func(cond ssa.Value) (string, bool) {
		bo, ok := cond.(*ssa.BinOp)
		if !ok {
			return "", false
		}
		// len(X) > 0  ⇒ atom true; len(X) == 0 ⇒ atom inverted
		if a, ok := lenAtom(bo.X); ok && isZeroConst(bo.Y) {
			switch bo.Op {
			case token.GTR, token.NEQ:
				return a, false
			case token.EQL, token.LEQ:
				return a, true
			}
		}
		if a, ok := lenAtom(bo.Y); ok && isZeroConst(bo.X) {
			switch bo.Op {
			case token.LSS, token.NEQ:
				return a, false
			case token.EQL, token.GEQ:
				return a, true
			}
		}
		return "", false
	}
	rows, trunc := regionPaths(start, func(b *ssa.BasicBlock) bool { return b == end }, classify, 2)
	if trunc || len(rows) == 0 {
		r.Und(rule, "branch:table", site, "dispatch region could not be enumerated")
		return
	}
	// the fill: MapUpdate with constant 1
	var fill *ssa.MapUpdate
	for _, mu := range mapUpdatesOf(fn) {
		if cst, ok := mu.Value.(*ssa.Const); ok && cst.Value != nil && cst.Value.ExactString() == "1" && start.Dominates(mu.Block()) {
			fill = mu
		}
	}
	var fillLoop *Loop // the fill happens for every candidate: entering its loop counts as "fill"
	if fill != nil {
		fillLoop = innermostLoop(loopsOf(fn), fill.Block())
	}
	// the map that the results are built from
	var resultMap ssa.Value
	allInstrs(fn, func(in ssa.Instruction) {
		if rg, ok := in.(*ssa.Range); ok && end.Dominates(rg.Block()) {
			if _, isMap := rg.X.Type().Underlying().(*types.Map); isMap && resultMap == nil {
				resultMap = rg.X
			}
		}
	})
	outcome := func(pr pathRow) string {
		val := "?"
		if resultMap != nil {
			cc := NewCanon(w)
			cc.PhiEdge = pr.P.PhiEdge
			v := resultMap
			for i := 0; i < 6; i++ {
				phi, ok := v.(*ssa.Phi)
				if !ok {
					break
				}
				e := pr.P.PhiEdge(phi)
				if e == nil {
					break
				}
				v = e
			}
			switch {
			case v == ssa.Value(comb):
				val = "combine"
			case v == V:
				val = "vector"
			case v == T:
				val = "text"
			default:
				if _, ok := v.(*ssa.MakeMap); ok {
					val = "empty"
				} else if p, ok := v.(*ssa.Phi); ok {
					// V / T themselves are phis (nil or filled map)
					if ssa.Value(p) == V {
						val = "vector"
					} else if ssa.Value(p) == T {
						val = "text"
					}
				}
			}
		}
		if fillLoop != nil {
			for _, b := range pr.P.Blocks {
				if b == fillLoop.Header {
					val += "+fill"
					break
				}
			}
		} else if fill != nil && pr.P.Has(fill) {
			val += "+fill"
		}
		return val
	}
	atoms := []string{"Vn", "Tn", "VQ", "TQ", "Cn"}
	bad, states := tableCheck(atoms, rows, outcome, func(a map[string]bool) string {
		if (a["Vn"] && !a["VQ"]) || (a["Tn"] && !a["TQ"]) {
			return "-" // results without a query: impossible
		}
		val := "empty"
		switch {
		case a["Vn"] && a["Tn"]:
			val = "combine"
		case a["Vn"]:
			val = "vector"
		case a["Tn"]:
			val = "text"
		}
		if !a["VQ"] && !a["TQ"] && a["Cn"] {
			val += "+fill"
		} else if !a["VQ"] && !a["TQ"] && !a["Cn"] {
			// filling from an empty candidate list is a no-op: entering the fill loop or skipping it is the same
			val = val + "|" + val + "+fill"
		}
		return val
	})
	if len(bad) > 0 {
		r.Bad(rule, "branch:table", site, truncList(bad, 4))
	} else {
		r.Ok(rule, "branch:table", site, fmt.Sprintf("%d paths, %d states of (Vn,Tn,VQ,TQ,Cn): Combine ⇔ Vn∧Tn; V ⇔ Vn∧¬Tn; T ⇔ ¬Vn∧Tn; score-1 fill ⇔ ¬VQ∧¬TQ∧Cn", len(rows), states))
	}
	if fill != nil {
		ks := c.S(fill.Key)
		r.Check(strings.Contains(ks, "[range]") && candPhi != nil, rule, "branch:fill:ids", w.InstrPos(fill)+" "+name, "metadata-only fill assigns 1 to every candidate id", "fill key is "+ks)
	} else {
		r.Bad(rule, "branch:fill", site, "no metadata-only fill (score 1) found")
	}
}

// ruleHybridRank: C05.K — same k to both modalities, descending comparator, truncation to k; parameter forwarding.
func ruleHybridRank(r *Run, k *hybridKind) {
	w := r.W
	fn := k.Execute
	name := w.Name(fn)
	c := NewCanon(w)
	r.Doc("C05.K", "more than k results, ascending order, or different k per modality")
	r.Doc("C05.PARAMS", "a search parameter set on the hybrid builder never reaches the sub-search")
	kField := builderField(w, k.SearchT, "WithK")
	nK := 0
	for _, call := range invokesOf(fn, "WithK") {
		nK++
		r.Check(c.S(call.Call.Args[0]) == "P0."+kField, "C05.K", fmt.Sprintf("k:forward#%d", nK), w.InstrPos(call)+" "+name, "sub-search k = hybrid k", "sub-search k is "+c.S(call.Call.Args[0]))
	}
	if nK != 2 {
		r.add("C05.K", "k:floor", "-", fmt.Sprintf("%d WithK calls, expected 2", nK), Floor)
	}
	for _, call := range callsIn(fn, func(cc *ssa.CallCommon) bool { return calleeName(cc) == "sort.Slice" }) {
		cmp := closureArg(call.Common(), 1)
		site := w.InstrPos(call) + " " + name
		if cmp == nil {
			r.Und("C05.K", "k:order", site, "comparator is not a function literal")
			continue
		}
		dir, field, why := comparatorDirection(w, cmp)
		if dir == "" {
			r.Und("C05.K", "k:order", site, why)
			continue
		}
		r.Check(dir == "desc" && strings.HasSuffix(field, ".Score"), "C05.K", "k:order", site, "results sorted by descending Score", "comparator is "+dir+" on "+field)
	}
	// truncation results[:k] guarded by len(results) > k
	found := false
	allInstrs(fn, func(in ssa.Instruction) {
		sl, ok := in.(*ssa.Slice)
		if !ok || sl.High == nil || !strings.Contains(tstr(sl.Type(), qual), "HybridSearchResult") {
			return
		}
		if c.S(sl.High) != "P0."+kField {
			return
		}
		found = true
		xs := c.S(sl.X)
		ok = guardedBy(c, in, func(cmp Cmp, neg bool) (bool, bool) {
			if cmp.Op == token.LSS && cmp.L == "P0."+kField && cmp.R == "len("+xs+")" { // k < len
				return !neg, true
			}
			if cmp.Op == token.LEQ && cmp.L == "len("+xs+")" && cmp.R == "P0."+kField { // len <= k
				return neg, true
			}
			return false, false
		})
		r.Check(ok, "C05.K", "k:truncate", w.InstrPos(in)+" "+name, "results[:k] taken iff len(results) > k", "truncation to k is not guarded by len(results) > k")
	})
	if !found {
		r.Bad("C05.K", "k:truncate", w.Pos(fn.Pos())+" "+name, "the result list is never truncated to k")
	}
	// parameter forwarding
	fwd := map[string]string{"WithNProbes": "WithNProbes", "WithEfSearch": "WithEfSearch", "WithThreshold": "WithThreshold", "WithScoreAggregation": "WithScoreAggregation", "WithCutoff": "WithCutoff"}
	for m, setter := range fwd {
		f := builderField(w, k.SearchT, setter)
		calls := invokesOf(fn, m)
		want := 1
		if m == "WithScoreAggregation" || m == "WithCutoff" {
			want = 2
		}
		ok := len(calls) == want
		detail := fmt.Sprintf("%d %s calls, expected %d", len(calls), m, want)
		for _, call := range calls {
			if c.S(call.Call.Args[0]) != "P0."+f {
				ok = false
				detail = m + " receives " + c.S(call.Call.Args[0]) + ", expected P0." + f
			}
		}
		r.Check(ok, "C05.PARAMS", "params:"+m, w.Pos(fn.Pos())+" "+name, "builder's "+f+" reaches the sub-search via "+m, detail)
	}
	for _, call := range invokesOf(fn, "WithQuery") {
		arg := c.S(call.Call.Args[0])
		ok := strings.Contains(arg, "P0."+builderField(w, k.SearchT, "WithVector")) || strings.Contains(arg, "P0."+builderField(w, k.SearchT, "WithText"))
		r.Check(ok, "C05.PARAMS", "params:query:"+tstr(call.Call.Value.Type(), qual), w.InstrPos(call)+" "+name, "sub-search receives the hybrid query", "sub-search query is "+arg)
	}
}

// ---------------------------------------------------------------- C06

// ruleHybridAtomicAdd: C06.ATOMIC.hybrid.
func ruleHybridAtomicAdd(r *Run, k *hybridKind) {
	w := r.W
	fn := k.AddInt
	name := w.Name(fn)
	rule := "C06.ATOMIC.hybrid"
	r.Analysed(name)
	r.Doc(rule, "a failed Add leaves the document findable through the sub-indexes that had already accepted it")
	c := NewCanon(w)
	adds := invokesOf(fn, "Add")
	sort.Slice(adds, func(i, j int) bool { return adds[i].Pos() < adds[j].Pos() })
	if len(adds) != 3 {
		r.Unres(rule, "hybrid:sub-adds", fmt.Sprintf("%s: expected 3 sub-index Add calls, found %d", name, len(adds)))
		return
	}
	// compensation for a sub-index: invoke Remove on the same index, directly or in a same-receiver helper
	compensates := func(in ssa.Instruction, idx string) bool {
		call, ok := in.(*ssa.Call)
		if !ok {
			return false
		}
		if call.Call.IsInvoke() && call.Call.Method.Name() == "Remove" && c.S(call.Call.Value) == idx {
			return true
		}
		if g := staticCallee(call.Common()); g != nil && g.Pkg == w.SPkg && len(call.Call.Args) > 0 && call.Call.Args[0] == ssa.Value(fn.Params[0]) {
			c2 := NewCanon(w)
			for _, rm := range invokesOf(g, "Remove") {
				if c2.S(rm.Call.Value) == idx {
					return true
				}
			}
		}
		// the rollback written as a local closure: free variables are bound to this function's values
		if mc, ok := call.Call.Value.(*ssa.MakeClosure); ok {
			if g, ok := mc.Fn.(*ssa.Function); ok && g.Parent() == fn {
				c2 := NewCanon(w)
				for _, rm := range invokesOf(g, "Remove") {
					if t, ok := translatePath(c, c2.S(rm.Call.Value), nil, mc.Bindings); ok && t == idx {
						return true
					}
				}
			}
		}
		return false
	}
	for i, add := range adds {
		idx := c.S(add.Call.Value)
		site := w.InstrPos(add) + " " + name
		// success successor of the error test on this Add
		var succ *ssa.BasicBlock
		for _, ref := range *add.Referrers() {
			if bo, ok := ref.(*ssa.BinOp); ok {
				for _, r2 := range *bo.Referrers() {
					if iff, ok := r2.(*ssa.If); ok {
						if bo.Op == token.NEQ {
							succ = iff.Block().Succs[1]
						} else if bo.Op == token.EQL {
							succ = iff.Block().Succs[0]
						}
					}
				}
			}
		}
		if succ == nil {
			r.Bad(rule, fmt.Sprintf("hybrid:sub-add#%d:checked", i+1), site, "the error of the sub-index Add on "+idx+" is not tested")
			continue
		}
		esc := reachAvoidAt(succ, 0, func(in ssa.Instruction) bool {
			ret, ok := in.(*ssa.Return)
			return ok && classifyErr(ret) == ErrNonNil
		}, func(in ssa.Instruction) bool { return compensates(in, idx) })
		// a deferred clean-up registered before this point runs at every exit: if it removes from this sub-index (keyed on
		// the function's error result and the progress flags) the failing returns are compensated there
		if esc != nil {
			allInstrs(fn, func(in ssa.Instruction) {
				d, isDefer := in.(*ssa.Defer)
				if !isDefer || !(d.Block() == succ || d.Block().Dominates(succ)) {
					return
				}
				if mc, isMC := d.Call.Value.(*ssa.MakeClosure); isMC {
					if g, isFn := mc.Fn.(*ssa.Function); isFn {
						var visit func(h *ssa.Function, bind []ssa.Value, depth int)
						visit = func(h *ssa.Function, bind []ssa.Value, depth int) {
							ch := NewCanon(w)
							for _, rm := range invokesOf(h, "Remove") {
								if t, ok := translatePath(c, ch.S(rm.Call.Value), nil, bind); ok && t == idx {
									esc = nil
								}
							}
							if depth > 0 {
								return
							}
							// the closure may call the rollback helper
							for _, cs := range callsIn(h, func(cc *ssa.CallCommon) bool { k := staticCallee(cc); return k != nil && k.Pkg == w.SPkg }) {
								k := staticCallee(cs.Common())
								ck := NewCanon(w)
								for _, rm := range invokesOf(k, "Remove") {
									if strings.HasSuffix(idx, strings.TrimPrefix(ck.S(rm.Call.Value), "P0")) {
										esc = nil
									}
								}
							}
						}
						visit(g, mc.Bindings, 0)
					}
				}
			})
		}
		if esc != nil {
			// decided per path when failures travel through variables (the sub-add lives in an inlined helper that returns
			// its verdict): a feasible path from the success side to a failing return without a compensation
			paths, trunc := enumPaths(succ, walkCfg{MaxVisits: 1, MaxPaths: 20000 * pathScale, Decide: decideOnPath})
			if !trunc {
				esc = nil
				for _, pth := range paths {
					if pth.End != EndReturn || !pth.Feasible() || pathErrClass(pth) != ErrNonNil {
						continue
					}
					comp := false
					for _, in := range pth.Instrs() {
						if compensates(in, idx) {
							comp = true
						}
					}
					if !comp {
						esc = pth.Ret
					}
				}
			}
		}
		if esc != nil {
			r.Bad(rule, fmt.Sprintf("hybrid:sub-add#%d:rollback", i+1), w.InstrPos(esc)+" "+name,
				"after "+idx+".Add succeeded, the error return at "+w.InstrPos(esc)+" is reachable without removing the document from "+idx)
		} else {
			r.Ok(rule, fmt.Sprintf("hybrid:sub-add#%d:rollback", i+1), site, "every later error return is preceded by a compensating Remove on "+idx+" (or none follows)")
		}
	}
	// the rollback helper's guards are set on the success paths
	for _, call := range callsIn(fn, func(cc *ssa.CallCommon) bool {
		g := staticCallee(cc)
		return g != nil && g.Pkg == w.SPkg && len(invokesOf(g, "Remove")) > 0
	}) {
		g := staticCallee(call.Common())
		r.Analysed(w.Name(g))
		c2 := NewCanon(w)
		var bindings []ssa.Value
		if mc, ok := call.Common().Value.(*ssa.MakeClosure); ok {
			bindings = mc.Bindings
		}
		for _, rm := range invokesOf(g, "Remove") {
			idx := c2.S(rm.Call.Value)
			if t, ok := translatePath(c, idx, call.Common().Args, bindings); ok {
				idx = t
			}
			// guard flag: field of a parameter
			flag := ""
			for b := rm.Block(); b != nil && flag == ""; b = b.Idom() {
				d := b.Idom()
				if d == nil {
					break
				}
				if iff, ok := d.Instrs[len(d.Instrs)-1].(*ssa.If); ok && (d.Succs[0] == b || d.Succs[0].Dominates(b)) {
					s := c2.S(iff.Cond)
					if i := strings.LastIndex(s, "."); i >= 0 && (strings.HasPrefix(s, "P") || strings.HasPrefix(s, "FV")) {
						flag = s[i+1:]
					}
				}
			}
			if flag == "" {
				continue // unconditional compensation
			}
			// addInternal sets that flag after the corresponding sub-add succeeded and before the next sub-add
			set := false
			allInstrs(fn, func(in ssa.Instruction) {
				st, ok := in.(*ssa.Store)
				if !ok {
					return
				}
				fa, ok := st.Addr.(*ssa.FieldAddr)
				if !ok || fieldName(fa.X.Type(), fa.Field) != flag {
					return
				}
				if cst, ok := st.Val.(*ssa.Const); ok {
					if cst.Value == nil || cst.Value.ExactString() != "true" {
						return
					}
					// dominated by the matching sub-add
					for _, add := range adds {
						if c.S(add.Call.Value) == idx && domInstr(add, st) {
							set = true
						}
					}
					return
				}
				// the flag is given a computed value (the verdict of a helper): when it ends up true is decided by the
				// FLAGS table over the success paths
				set = true
			})
			r.Check(set, rule, "hybrid:rollback:flag:"+flag, w.InstrPos(rm)+" "+w.Name(g), "rollback of "+idx+" is keyed on "+flag+", which the add routine sets after that sub-add succeeded",
				"rollback of "+idx+" depends on "+flag+", which is not set after the corresponding sub-add")
		}
	}
	// docInfo is recorded only on the success path
	for _, mu := range mapUpdatesOf(fn) {
		if c.S(mu.Map) == "P0.docInfo" {
			esc := reachAvoid(fn, mu, func(in ssa.Instruction) bool {
				ret, ok := in.(*ssa.Return)
				return ok && classifyErr(ret) == ErrNonNil
			}, nil)
			r.Check(esc == nil && c.S(mu.Key) == fmt.Sprintf("P%d", paramOfType(fn, 1, "uint32")), rule, "hybrid:docinfo", w.InstrPos(mu)+" "+name, "docInfo[id] recorded only when the whole add succeeded", "docInfo is recorded on a path that can still fail")
		}
	}
}

// ruleMetaAtomicAdd: C06.ATOMIC.meta — no mutation precedes a feasible error return.
func ruleMetaAtomicAdd(r *Run, rule string, k *metaKind) {
	w := r.W
	fn := k.Add
	name := w.Name(fn)
	r.Analysed(name)
	r.Doc(rule, "a rejected metadata Add leaves the id in the universe / in some field bitmaps")
	c := NewCanon(w)
	isMut := func(in ssa.Instruction) bool {
		switch x := in.(type) {
		case *ssa.MapUpdate:
			return strings.HasPrefix(c.S(x.Map), "P0.")
		case *ssa.Call:
			n := calleeName(x.Common())
			if strings.HasPrefix(n, roaringBitmap) && roaringMutators[strings.TrimPrefix(n, roaringBitmap)] && len(x.Call.Args) > 0 && strings.HasPrefix(c.S(x.Call.Args[0]), "P0.") {
				return true
			}
			if g := staticCallee(x.Common()); g != nil && g.Pkg == w.SPkg && len(x.Call.Args) > 0 && x.Call.Args[0] == ssa.Value(fn.Params[0]) && g.Signature.Recv() != nil {
				return true // same-receiver helper (addNumeric / addCategorical)
			}
		}
		return false
	}
	var first ssa.Instruction
	allInstrs(fn, func(in ssa.Instruction) {
		if isMut(in) && (first == nil || domInstr(in, first)) {
			first = in
		}
	})
	site := w.Pos(fn.Pos()) + " " + name
	if first == nil {
		r.Bad(rule, "meta:mutation", site, "Add performs no index mutation")
		return
	}
	// type sets before / after the first mutation
	validated, handled := valSet{}, valSet{}
	var lastApply *ssa.TypeAssert
	allInstrs(fn, func(in ssa.Instruction) {
		ta, ok := in.(*ssa.TypeAssert)
		if !ok || !ta.CommaOk {
			return
		}
		t := tstr(ta.AssertedType, nil)
		if domInstr(first, ta) {
			handled[t] = true
			lastApply = ta
		} else {
			validated[t] = true
		}
	})
	// validation delegated to a package function before the first mutation (`if _, err := toInt64(v); err != nil`): the
	// types that function accepts pass the validation too
	allInstrs(fn, func(in ssa.Instruction) {
		call, ok := in.(*ssa.Call)
		if !ok || domInstr(first, in) || in == first {
			return
		}
		g := staticCallee(call.Common())
		if g == nil || g.Pkg != w.SPkg || errIndex(g) < 0 {
			return
		}
		takesIface := false
		for _, a := range call.Call.Args {
			if _, ok := a.Type().Underlying().(*types.Interface); ok {
				takesIface = true
			}
		}
		if !takesIface {
			return
		}
		r.Analysed(w.Name(g))
		allInstrs(g, func(gi ssa.Instruction) {
			if ta, ok := gi.(*ssa.TypeAssert); ok && ta.CommaOk {
				validated[tstr(ta.AssertedType, nil)] = true
			}
		})
	})
	var bad []string
	for _, ret := range returnsOf(fn) {
		if classifyErr(ret) != ErrNonNil {
			continue
		}
		reachable := reachAvoid(fn, first, func(in ssa.Instruction) bool { return in == ssa.Instruction(ret) }, nil) != nil
		if !reachable {
			continue
		}
		// acceptable only as the default of the apply type switch, made infeasible by the validation: on every path from
		// the first mutation to this return with a non-nil error, the last iteration took the "no match" branch of every
		// handled-type test it met (and met at least one)
		inDefault := lastApply != nil
		if inDefault {
			paths, trunc := enumPaths(first.Block(), walkCfg{MaxVisits: 2, MaxPaths: 20000})
			if trunc {
				inDefault = false
			}
			isApplyTest := func(cond ssa.Value) bool {
				ex, ok := cond.(*ssa.Extract)
				if !ok || ex.Index != 1 {
					return false
				}
				ta, ok := ex.Tuple.(*ssa.TypeAssert)
				return ok && ta.CommaOk && domInstr(first, ta)
			}
			seenPath := false
			for _, p := range paths {
				if p.End != EndReturn || p.Ret != ret || !p.Feasible() || pathErrClass(p) == ErrNil {
					continue
				}
				seenPath = true
				// decisions of the last pass through the apply loop
				from := 0
				for _, l := range loopsOf(fn) {
					if l.Blocks[lastApply.Block()] {
						for j, b := range p.Blocks {
							if b == l.Header {
								from = j
							}
						}
					}
				}
				tests, matched := 0, 0
				for _, d := range p.Decisions {
					if d.At < from || !isApplyTest(d.Cond) {
						continue
					}
					tests++
					if d.Taken {
						matched++
					}
				}
				if tests == 0 || matched > 0 {
					inDefault = false
				}
			}
			if !seenPath {
				inDefault = false
			}
		}
		if !inDefault {
			bad = append(bad, "error return at "+w.InstrPos(ret)+" is reachable after the index was mutated at "+w.InstrPos(first))
			continue
		}
		for t := range validated {
			if !handled[t] {
				bad = append(bad, fmt.Sprintf("type %s passes the up-front validation but has no handler in the store phase: the error at %s is reached after the index was mutated", t, w.InstrPos(ret)))
			}
		}
		if len(validated) == 0 {
			bad = append(bad, "the store phase can fail at "+w.InstrPos(ret)+" and no up-front validation precedes the first mutation")
		}
	}
	sort.Strings(bad)
	if len(bad) > 0 {
		r.Bad(rule, "meta:validate-first", site, strings.Join(bad, "; "))
	} else {
		r.Ok(rule, "meta:validate-first", site, fmt.Sprintf("no feasible error return follows the first mutation (%s); validated types %v ⊆ handled types %v", w.InstrPos(first), validated, handled))
	}
}

// stateWrites lists instructions of fn that write index state rooted at the receiver (stores to fields, map updates,
// appends stored back); the mutex and the excluded fields are ignored.
func stateWrites(w *World, fn *ssa.Function, exclude map[string]bool) []ssa.Instruction {
	c := NewCanon(w)
	var out []ssa.Instruction
	allInstrs(fn, func(in ssa.Instruction) {
		switch x := in.(type) {
		case *ssa.Store:
			if isLocalCell(x.Addr) {
				return
			}
			s := c.S(x.Addr)
			if strings.HasPrefix(s, "P0.") {
				f := strings.FieldsFunc(s[3:], func(r rune) bool { return r == '.' || r == '[' })[0]
				if !exclude[f] {
					out = append(out, in)
				}
			}
		case *ssa.MapUpdate:
			s := c.S(x.Map)
			if strings.HasPrefix(s, "P0.") {
				f := strings.FieldsFunc(s[3:], func(r rune) bool { return r == '.' || r == '[' })[0]
				if !exclude[f] {
					out = append(out, in)
				}
			}
		}
	})
	return out
}

// fieldsWritten: names of receiver fields written by fn.
func fieldsWritten(w *World, fn *ssa.Function) map[string]bool {
	c := NewCanon(w)
	out := map[string]bool{}
	note := func(s string) {
		if strings.HasPrefix(s, "P0.") {
			out[strings.FieldsFunc(s[3:], func(r rune) bool { return r == '.' || r == '[' })[0]] = true
		}
	}
	allInstrs(fn, func(in ssa.Instruction) {
		switch x := in.(type) {
		case *ssa.Store:
			if isLocalCell(x.Addr) {
				return
			}
			note(c.S(x.Addr))
		case *ssa.MapUpdate:
			note(c.S(x.Map))
		case *ssa.Call:
			if b, ok := x.Call.Value.(*ssa.Builtin); ok && b.Name() == "delete" {
				note(c.S(x.Call.Args[0]))
			}
		}
	})
	return out
}

// ruleVecAtomicAndRevive: C06.ATOMIC.vec and C06.REVIVE for one vector kind.
func ruleVecAtomicAndRevive(r *Run, k *vecKind) {
	w := r.W
	fn := k.Add
	name := w.Name(fn)
	r.Analysed(name)
	r.Doc("C06.ATOMIC.vec", "a failed vector Add leaves index state changed")
	r.Doc("C06.REVIVE", "a re-added id stays hidden before the flush and is destroyed by it (update = remove + add is broken)")
	c := NewCanon(w)
	body, _ := flushBody(w, k.Flush, k.DelField)
	// ATOMIC: no error return reachable after a state write (the purge of tombstones is not a visible change)
	writes := stateWrites(w, fn, map[string]bool{"mu": true})
	var bad []string
	for _, wr := range writes {
		esc := reachAvoid(fn, wr, func(in ssa.Instruction) bool {
			ret, ok := in.(*ssa.Return)
			return ok && classifyErr(ret) == ErrNonNil
		}, nil)
		if esc != nil {
			// an id-counter bump before a failing purge is tolerated only if the field is the private id counter
			s := ""
			if st, ok := wr.(*ssa.Store); ok {
				s = c.S(st.Addr)
			}
			if strings.HasSuffix(s, ".nextID") {
				continue
			}
			bad = append(bad, fmt.Sprintf("state write at %s can be followed by the error return at %s", w.InstrPos(wr), w.InstrPos(esc)))
		}
	}
	site := w.Pos(fn.Pos()) + " " + name
	if len(bad) > 0 {
		r.Bad("C06.ATOMIC.vec", k.Name+":validate-first", site, strings.Join(dedup(bad), "; "))
	} else {
		r.Ok("C06.ATOMIC.vec", k.Name+":validate-first", site, fmt.Sprintf("%d state writes, none followed by an error return", len(writes)))
	}
	// REVIVE: the test "is this id soft-deleted" precedes every write to state the purge may rewrite; on its true branch
	// the purge (flush body) runs before any such write
	if body == nil {
		r.Unres("C06.REVIVE", k.Name+":flush-body", "flush body not found")
		return
	}
	var test *ssa.If
	allInstrs(fn, func(in ssa.Instruction) {
		iff, ok := in.(*ssa.If)
		if !ok {
			return
		}
		cond, _ := stripNot(iff.Cond)
		call, ok := cond.(*ssa.Call)
		if !ok || calleeName(call.Common()) != roaringBitmap+"Contains" || c.S(call.Call.Args[0]) != "P0."+k.DelField {
			return
		}
		test = iff
	})
	if test == nil {
		r.Bad("C06.REVIVE", k.Name+":test", site, "Add never tests whether the id being added is soft-deleted")
		return
	}
	cond, neg := stripNot(test.Cond)
	tcall := cond.(*ssa.Call)
	idArg := tcall.Call.Args[1]
	idC := c.S(idArg)
	// the tested id is the id under which the element is stored
	idOK := idC == "get:id(P1)"
	for _, wr := range writes {
		if mu, ok := wr.(*ssa.MapUpdate); ok && mu.Key == idArg {
			idOK = true
		}
	}
	r.Check(idOK, "C06.REVIVE", k.Name+":test:id", w.InstrPos(test)+" "+name, "the soft-delete test is applied to the id being added", "the soft-delete test is applied to "+idC)
	delSucc := test.Block().Succs[0]
	if neg {
		delSucc = test.Block().Succs[1]
	}
	purged := fieldsWritten(w, body)
	isPurge := func(in ssa.Instruction) bool {
		call, ok := in.(*ssa.Call)
		return ok && staticCallee(call.Common()) == body
	}
	var late []string
	for _, wr := range writes {
		f := ""
		switch x := wr.(type) {
		case *ssa.Store:
			f = c.S(x.Addr)
		case *ssa.MapUpdate:
			f = c.S(x.Map)
		}
		fname := strings.FieldsFunc(strings.TrimPrefix(f, "P0."), func(r rune) bool { return r == '.' || r == '[' })[0]
		if !purged[fname] {
			continue
		}
		if !domInstr(test, wr) {
			late = append(late, fmt.Sprintf("write to %s at %s is not preceded by the soft-delete test (the purge may rewrite %s afterwards)", fname, w.InstrPos(wr), fname))
			continue
		}
		if esc := reachAvoidAt(delSucc, 0, func(in ssa.Instruction) bool { return in == wr }, isPurge); esc != nil {
			late = append(late, fmt.Sprintf("write to %s at %s is reachable for a soft-deleted id without purging the stale entry first", fname, w.InstrPos(wr)))
		}
	}
	if len(late) > 0 {
		r.Bad("C06.REVIVE", k.Name+":purge-first", w.InstrPos(test)+" "+name, strings.Join(dedup(late), "; "))
	} else {
		r.Ok("C06.REVIVE", k.Name+":purge-first", w.InstrPos(test)+" "+name, "for a soft-deleted id the flush body runs before any write to the state it maintains "+fmt.Sprint(sortedSet(purged)))
	}
	// the purge really clears the mark: always-clears rule on the flush body
	_, clear := flushBody(w, k.Flush, k.DelField)
	ruleFlushAlwaysClears(r, "C06.REVIVE", k.Name, body, clear, "P0."+k.DelField)
}

func sortedSet(m map[string]bool) []string {
	var out []string
	for k := range m {
		out = append(out, k)
	}
	sort.Strings(out)
	return out
}

// ruleTextRevive: BM25 — Add clears the pending delete mark before it writes, after purging an existing document.
func ruleTextRevive(r *Run, k *textKind) {
	w := r.W
	fn := k.Add
	name := w.Name(fn)
	rule := "C06.REVIVE"
	c := NewCanon(w)
	var clear ssa.Instruction
	allInstrs(fn, func(in ssa.Instruction) {
		if call, ok := in.(*ssa.Call); ok && calleeName(call.Common()) == roaringBitmap+"Remove" && c.S(call.Call.Args[0]) == "P0."+k.DelField && c.S(call.Call.Args[1]) == "P1" {
			clear = in
		}
	})
	site := w.Pos(fn.Pos()) + " " + name
	if clear == nil {
		r.Bad(rule, "bm25:clear-mark", site, "Add never clears a pending soft-delete mark of the id it adds")
		return
	}
	// unconditional: reached on every path to a success return
	esc := successEscapesWrap(fn, func(in ssa.Instruction) bool { return in == clear })
	r.Check(esc == nil, rule, "bm25:clear-mark", w.InstrPos(clear)+" "+name, "every successful Add clears the pending soft-delete mark of its id", "a successful Add can skip clearing the pending soft-delete mark (fresh Add of a marked id stays hidden)")
}

// ruleHybridRemove: C06.RM and C06.RM.ATOMIC.
func ruleHybridRemove(r *Run, k *hybridKind) {
	w := r.W
	fn := k.Remove
	name := w.Name(fn)
	r.Analysed(name)
	r.Doc("C06.RM", "Remove of an unknown id has an effect, or a removed document stays findable in some modality")
	r.Doc("C06.RM.ATOMIC", "a failed Remove leaves the document removed from some modalities only")
	c := NewCanon(w)
	site := w.Pos(fn.Pos()) + " " + name
	// lookup test
	var look *ssa.If
	allInstrs(fn, func(in ssa.Instruction) {
		if iff, ok := in.(*ssa.If); ok && strings.Contains(c.S(iff.Cond), "P0.docInfo[P1]#1") {
			look = iff
		}
	})
	if look == nil {
		r.Bad("C06.RM", "hybrid:remove:lookup", site, "Remove does not look the id up in docInfo")
		return
	}
	removes := invokesOf(fn, "Remove")
	sort.Slice(removes, func(i, j int) bool { return removes[i].Pos() < removes[j].Pos() })
	okDom := true
	for _, rm := range removes {
		if !domInstr(look, rm) {
			okDom = false
		}
	}
	r.Check(okDom && len(removes) == 3, "C06.RM", "hybrid:remove:lookup-first", site, "the docInfo lookup dominates the 3 sub-index removals", fmt.Sprintf("%d sub-index removals, lookup dominates all: %v", len(removes), okDom))
	// miss ⇒ error
	_, neg := stripNot(look.Cond)
	miss := look.Block().Succs[1]
	if neg {
		miss = look.Block().Succs[0]
	}
	okMiss := false
	if ret, ok := miss.Instrs[len(miss.Instrs)-1].(*ssa.Return); ok && classifyErr(ret) == ErrNonNil {
		okMiss = true
	}
	r.Check(okMiss, "C06.RM", "hybrid:remove:unknown", w.InstrPos(look)+" "+name, "unknown id ⇒ error before any effect", "the not-found outcome does not return an error immediately")
	// success ⇒ delete(docInfo, id)
	isDel := func(in ssa.Instruction) bool {
		call, ok := isBuiltinCall(in, "delete")
		return ok && c.S(call.Call.Args[0]) == "P0.docInfo" && c.S(call.Call.Args[1]) == "P1"
	}
	esc := successEscapes(fn, isDel, nil)
	r.Check(esc == nil, "C06.RM", "hybrid:remove:forget", site, "every success return follows delete(docInfo, id)", "a success return is reachable without forgetting the id (a second Remove would succeed again)")
	// each removal is keyed on the flag the add routine sets for that sub-index, and uses the id
	wantFlag := map[string]string{"P0.vectorIndex": "hasVector", "P0.textIndex": "hasText", "P0.metadataIndex": "hasMetadata"}
	for _, rm := range removes {
		idx := c.S(rm.Call.Value)
		flag := ""
		for b := rm.Block(); b != nil && flag == ""; b = b.Idom() {
			d := b.Idom()
			if d == nil {
				break
			}
			if iff, ok := d.Instrs[len(d.Instrs)-1].(*ssa.If); ok && (d.Succs[0] == b || d.Succs[0].Dominates(b)) {
				s := c.S(iff.Cond)
				if strings.HasPrefix(s, "P0.docInfo[P1]#0.") {
					flag = strings.TrimPrefix(s, "P0.docInfo[P1]#0.")
				}
			}
		}
		arg := c.S(rm.Call.Args[0])
		idOK := arg == "P1" || strings.Contains(arg, "NewVectorNodeWithID(P1,") || strings.Contains(arg, "NewMetadataNodeWithID(P1,")
		// (when no dominating flag test is found the guard may be carried in a variable: when the removal runs is decided by
		// the C06.FLAGS table over the success paths; here only a wrong flag is a finding)
		r.Check((flag == wantFlag[idx] || flag == "") && idOK, "C06.RM", "hybrid:remove:covers:"+idx, w.InstrPos(rm)+" "+name, "removal from "+idx+" keyed on "+flag+" with the document id",
			fmt.Sprintf("removal from %s is keyed on %q (want %q) with argument %s", idx, flag, wantFlag[idx], arg))
	}
	// RM.ATOMIC: the removals after the first fallible one cannot fail — their implementations return only nil
	if len(removes) == 3 {
		for _, rm := range removes[1:] {
			iface, _ := rm.Call.Value.Type().Underlying().(*types.Interface)
			if iface == nil {
				continue
			}
			for _, T := range w.Implementers(iface) {
				impl := w.Method(T, "Remove")
				if impl == nil {
					continue
				}
				r.Analysed(w.Name(impl))
				infallible := true
				for _, ret := range returnsOf(impl) {
					if classifyErr(ret) != ErrNil {
						infallible = false
					}
				}
				r.Check(infallible, "C06.RM.ATOMIC", "hybrid:remove:infallible:"+w.Name(impl), w.Pos(impl.Pos())+" "+w.Name(impl),
					"a sub-removal that follows an effectful one cannot fail (returns only nil)", w.Name(impl)+" can fail after an earlier sub-index already removed the document")
			}
		}
	}
}

// ruleIDCounter: C06.ID — the global id counter is touched only through atomic.AddUint32.
func ruleIDCounter(r *Run, rule string) {
	w := r.W
	r.Doc(rule, "duplicate automatically generated ids")
	g, _ := w.SPkg.Members["nodeIDCounter"].(*ssa.Global)
	if g == nil {
		// discover: the package-level uint32 passed to atomic.AddUint32
		for _, fn := range w.Funcs {
			for _, call := range callsIn(fn, func(cc *ssa.CallCommon) bool { return calleeName(cc) == "sync/atomic.AddUint32" }) {
				if gg, ok := call.Common().Args[0].(*ssa.Global); ok {
					g = gg
				}
			}
		}
	}
	if g == nil {
		r.Unres(rule, "id-counter", "global id counter not found")
		return
	}
	n, bad := 0, 0
	for _, fn := range append([]*ssa.Function{w.SPkg.Func("init")}, w.Funcs...) {
		if fn == nil {
			continue
		}
		allInstrs(fn, func(in ssa.Instruction) {
			for _, op := range in.Operands(nil) {
				if *op != ssa.Value(g) {
					continue
				}
				call, ok := in.(*ssa.Call)
				// the typed form: var counter atomic.Uint32; id = counter.Add(1)
				if ok && (calleeName(call.Common()) == "(*sync/atomic.Uint32).Add" || calleeName(call.Common()) == "(*sync/atomic.Uint64).Add") && len(call.Call.Args) == 2 && call.Call.Args[0] == ssa.Value(g) {
					n++
					delta := NewCanon(w).S(call.Call.Args[1])
					r.Check(delta == "c(1)", rule, "id-counter:"+w.Name(fn), w.InstrPos(in)+" "+w.Name(fn), "id = counter.Add(1) on an atomic counter", "counter delta is "+delta)
					continue
				}
				if ok && calleeName(call.Common()) == "sync/atomic.AddUint32" {
					n++
					delta := NewCanon(w).S(call.Call.Args[1])
					r.Check(delta == "c(1)", rule, "id-counter:"+w.Name(fn), w.InstrPos(in)+" "+w.Name(fn), "id = atomic.AddUint32(&counter, 1)", "counter delta is "+delta)
					// the node id is the result of that call
				} else {
					bad++
					r.Bad(rule, "id-counter:plain-access:"+w.Name(fn), w.InstrPos(in)+" "+w.Name(fn), "the id counter is accessed without atomic.AddUint32")
				}
			}
		})
	}
	if n < 2 {
		r.add(rule, "id-counter:floor", "-", fmt.Sprintf("%d atomic increments of the id counter, floor is 2", n), Floor)
	}
}

// isLocalCell reports whether an address denotes (part of) a local variable cell rather than memory reachable
// from a parameter: a range variable spilled to an alloc, a composite literal under construction, …
func isLocalCell(addr ssa.Value) bool {
	for {
		switch x := addr.(type) {
		case *ssa.Alloc:
			return true
		case *ssa.FieldAddr:
			addr = x.X
		case *ssa.IndexAddr:
			// indexing into an array cell stays local; indexing a slice value leaves the cell
			if _, ok := x.X.Type().Underlying().(*types.Pointer); ok {
				addr = x.X
			} else {
				return false
			}
		default:
			return false
		}
	}
}

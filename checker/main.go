package main

// cometlint — repository-specific static checker deciding structural necessary conditions
// of the comet properties C01..C20. See /verif/DESIGN.md.

import (
	"flag"
	"fmt"
	"os"
	"runtime/debug"
	"sort"
	"strconv"
	"strings"
	"time"
)

type propDef struct {
	ID    string
	Meta  propMeta
	Rules func(r *Run)
}

var registry = map[string]*propDef{}

func register(id string, meta propMeta, rules func(r *Run)) {
	registry[id] = &propDef{ID: id, Meta: meta, Rules: rules}
}

func main() {
	prop := flag.String("prop", "", "property id (C01..C20) or 'all'")
	tier := flag.String("tier", "quick", "quick|thorough")
	repo := flag.String("repo", "/repo", "repository root")
	verif := flag.String("verif", "/verif", "verif root (evidence/, findings/, KNOWN_FINDINGS.jsonl)")
	tags := flag.String("tags", "", "build tags")
	list := flag.Bool("list", false, "print every obligation")
	explain := flag.String("explain", "", "re-evaluate the instance recorded in a findings file")
	flag.Parse()

	if *explain != "" {
		os.Exit(doExplain(*explain, *repo, *verif))
	}
	if *prop == "" {
		fmt.Fprintln(os.Stderr, "usage: cometlint -prop Cxx [-tier quick|thorough]")
		os.Exit(2)
	}
	seed := 0
	if s := os.Getenv("VERIF_SEED"); s != "" {
		seed, _ = strconv.Atoi(s)
	}
	var ids []string
	if *prop == "all" {
		for id := range registry {
			ids = append(ids, id)
		}
		sort.Strings(ids)
	} else {
		ids = strings.Split(*prop, ",")
	}
	start := time.Now()
	w, err := Load(*repo, *tags)
	if err != nil {
		// a tree that does not load cannot be analysed: fail every requested property loudly
		for _, id := range ids {
			fmt.Printf("LOAD-FAILURE %v\n", err)
			fmt.Printf("VIOLATION property=%s replay=%s\n", id, writeLoadFailure(*verif, id, err))
			writeFailureEvidence(*verif, id, *tier, seed, err.Error(), time.Since(start).Seconds())
		}
		os.Exit(1)
	}
	exit := 0
	for _, id := range ids {
		def := registry[id]
		if def == nil {
			fmt.Fprintf(os.Stderr, "unknown property %s\n", id)
			os.Exit(2)
		}
		t0 := time.Now()
		if len(ids) == 1 {
			t0 = start
		}
		run := NewRun(w, id, *tier)
		func() {
			defer func() {
				if p := recover(); p != nil {
					run.add(id+".PANIC", "checker-panic", "-", fmt.Sprintf("checker panicked: %v\n%s", p, debug.Stack()), Undecided)
				}
			}()
			def.Rules(run)
		}()
		if *list {
			for _, o := range run.Obs {
				fmt.Printf("  [%s] %s @ %s — %s\n", o.Status, o.Key, o.Site, o.Detail)
			}
		}
		if e := run.Finish(*verif, def.Meta, t0, seed); e > exit {
			exit = e
		}
	}
	os.Exit(exit)
}

func writeLoadFailure(verif, id string, err error) string {
	path := verif + "/findings/" + id + "-load-failure.json"
	os.MkdirAll(verif+"/findings", 0o755)
	os.WriteFile(path, []byte(fmt.Sprintf("{\"property\":%q,\"kind\":\"load-failure\",\"detail\":%q}\n", id, err.Error())), 0o644)
	return path
}

func writeFailureEvidence(verif, id, tier string, seed int, msg string, wall float64) {
	os.MkdirAll(verif+"/evidence", 0o755)
	s := fmt.Sprintf("{\"property_id\":%q,\"tier\":%q,\"seed\":%d,\"level\":\"other\",\"coverage\":{\"explanation\":%q,\"obligations\":0,\"discharged\":0},\"wall_s\":%f,\"violations\":1}\n",
		id, tier, seed, "the tree could not be loaded/type-checked, nothing was analysed: "+msg, wall)
	os.WriteFile(verif+"/evidence/"+id+".json", []byte(s), 0o644)
}

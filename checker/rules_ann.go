package main

// rules_ann.go — approximate-index specifics: HNSW entry/link/order/flush/empty (C12), IVF probes/assignment/typestate (C13),
// PQ/IVFPQ width/train-size/table/residual (C14).

import (
	"fmt"
	"go/token"
	"go/types"
	"os"
	"sort"
	"strings"

	"golang.org/x/tools/go/ssa"
)

// ---------------------------------------------------------------- HNSW

func hnswFn(w *World, role string) *ssa.Function {
	// helper discovery by structural role among HNSWIndex methods
	for _, fn := range w.Funcs {
		if fn.Signature.Recv() == nil {
			// the neighbour selection reads no index state: it may be a plain function
			if role == "select" && fn.Parent() == nil && fn.Synthetic == "" {
				sig := fn.Signature
				if sig.Params().Len() == 2 && sig.Results().Len() == 1 && tstr(sig.Results().At(0).Type(), nil) == "[]uint32" &&
					strings.HasSuffix(tstr(sig.Params().At(0).Type(), qual), "[]candidate") && tstr(sig.Params().At(1).Type(), nil) == "int" {
					if obj := fn.Object(); obj != nil && !obj.Exported() && len(callsIn(fn, func(cc *ssa.CallCommon) bool { return isSortCall(cc) })) > 0 {
						return fn
					}
				}
			}
			continue
		}
		if namedTypeName(fn.Signature.Recv().Type()) != "HNSWIndex" {
			continue
		}
		sig := fn.Signature
		switch role {
		case "insert": // (node *hnswNode) — calls the layer search and appends to edge lists
			if sig.Params().Len() == 1 && sig.Results().Len() == 0 && strings.HasSuffix(tstr(sig.Params().At(0).Type(), qual), "hnswNode") {
				return fn
			}
		case "select": // ([]candidate, int) []uint32
			if sig.Params().Len() == 2 && sig.Results().Len() == 1 && tstr(sig.Results().At(0).Type(), nil) == "[]uint32" {
				return fn
			}
		case "prune": // (uint32 | *hnswNode, int, int) in any order: no result, two int parameters, one node
			if sig.Params().Len() == 3 && sig.Results().Len() == 0 {
				ints, nodes := 0, 0
				for i := 0; i < 3; i++ {
					t := tstr(sig.Params().At(i).Type(), qual)
					switch {
					case t == "int":
						ints++
					case t == "uint32" || strings.HasSuffix(t, "hnswNode"):
						nodes++
					}
				}
				if ints == 2 && nodes == 1 {
					return fn
				}
			}
		}
	}
	return nil
}

// pruneBoundParam names (canonically) the int parameter of the pruning helper that is not used to index an edge table:
// the bound M (the other one is the layer).
func pruneBoundParam(fn *ssa.Function) string {
	layer := map[*ssa.Parameter]bool{}
	allInstrs(fn, func(in ssa.Instruction) {
		if ia, ok := in.(*ssa.IndexAddr); ok {
			if p, isP := ia.Index.(*ssa.Parameter); isP {
				layer[p] = true
			}
		}
	})
	out := ""
	for i, p := range fn.Params {
		if bt, ok := p.Type().Underlying().(*types.Basic); ok && bt.Kind() == types.Int && !layer[p] {
			if out != "" {
				return "P3"
			}
			out = fmt.Sprintf("P%d", i)
		}
	}
	if out == "" {
		return "P3"
	}
	return out
}

func ruleHNSWLinkEntry(r *Run, p string) {
	w := r.W
	k, err := kindByName(w, "hnsw")
	if err != nil {
		r.Unres(p+".LINK", "hnsw", err.Error())
		return
	}
	add := k.Add
	name := w.Name(add)
	r.Analysed(name)
	r.Doc(p+".LINK", "once neighbour lists are full every new vertex is dropped from the lists it was just appended to: zero in-degree, unreachable")
	r.Doc(p+".ENTRY", "a vertex inserted while everything reachable is soft-deleted stays isolated; searches return empty although live vectors exist")
	c := NewCanon(w)
	ins := hnswFn(w, "insert")
	prune := hnswFn(w, "prune")
	if ins == nil || prune == nil {
		r.Unres(p+".LINK", "hnsw:helpers", "insert / prune helpers not found by role")
		return
	}
	var insCall *ssa.Call
	for _, call := range callsIn(add, func(cc *ssa.CallCommon) bool { return staticCallee(cc) == ins }) {
		insCall = call.(*ssa.Call)
	}
	if insCall == nil {
		r.Bad(p+".LINK", "hnsw:insert-call", w.Pos(add.Pos())+" "+name, "Add does not call the graph insertion routine")
		return
	}
	// LINK: nodes[id] = node dominates the insertion — or the pruning routine does not look candidates up in the node map
	registered := false
	for _, mu := range mapUpdatesOf(add) {
		if c.S(mu.Map) == "P0.nodes" && mu.Value == insCall.Call.Args[1] && domInstr(mu, insCall) {
			registered = true
		}
	}
	skipsUnknown := false
	cp := NewCanon(w)
	allInstrs(prune, func(in ssa.Instruction) {
		if bo, ok := in.(*ssa.BinOp); ok && (bo.Op == token.EQL || bo.Op == token.NEQ) {
			l, rr := cp.S(bo.X), cp.S(bo.Y)
			if (strings.HasPrefix(l, "P0.nodes[") && rr == "nil") || (strings.HasPrefix(rr, "P0.nodes[") && l == "nil") {
				skipsUnknown = true
			}
		}
	})
	r.Check(registered || !skipsUnknown, p+".LINK", "hnsw:register-before-link", w.InstrPos(insCall)+" "+name,
		"the new node is in the node map before it is linked (pruning, which skips ids missing from the map, can see it)",
		"the node is linked before it is registered while pruning skips ids missing from the node map: back-links to the new vertex are dropped")
	// ENTRY: after the insertion, entryPoint = id ⇔ the node got no layer-0 edges
	var entryStore *ssa.Store
	allInstrs(add, func(in ssa.Instruction) {
		if st, ok := in.(*ssa.Store); ok && c.S(st.Addr) == "P0.entryPoint" && (domInstr(insCall, st) || (!domInstr(st, insCall) && blockReaches(insCall.Block(), st.Block()))) {
			entryStore = st // (the insertion itself may be skipped for the very first node)
		}
	})
	if entryStore == nil {
		r.Bad(p+".ENTRY", "hnsw:isolated-becomes-entry", w.InstrPos(insCall)+" "+name, "a node inserted without any link is not made the entry point")
	} else {
		rows, _ := regionPaths(insCall.Block(), func(b *ssa.BasicBlock) bool { return false }, func(cond ssa.Value) (string, bool) {
			bo, ok := cond.(*ssa.BinOp)
			if !ok {
				return "", false
			}
			l := c.S(bo.X)
			if strings.HasPrefix(l, "len(") && strings.Contains(l, ".Edges[c(0)]") && isZeroConst(bo.Y) {
				switch bo.Op {
				case token.EQL, token.LEQ:
					return "NOEDGE", false
				case token.GTR, token.NEQ:
					return "NOEDGE", true
				}
			}
			return "", false
		}, 1)
		bad, _ := tableCheck([]string{"NOEDGE"}, rows, func(pr pathRow) string {
			if pr.P.Has(entryStore) {
				return "entry"
			}
			return "keep"
		}, func(a map[string]bool) string {
			if a["NOEDGE"] {
				return "entry"
			}
			return "keep|entry" // handing over to a linked node is harmless; not handing over to an isolated one hides it
		})
		okVal := false
		for _, mu := range mapUpdatesOf(add) {
			if c.S(mu.Map) == "P0.nodes" && mu.Key == entryStore.Val {
				okVal = true
			}
		}
		if len(bad) > 0 || !okVal {
			r.Bad(p+".ENTRY", "hnsw:isolated-becomes-entry", w.InstrPos(entryStore)+" "+name, "entry hand-over is not `no layer-0 edge ⇒ new node becomes entry point`: "+truncList(bad, 3))
		} else {
			r.Ok(p+".ENTRY", "hnsw:isolated-becomes-entry", w.InstrPos(entryStore)+" "+name, "after insertion: entryPoint = id ⇔ len(node.Edges[0]) == 0, unconditionally")
		}
	}
	// flush: the re-elected entry point is a node that is not soft-deleted
	body, _ := flushBody(w, k.Flush, k.DelField)
	if body != nil {
		cb := NewCanon(w)
		n := 0
		allInstrs(body, func(in ssa.Instruction) {
			st, ok := in.(*ssa.Store)
			if !ok || cb.S(st.Addr) != "P0.entryPoint" || isZeroConst(st.Val) {
				return
			}
			n++
			val := cb.S(st.Val)
			ok = guardedByCall(cb, st, func(call *ssa.Call, neg bool) (bool, bool) {
				if calleeName(call.Common()) == roaringBitmap+"Contains" && cb.S(call.Call.Args[0]) == "P0."+k.DelField && cb.S(call.Call.Args[1]) == val {
					return neg, true // region where Contains is false
				}
				return false, false
			})
			if !ok {
				// the id was picked earlier and carried in a variable (a single pass that remembers the best live node):
				// every value the variable can take was assigned on the live side of the soft-delete test of that value
				if ph, isPhi := st.Val.(*ssa.Phi); isPhi {
					ok = liveGuardedPhi(cb, ph, "P0."+k.DelField, 0, map[*ssa.Phi]bool{})
				}
			}
			r.Check(ok, p+".ENTRY", fmt.Sprintf("hnsw:flush:reelect#%d", n), w.InstrPos(st)+" "+w.Name(body), "re-elected entry point is tested not soft-deleted", "flush may elect a soft-deleted node ("+val+") as entry point")
		})
		if n == 0 {
			r.Bad(p+".ENTRY", "hnsw:flush:reelect", w.Pos(body.Pos())+" "+w.Name(body), "flush never re-elects the entry point")
		}
		ruleHNSWReelectLevel(r, p+".ENTRY", body)
	}
}

// ruleHNSWReelectLevel: a re-elected entry point and maxLevel move together. Every store entryPoint = id(n) either sits
// under `n.Level == maxLevel` (same level: maxLevel stays right), or is one half of an argmax over the levels — guarded by
// `n.Level > best`, in the block that also sets best = n.Level — whose result is stored into maxLevel when some node was
// found (best ≥ 0) and replaced by the empty state (−1) otherwise. And the running maximum never moves without the entry.
func ruleHNSWReelectLevel(r *Run, rule string, body *ssa.Function) {
	w := r.W
	c := NewCanon(w)
	name := w.Name(body)
	levelOf := func(idv ssa.Value) string {
		s := c.S(idv) // get:id(X.VectorNode) / get:id(X)
		s = strings.TrimSuffix(strings.TrimPrefix(s, "get:id("), ")")
		s = strings.TrimSuffix(s, ".VectorNode")
		return s + ".Level"
	}
	var bests []*ssa.Phi
	n := 0
	carriedForm := false
	allInstrs(body, func(in ssa.Instruction) {
		st, ok := in.(*ssa.Store)
		if !ok || c.S(st.Addr) != "P0.entryPoint" || isZeroConst(st.Val) {
			return
		}
		n++
		if _, carried := st.Val.(*ssa.Phi); carried {
			carriedForm = true
			return
		}
		lv := levelOf(st.Val)
		site := w.InstrPos(st) + " " + name
		sameLevel, argmax := false, false
		var best *ssa.Phi
		for b := st.Block(); b != nil; b = b.Idom() {
			d := b.Idom()
			if d == nil {
				break
			}
			iff, isIf := d.Instrs[len(d.Instrs)-1].(*ssa.If)
			if !isIf || !(d.Succs[0] == b || d.Succs[0].Dominates(b)) {
				continue
			}
			bo, isB := iff.Cond.(*ssa.BinOp)
			if !isB {
				continue
			}
			l, rr := c.S(bo.X), c.S(bo.Y)
			if bo.Op == token.EQL && ((l == lv && rr == "P0.maxLevel") || (rr == lv && l == "P0.maxLevel")) {
				sameLevel = true
			}
			if bo.Op == token.GTR && l == lv {
				if ph, isPhi := bo.Y.(*ssa.Phi); isPhi {
					best = ph
				}
			}
			if bo.Op == token.LSS && rr == lv {
				if ph, isPhi := bo.X.(*ssa.Phi); isPhi {
					best = ph
				}
			}
		}
		if best != nil {
			// the same block (or one it dominates, before the back edge) hands n.Level to the running maximum
			for i, e := range best.Edges {
				pred := best.Block().Preds[i]
				if c.S(e) == lv && (pred == st.Block() || st.Block().Dominates(pred)) {
					argmax = true
				}
			}
			if argmax {
				bests = append(bests, best)
			}
		}
		r.Check(sameLevel || argmax, rule, fmt.Sprintf("hnsw:flush:reelect-level#%d", n), site,
			"the re-elected entry point is a node of the current top level, or the level-wise best one with its level recorded",
			"the entry point is moved to "+c.S(st.Val)+" without tying maxLevel to that node's level (neither `Level == maxLevel` nor an argmax that records the level)")
	})
	if carriedForm {
		// the election remembers its choice in variables and stores it after the scan: the coupling of the remembered id and
		// the remembered level is a relational fact over two joins that these rules do not decide
		r.Note(rule, "hnsw:flush:reelect-level", w.Pos(body.Pos())+" "+name, "the entry point is chosen in a pass that carries its choice in variables; that the carried id and the carried level describe the same node is not decided here")
		return
	}
	// running maxima found from the other end: a phi fed by some node's Level that reaches a store into maxLevel
	allInstrs(body, func(in ssa.Instruction) {
		st, ok := in.(*ssa.Store)
		if !ok || c.S(st.Addr) != "P0.maxLevel" {
			return
		}
		seen := map[ssa.Value]bool{}
		var walk func(v ssa.Value, depth int)
		walk = func(v ssa.Value, depth int) {
			ph, isPhi := v.(*ssa.Phi)
			if !isPhi || seen[v] || depth > 4 {
				return
			}
			seen[v] = true
			fed := false
			for _, e := range ph.Edges {
				if strings.HasSuffix(c.S(e), ".Level") {
					fed = true
				}
				walk(e, depth+1)
			}
			if fed {
				dup := false
				for _, b := range bests {
					if b == ph {
						dup = true
					}
				}
				if !dup {
					bests = append(bests, ph)
				}
			}
		}
		walk(st.Val, 0)
	})
	for i, best := range bests {
		site := w.InstrPos(best) + " " + name
		// the maximum never moves without the entry point
		lonely := ""
		for j, e := range best.Edges {
			if e == ssa.Value(best) {
				continue
			}
			if _, isConst := e.(*ssa.Const); isConst {
				continue
			}
			pred := best.Block().Preds[j]
			has := false
			for b := pred; b != nil && !has; b = b.Idom() {
				for _, in := range b.Instrs {
					if st, ok := in.(*ssa.Store); ok && c.S(st.Addr) == "P0.entryPoint" {
						has = true
					}
				}
				if b == best.Block() {
					break
				}
			}
			if !has {
				lonely = c.S(e)
			}
		}
		r.Check(lonely == "", rule, fmt.Sprintf("hnsw:flush:reelect-coupled#%d", i), site, "the running maximum level only moves together with the entry point", "the running maximum takes "+lonely+" on a path that does not move the entry point: maxLevel and entryPoint end up describing different nodes")
		// the result reaches maxLevel when a node was found, the empty state otherwise
		stored, reset := false, false
		allInstrs(body, func(in ssa.Instruction) {
			st, ok := in.(*ssa.Store)
			if !ok || c.S(st.Addr) != "P0.maxLevel" {
				return
			}
			derives := derivesFromValue(st.Val, best, 0) || phiHasEdge(st.Val, best, 3)
			guardedFound := func(wantFound bool) bool {
				for b := st.Block(); b != nil; b = b.Idom() {
					d := b.Idom()
					if d == nil {
						return false
					}
					iff, isIf := d.Instrs[len(d.Instrs)-1].(*ssa.If)
					if !isIf {
						continue
					}
					bo, isB := iff.Cond.(*ssa.BinOp)
					if !isB || !(derivesFromValue(bo.X, best, 0) || phiHasEdge(bo.X, best, 3)) {
						continue
					}
					k, isK := bo.Y.(*ssa.Const)
					if !isK || k.Value == nil {
						continue
					}
					found := false // does the true branch mean "some node was found"?
					switch {
					case bo.Op == token.GEQ && k.Int64() == 0, bo.Op == token.GTR && k.Int64() == -1, bo.Op == token.NEQ && k.Int64() == -1:
						found = true
					case bo.Op == token.LSS && k.Int64() == 0, bo.Op == token.LEQ && k.Int64() == -1, bo.Op == token.EQL && k.Int64() == -1:
						found = false
					default:
						continue
					}
					onTrue := d.Succs[0] == b || d.Succs[0].Dominates(b)
					onFalse := d.Succs[1] == b || d.Succs[1].Dominates(b)
					if (onTrue && found == wantFound) || (onFalse && found != wantFound) {
						return true
					}
				}
				return false
			}
			if derives && guardedFound(true) {
				stored = true
			}
			if k, isK := st.Val.(*ssa.Const); isK && k.Value != nil && k.Int64() == -1 && guardedFound(false) {
				reset = true
			}
		})
		r.Check(stored && reset, rule, fmt.Sprintf("hnsw:flush:reelect-maxlevel#%d", i), site, "maxLevel becomes the best level found, or −1 (empty index) when no live node is left",
			fmt.Sprintf("after the search for the best live node maxLevel is not updated on both outcomes (found ⇒ best level: %v, none ⇒ −1: %v)", stored, reset))
	}
}

// phiHasEdge: v is a phi (of phis) with from among its operands.
func phiHasEdge(v, from ssa.Value, depth int) bool {
	if v == from {
		return true
	}
	ph, ok := v.(*ssa.Phi)
	if !ok || depth <= 0 {
		return false
	}
	for _, e := range ph.Edges {
		if e != v && phiHasEdge(e, from, depth-1) {
			return true
		}
	}
	return false
}

// guardedByCall: instruction lies in the region selected by a dominating branch on a call condition.
// match returns (wantTrueBranch, ok) given the call and whether the condition is negated.
func guardedByCall(c *Canon, in ssa.Instruction, match func(call *ssa.Call, neg bool) (bool, bool)) bool {
	for b := in.Block(); b != nil; b = b.Idom() {
		d := b.Idom()
		if d == nil {
			return false
		}
		iff, ok := d.Instrs[len(d.Instrs)-1].(*ssa.If)
		if !ok {
			continue
		}
		cond, neg := stripNot(iff.Cond)
		call, ok := cond.(*ssa.Call)
		if !ok {
			continue
		}
		want, ok := match(call, neg)
		if !ok {
			continue
		}
		// want==true: region where the (un-negated) call result is FALSE is requested by returning neg … keep simple:
		// match returns which successor index is the accepted one: true → Succs[0]
		succ := d.Succs[1]
		if want {
			succ = d.Succs[0]
		}
		if succ == b || succ.Dominates(b) {
			return true
		}
	}
	return false
}

func ruleHNSWOrder(r *Run, p string) {
	w := r.W
	rule := p + ".ORD"
	r.Doc(rule, "the farthest neighbours are kept / heaps pop the wrong extreme")
	ruleHeapOrders(r, rule, map[string]string{"minHeap": "asc", "maxHeap": "desc"})
	for _, role := range []string{"select", "prune"} {
		fn := hnswFn(w, role)
		if fn == nil {
			r.Unres(rule, "hnsw:"+role, "helper not found by role")
			continue
		}
		name := w.Name(fn)
		r.Analysed(name)
		c := NewCanon(w)
		// neighbour lists are built without regard to the soft-delete state: tombstoned vertices stay linked until Flush,
		// they are the bridges the layer search walks through (C12.FRONTIER explores them on purpose)
		if hk, err := kindByName(w, "hnsw"); err == nil {
			usesDel := ""
			for _, g := range sameRecvCallees(w, fn, 2) {
				cg := NewCanon(w)
				allInstrs(g, func(in ssa.Instruction) {
					if call, ok := in.(*ssa.Call); ok && strings.HasPrefix(calleeName(call.Common()), roaringBitmap) && len(call.Call.Args) > 0 && cg.S(call.Call.Args[0]) == "P0."+hk.DelField {
						usesDel = w.InstrPos(in)
					}
				})
			}
			r.Check(usesDel == "", rule, "hnsw:"+role+":del-independent", w.Pos(fn.Pos())+" "+name, "neighbour "+role+" does not consult the soft-delete bitmap", "neighbour "+role+" consults the soft-delete bitmap at "+usesDel+": edges to tombstoned vertices are dropped before Flush and the live vertices behind them become unreachable")
		}
		var sortCall ssa.Instruction
		for _, call := range callsIn(fn, func(cc *ssa.CallCommon) bool { return calleeName(cc) == "sort.Slice" }) {
			sortCall = call
			cmp := closureArg(call.Common(), 1)
			if cmp == nil {
				r.Und(rule, "hnsw:"+role+":order", w.InstrPos(call)+" "+name, "comparator is not a literal")
				continue
			}
			d, f, why := comparatorDirection(w, cmp)
			if d == "" {
				r.Und(rule, "hnsw:"+role+":order", w.InstrPos(call)+" "+name, why)
				continue
			}
			r.Check(d == "asc" && strings.HasSuffix(f, ".distance"), rule, "hnsw:"+role+":order", w.InstrPos(call)+" "+name, "candidates sorted by ascending distance", "comparator is "+d+" on "+f)
		}
		if sortCall == nil {
			r.Bad(rule, "hnsw:"+role+":order", w.Pos(fn.Pos())+" "+name, "candidates are never sorted")
			continue
		}
		// after the sort: out[i] = sorted[i].id for i in [0, bound): the prefix is kept
		okPrefix := false
		allInstrs(fn, func(in ssa.Instruction) {
			st, ok := in.(*ssa.Store)
			if !ok {
				return
			}
			ia, ok := st.Addr.(*ssa.IndexAddr)
			if !ok {
				return
			}
			ph, ok := ia.Index.(*ssa.Phi)
			if !ok {
				return
			}
			sorted := domInstr(sortCall, st)
			if !sorted {
				// single copy loop shared by the "everything fits" and the "truncate" case: for i := 0; i < keep; i++ with
				// keep = φ(len(candidates), bound chosen after the sort)
				if init, bound, isLoop := countedLoop(ph); isLoop && init == 0 {
					if bp, ok := bound.(*ssa.Phi); ok && reachAvoid(fn, st, func(x ssa.Instruction) bool { return x == sortCall }, func(ssa.Instruction) bool { return false }) == nil {
						sorted = true
						for j, e := range bp.Edges {
							pred := bp.Block().Preds[j]
							if c.S(e) == "len(P1)" {
								continue // nothing is dropped on this edge
							}
							if !(sortCall.Block() == pred || sortCall.Block().Dominates(pred)) {
								sorted = false
							}
						}
					}
				}
			}
			if !sorted {
				return
			}
			vs := c.S(st.Val)
			if strings.HasSuffix(vs, "["+c.S(ia.Index)+"].id") {
				for _, e := range ph.Edges {
					if isZeroConst(e) {
						okPrefix = true
					}
				}
			}
		})
		if !okPrefix {
			// general form: out = make([]uint32, L); for every index i of out: out[i] = cands[i].id, where cands is the list
			// that was sorted — and the sort ran on every way to the copy unless that way established len(cands) ≤ M
			// (nothing is dropped then, the order is immaterial)
			sortedName := c.S(sortCall.(ssa.CallInstruction).Common().Args[0])
			sortedVal := sortCall.(ssa.CallInstruction).Common().Args[0]
			if mi, isMI := sortedVal.(*ssa.MakeInterface); isMI {
				sortedVal = mi.X
			}
			allInstrs(fn, func(in ssa.Instruction) {
				st, ok := in.(*ssa.Store)
				if !ok || okPrefix {
					return
				}
				ia, ok := st.Addr.(*ssa.IndexAddr)
				if !ok || !isAllIndex(ia.Index) {
					return
				}
				mk, isMk := ia.X.(*ssa.MakeSlice)
				if !isMk {
					return
				}
				// the bound M of the kept list: make(len = M | min(M, len(cands)))
				mName := c.S(mk.Len)
				if call, isCall := mk.Len.(*ssa.Call); isCall && len(call.Call.Args) == 2 {
					if b, isB := call.Call.Value.(*ssa.Builtin); isB && b.Name() == "min" {
						a0, a1 := c.S(call.Call.Args[0]), c.S(call.Call.Args[1])
						switch {
						case strings.HasPrefix(a0, "len("):
							mName = a1
						case strings.HasPrefix(a1, "len("):
							mName = a0
						}
					}
				}
				vs := c.S(st.Val)
				base := ""
				for _, suf := range []string{"[range].id", "[" + c.S(ia.Index) + "].id"} {
					if strings.HasSuffix(vs, suf) {
						base = strings.TrimSuffix(vs, suf)
					}
				}
				multiCell := false
				{
					var sv ssa.Value
					switch v := st.Val.(type) {
					case *ssa.Field:
						if ld, ok := v.X.(*ssa.UnOp); ok && ld.Op == token.MUL {
							if x, ok := ld.X.(*ssa.IndexAddr); ok {
								sv = x.X
							}
						}
					case *ssa.UnOp:
						if fa, ok := v.X.(*ssa.FieldAddr); ok && v.Op == token.MUL {
							if x, ok := fa.X.(*ssa.IndexAddr); ok {
								sv = x.X
							}
							if al, ok := fa.X.(*ssa.Alloc); ok {
								if s1 := singleStore(al); s1 != nil {
									if ld, ok := s1.(*ssa.UnOp); ok && ld.Op == token.MUL {
										if x, ok := ld.X.(*ssa.IndexAddr); ok {
											sv = x.X
										}
									}
								}
							}
						}
					}
					if ld, ok := sv.(*ssa.UnOp); ok && ld.Op == token.MUL {
						if al, ok := ld.X.(*ssa.Alloc); ok && singleStore(al) == nil {
							multiCell = true // a variable assigned more than once: its value depends on the path
						}
					}
				}
				if base == "" || base != sortedName || multiCell {
					// the list is cut first and copied whole afterwards: `if len > M { sort; cands = cands[:M] }; for i, c := range cands`
					// — on every way to the copy the source is the sorted list itself (everything is kept) or a prefix of
					// it, and a prefix only after the sort
					var src *ssa.IndexAddr
					switch v := st.Val.(type) {
					case *ssa.Field:
						if ld, ok := v.X.(*ssa.UnOp); ok && ld.Op == token.MUL {
							src, _ = ld.X.(*ssa.IndexAddr)
						}
					case *ssa.UnOp:
						if fa, ok := v.X.(*ssa.FieldAddr); ok && v.Op == token.MUL {
							src, _ = fa.X.(*ssa.IndexAddr)
							if al, ok := fa.X.(*ssa.Alloc); ok && src == nil {
								if s1 := singleStore(al); s1 != nil {
									if ld, ok := s1.(*ssa.UnOp); ok && ld.Op == token.MUL {
										src, _ = ld.X.(*ssa.IndexAddr)
									}
								}
							}
						}
					}
					if src == nil || src.Index != ia.Index || !strings.HasSuffix(vs, ".id") {
						return
					}
					paths, trunc := enumPaths(fn.Blocks[0], walkCfg{MaxVisits: 1, MaxPaths: 2000, Stop: func(b *ssa.BasicBlock) bool { return b == st.Block() }})
					if trunc {
						return
					}
					all, n := true, 0
					for _, pth := range paths {
						if pth.End != EndStop || !pth.Feasible() {
							continue
						}
						n++
						y := cellValueOnPath(pth, src.X)
						if os.Getenv("COMETLINT_DEBUG_PREFIX") != "" {
							fmt.Fprintf(os.Stderr, "PREFIX %s: y=%s (%T) sorted=%s sortedVal=%s hasSort=%v\n", name, c.S(y), y, sortedName, c.S(cellValueOnPath(pth, sortedVal)), pth.Has(sortCall))
						}
						cellOf := func(v ssa.Value) *ssa.Alloc {
							if ld, ok := v.(*ssa.UnOp); ok && ld.Op == token.MUL {
								al, _ := ld.X.(*ssa.Alloc)
								return al
							}
							return nil
						}
						sameVar := cellOf(src.X) != nil && cellOf(src.X) == cellOf(sortedVal) // the copied and the sorted list are one variable
						isSorted := func(v ssa.Value) bool {
							if sameVar {
								if _, isSl := v.(*ssa.Slice); !isSl {
									return true // the variable's whole value
								}
							}
							return c.S(v) == sortedName || c.S(cellValueOnPath(pth, v)) == sortedName || c.S(cellValueOnPath(pth, v)) == c.S(cellValueOnPath(pth, sortedVal))
						}
						switch {
						case isSorted(y):
						default:
							sl, isSl := y.(*ssa.Slice)
							if !isSl || sl.Low != nil || !isSorted(sl.X) || !pth.Has(sortCall) {
								all = false
							}
						}
					}
					if all && n > 0 {
						okPrefix = true
					}
					return
				}
				paths, trunc := enumPaths(fn.Blocks[0], walkCfg{MaxVisits: 1, MaxPaths: 2000, Stop: func(b *ssa.BasicBlock) bool { return b == st.Block() }})
				if trunc {
					return
				}
				all, n := true, 0
				for _, pth := range paths {
					if pth.End != EndStop || !pth.Feasible() {
						continue
					}
					n++
					if pth.Has(sortCall) {
						continue
					}
					fits := false
					for _, d := range pth.Decisions {
						bo, isB := d.Cond.(*ssa.BinOp)
						if !isB {
							continue
						}
						cmp, neg, okC := normCmp(c, bo)
						if !okC {
							continue
						}
						isLen := func(x string) bool { return x == "len("+sortedName+")" }
						holds := d.Taken != neg // cmp holds on this path
						switch {
						case cmp.Op == token.LEQ && isLen(cmp.L) && cmp.R == mName && holds: // len ≤ M
							fits = true
						case cmp.Op == token.LSS && isLen(cmp.R) && cmp.L == mName && !holds: // ¬(M < len)
							fits = true
						case cmp.Op == token.LSS && isLen(cmp.L) && cmp.R == mName && holds: // len < M
							fits = true
						}
					}
					if !fits {
						all = false
					}
				}
				if all && n > 0 {
					okPrefix = true
				}
			})
		}
		r.Check(okPrefix, rule, "hnsw:"+role+":prefix", w.Pos(fn.Pos())+" "+name, "the kept neighbours are the prefix [0,bound) of the ascending order (nearest first)", "the kept neighbours are not the prefix of the sorted candidates")
	}
	// prune bound = min(M, len(cand)); select bound = M when len > M
	if fn := hnswFn(w, "prune"); fn != nil {
		c := NewCanon(w)
		ok := false
		pM := pruneBoundParam(fn)
		allInstrs(fn, func(in ssa.Instruction) {
			if mk, ok2 := in.(*ssa.MakeSlice); ok2 && tstr(mk.Type(), nil) == "[]uint32" {
				// make(len(cands[:min(M, len(cands))])): the length of a prefix is its bound
				if lc, isLen := mk.Len.(*ssa.Call); isLen && len(lc.Call.Args) == 1 {
					if bi, isB := lc.Call.Value.(*ssa.Builtin); isB && bi.Name() == "len" {
						if sl, isSl := lc.Call.Args[0].(*ssa.Slice); isSl && sl.Low == nil && sl.High != nil {
							if hc, isCall := sl.High.(*ssa.Call); isCall {
								if hb, isHB := hc.Call.Value.(*ssa.Builtin); isHB && hb.Name() == "min" && len(hc.Call.Args) == 2 {
									s0, s1 := c.S(hc.Call.Args[0]), c.S(hc.Call.Args[1])
									if (s0 == pM && strings.HasPrefix(s1, "len(")) || (s1 == pM && strings.HasPrefix(s0, "len(")) {
										ok = true
									}
								}
							}
						}
					}
				}
				if call, isCall := mk.Len.(*ssa.Call); isCall {
					if b, isB := call.Call.Value.(*ssa.Builtin); isB && b.Name() == "min" && len(call.Call.Args) == 2 {
						s0, s1 := c.S(call.Call.Args[0]), c.S(call.Call.Args[1])
						if (s0 == pM && strings.HasPrefix(s1, "len(")) || (s1 == pM && strings.HasPrefix(s0, "len(")) {
							ok = true
						}
					}
				}
				if ph, isPhi := mk.Len.(*ssa.Phi); isPhi {
					var hasM, hasLen bool
					for _, e := range ph.Edges {
						s := c.S(e)
						if s == pM {
							hasM = true
						}
						if strings.HasPrefix(s, "len(") {
							hasLen = true
						}
					}
					ok = hasM && hasLen
				}
			}
		})
		r.Check(ok, rule, "hnsw:prune:bound", w.Pos(fn.Pos())+" "+w.Name(fn), "pruned list has min(M, candidates) entries", "pruned list length is not min(M, len(candidates))")
	}
}

// ruleHNSWEmpty: the early empty answer is given only for an empty index.
func ruleHNSWEmpty(r *Run, rule string) {
	w := r.W
	k, err := kindByName(w, "hnsw")
	if err != nil {
		return
	}
	fn := k.Single
	name := w.Name(fn)
	r.Doc(rule, "a non-empty index answers with an empty result without searching")
	c := NewCanon(w)
	idx := "P0." + indexFieldOf(k.SearchT, k.IndexT)
	layer := hnswLayerFn(w)
	isStop := func(b *ssa.BasicBlock) bool {
		for _, in := range b.Instrs {
			if call, ok := in.(*ssa.Call); ok {
				if call.Call.IsInvoke() && call.Call.Method.Name() == "Calculate" {
					return true
				}
				if staticCallee(call.Common()) == layer && layer != nil {
					return true
				}
			}
		}
		return false
	}
	rows, trunc := regionPaths(fn.Blocks[0], isStop, func(cond ssa.Value) (string, bool) {
		bo, ok := cond.(*ssa.BinOp)
		if !ok {
			return "", false
		}
		l, rr := c.S(bo.X), c.S(bo.Y)
		switch {
		case l == "len("+idx+".nodes)" && rr == "c(0)" && bo.Op == token.EQL:
			return "NONODES", false
		case l == idx+".maxLevel" && rr == "c(-1)" && bo.Op == token.EQL:
			return "NOLEVEL", false
		case l == idx+".maxLevel" && rr == "c(0)" && bo.Op == token.LSS:
			return "NOLEVEL", false
		}
		return "", false
	}, 1)
	site := w.Pos(fn.Pos()) + " " + name
	if trunc {
		r.Und(rule, "hnsw:empty", site, "too many paths")
		return
	}
	var keep []pathRow
	for _, pr := range rows {
		if pr.P.End == EndReturn && classifyErr(pr.P.Ret) == ErrNonNil {
			continue // validation errors are orthogonal
		}
		keep = append(keep, pr)
	}
	bad, states := tableCheck([]string{"NONODES", "NOLEVEL"}, keep, func(pr pathRow) string {
		if pr.P.End == EndReturn {
			return "empty-answer"
		}
		return "search"
	}, func(a map[string]bool) string {
		if a["NONODES"] || a["NOLEVEL"] {
			return "empty-answer"
		}
		return "search"
	})
	if len(bad) > 0 {
		r.Bad(rule, "hnsw:empty", site, truncList(bad, 3))
	} else {
		r.Ok(rule, "hnsw:empty", site, fmt.Sprintf("%d states: empty answer ⇔ len(nodes)==0 ∨ maxLevel==-1, otherwise the traversal starts", states))
	}
}

// ---------------------------------------------------------------- IVF / IVFPQ probes

// ruleProbes: effective probe count table; the probe loop visits ranks 0..p-1 and scans the list of the ranked centroid every time.
func ruleProbes(r *Run, p string, k *vecKind) {
	w := r.W
	fn := k.Single
	name := w.Name(fn)
	r.Analysed(name)
	r.Doc(p+".ORD.probe", "fewer / other clusters than the p nearest are searched")
	c := NewCanon(w)
	site := w.Pos(fn.Pos()) + " " + name
	sinks := findScanSinks(fn)
	if len(sinks) != 1 {
		r.Unres(p+".ORD.probe", k.Name+":sink", "admission sink not found")
		return
	}
	loops := loopsOf(fn)
	scan := innermostLoop(loops, sinks[0].Call.Block())
	// probe loop: the smallest loop strictly containing the scan loop
	var probe *Loop
	for _, l := range loops {
		if l != scan && l.Blocks[scan.Header] && (probe == nil || len(l.Blocks) < len(probe.Blocks)) {
			probe = l
		}
	}
	if probe == nil {
		r.Bad(p+".ORD.probe", k.Name+":probe-loop", site, "the scan loop is not nested in a probe loop")
		return
	}
	// header condition: counter < P, counter from 0 step 1
	var counter *ssa.Phi
	var bound ssa.Value
	hdrOK := false
	if iff, ok := probe.Header.Instrs[len(probe.Header.Instrs)-1].(*ssa.If); ok {
		if bo, ok := iff.Cond.(*ssa.BinOp); ok && bo.Op == token.LSS {
			if ph, ok := bo.X.(*ssa.Phi); ok && ph.Block() == probe.Header {
				counter, bound = ph, bo.Y
				zero, step := false, false
				for _, e := range ph.Edges {
					if isZeroConst(e) {
						zero = true
					}
					if b2, ok := e.(*ssa.BinOp); ok && b2.Op == token.ADD && b2.X == ssa.Value(ph) && c.S(b2.Y) == "c(1)" {
						step = true
					}
				}
				hdrOK = zero && step
			}
		}
	}
	// or a range over the first p entries of the ranking: for _, e := range ranked[:p]
	rangeForm := false
	if !hdrOK {
		if iff, ok := probe.Header.Instrs[len(probe.Header.Instrs)-1].(*ssa.If); ok {
			if bo, ok := iff.Cond.(*ssa.BinOp); ok && bo.Op == token.LSS && isRangeIndex(bo.X) {
				if lc, ok := bo.Y.(*ssa.Call); ok && len(lc.Call.Args) == 1 {
					if bi, isB := lc.Call.Value.(*ssa.Builtin); isB && bi.Name() == "len" {
						if sl, ok := lc.Call.Args[0].(*ssa.Slice); ok && sl.Low == nil && sl.High != nil {
							if ph, isPhi := bo.X.(*ssa.BinOp).X.(*ssa.Phi); isPhi {
								counter, bound = ph, sl.High
								hdrOK, rangeForm = true, true
							}
						}
					}
				}
			}
		}
	}
	r.Check(hdrOK, p+".ORD.probe", k.Name+":probe-loop:form", w.InstrPos(probe.Header.Instrs[0])+" "+name, "probe loop is `for i := 0; i < p; i++` (ranks 0..p-1)", "probe loop is not a plain count from 0 to p (ranks may be skipped or the count may depend on list contents)")
	if !hdrOK {
		return
	}
	// every iteration reaches the scan loop
	paths, _ := enumPaths(probe.Header, walkCfg{Stop: func(b *ssa.BasicBlock) bool { return b == probe.Header || !probe.Blocks[b] }, MaxVisits: 2, MaxPaths: 5000})
	skips := 0
	for _, pth := range paths {
		if pth.End == EndCycle || (pth.End == EndStop && len(pth.Blocks) == 2 && !probe.Blocks[pth.Blocks[1]]) {
			continue
		}
		if pth.End == EndStop && pth.Blocks[len(pth.Blocks)-1] == probe.Header {
			hit := false
			for _, b := range pth.Blocks {
				if b == scan.Header {
					hit = true
				}
			}
			// skipping the scan of a list that was just found empty changes nothing
			if !hit {
				for _, d := range pth.Decisions {
					bo, ok := d.Cond.(*ssa.BinOp)
					if !ok {
						continue
					}
					l, rr := c.S(bo.X), c.S(bo.Y)
					isLen := func(s string) bool { return strings.HasPrefix(s, "len(P0.") && strings.Contains(s, ".lists[") }
					switch {
					case bo.Op == token.EQL && ((isLen(l) && rr == "c(0)") || (isLen(rr) && l == "c(0)")) && d.Taken,
						bo.Op == token.NEQ && ((isLen(l) && rr == "c(0)") || (isLen(rr) && l == "c(0)")) && !d.Taken,
						bo.Op == token.GTR && isLen(l) && rr == "c(0)" && !d.Taken,
						bo.Op == token.LSS && l == "c(0)" && isLen(rr) && !d.Taken:
						hit = true
					}
				}
			}
			if !hit {
				skips++
			}
		}
	}
	r.Check(skips == 0, p+".ORD.probe", k.Name+":probe-loop:scans-every-rank", site, "every probe iteration scans its cluster's list", fmt.Sprintf("%d paths through a probe iteration skip the list scan", skips))
	// the scanned list is lists[ranked[i].index]
	elemC := c.S(sinks[0].Elem)
	idxField := indexFieldOf(k.SearchT, k.IndexT)
	wantPrefix := "P0." + idxField + ".lists["
	// the ranking entries {position, distance}: the field names are read off the literal (index/distance, item/score, …)
	rankIdxF := "index"
	allInstrs(fn, func(in ssa.Instruction) {
		st, ok := in.(*ssa.Store)
		if !ok {
			return
		}
		if f, ok := litFields(st.Val); ok && len(f) == 2 {
			var iF, dF string
			for nm, v := range f {
				if bt, isB := v.Type().Underlying().(*types.Basic); isB && bt.Kind() == types.Int {
					iF = nm
				}
				if isFloat32(v.Type()) && strings.Contains(c.S(v), "Distance.Calculate(") && strings.Contains(c.S(v), ".centroids[") {
					dF = nm
				}
			}
			if iF != "" && dF != "" {
				rankIdxF = iF
			}
		}
	})
	okList := strings.HasPrefix(elemC, wantPrefix) && strings.Contains(elemC, "["+c.S(counter)+"]."+rankIdxF+"]")
	if rangeForm {
		okList = strings.HasPrefix(elemC, wantPrefix) && strings.Contains(elemC, "[range]."+rankIdxF+"]")
	}
	r.Check(okList, p+".ORD.probe", k.Name+":probe-loop:list", site, "scanned list = lists[ranked[i].index] for the probe counter i", "scanned element is "+short(elemC, 120))
	// ranked = centroids sorted ascending by distance to the preprocessed query, index field = centroid position
	okRank := false
	allInstrs(fn, func(in ssa.Instruction) {
		st, ok := in.(*ssa.Store)
		if !ok {
			return
		}
		if f, ok := litFields(st.Val); ok && len(f) == 2 && f[rankIdxF] != nil {
			var dv ssa.Value
			for nm, v := range f {
				if nm != rankIdxF && isFloat32(v.Type()) {
					dv = v
				}
			}
			if dv == nil {
				return
			}
			ds := c.S(dv)
			idxOK := isRangeIndex(f[rankIdxF])
			if ph, isPhi := f[rankIdxF].(*ssa.Phi); isPhi && !idxOK {
				// for i := 0; i < len(centroids); i++
				if lc, isCall := countedLoopBound(ph).(*ssa.Call); isCall {
					if b, isB := lc.Call.Value.(*ssa.Builtin); isB && b.Name() == "len" && c.S(lc.Call.Args[0]) == "P0."+idxField+".centroids" {
						idxOK = true
					}
				}
			}
			if idxOK && strings.Contains(ds, "Distance.Calculate(") && strings.Contains(ds, "P0."+idxField+".centroids[range]") && strings.Contains(ds, "Distance.Preprocess(") {
				okRank = true
			}
		}
	})
	r.Check(okRank, p+".ORD.probe", k.Name+":ranking", site, "ranked[i] = {index: i, distance: Calculate(preprocessed query, centroids[i])} for every centroid", "centroid ranking entries are not {i, distance(query, centroid i)}")
	// effective probes table
	// the bound is a clamped value: a phi of (p, nlist), possibly passed through the min / max builtins
	boundIn, ok := bound.(ssa.Instruction)
	isClamp := false
	switch x := bound.(type) {
	case *ssa.Phi:
		isClamp = true
	case *ssa.Call:
		if b, isB := x.Call.Value.(*ssa.Builtin); isB && (b.Name() == "min" || b.Name() == "max") {
			isClamp = true
		}
	}
	if !ok || !isClamp {
		r.Und(p+".ORD.probe", k.Name+":table", site, "probe bound is not a clamped value")
		return
	}
	stopBlock := boundIn.Block()
	npField := builderField(w, k.SearchT, "WithNProbes")
	syms := []string{"p", "0", "nlist"}
	var bad []string
	rows := 0
	for _, ord := range weakOrders(3) {
		rank := map[string]int{}
		for i, s := range syms {
			rank[s] = ord[i]
		}
		if rank["nlist"] <= rank["0"] {
			continue
		}
		rows++
		symOf := func(v ssa.Value) string {
			if isZeroConst(v) {
				return "0"
			}
			switch c.S(v) {
			case "P0." + npField:
				return "p"
			case "P0." + idxField + ".nlist":
				return "nlist"
			}
			return ""
		}
		decide := func(cond ssa.Value, pth *Path) (bool, bool) {
			cnd, neg := stripNot(cond)
			bo, ok := cnd.(*ssa.BinOp)
			if !ok {
				return false, false
			}
			l, rr := symOf(bo.X), symOf(bo.Y)
			if l == "" || rr == "" {
				return false, false
			}
			rel := relOf(rank[l], rank[rr])
			var v bool
			switch bo.Op {
			case token.LSS:
				v = rel == LT
			case token.LEQ:
				v = rel != GT
			case token.GTR:
				v = rel == GT
			case token.GEQ:
				v = rel != LT
			case token.EQL:
				v = rel == EQ
			case token.NEQ:
				v = rel != EQ
			default:
				return false, false
			}
			return v != neg, true
		}
		// walk from the first block that compares p up to the phi's block
		var start *ssa.BasicBlock
		for _, b := range fn.Blocks {
			for _, in := range b.Instrs {
				if bo, ok := in.(*ssa.BinOp); ok && (symOf(bo.X) == "p" || symOf(bo.Y) == "p") && start == nil {
					start = b
				}
			}
		}
		if start == nil {
			bad = append(bad, "the requested probe count is never compared")
			break
		}
		paths, _ := enumPaths(start, walkCfg{Decide: decide, Stop: func(b *ssa.BasicBlock) bool { return b == stopBlock }, MaxVisits: 1, MaxPaths: 50})
		if start == stopBlock {
			// straight-line clamp (only builtins): the single empty path
			paths = []*Path{{Blocks: []*ssa.BasicBlock{start}, End: EndStop}}
		}
		// symbolic value of the bound on a path: phis resolved along it, min / max decided by the order in force
		var evalSym func(v ssa.Value, pth *Path, depth int) []string
		evalSym = func(v ssa.Value, pth *Path, depth int) []string {
			v = resolveOnPath(pth, v)
			if sy := symOf(v); sy != "" || depth > 4 {
				return []string{sy}
			}
			if call, ok := v.(*ssa.Call); ok {
				if b, isB := call.Call.Value.(*ssa.Builtin); isB && (b.Name() == "min" || b.Name() == "max") && len(call.Call.Args) == 2 {
					as, bs := evalSym(call.Call.Args[0], pth, depth+1), evalSym(call.Call.Args[1], pth, depth+1)
					var out []string
					for _, a := range as {
						for _, bb := range bs {
							if a == "" || bb == "" {
								out = append(out, "")
								continue
							}
							ra, rb := rank[a], rank[bb]
							switch {
							case ra == rb:
								out = append(out, a, bb)
							case (ra < rb) == (b.Name() == "min"):
								out = append(out, a)
							default:
								out = append(out, bb)
							}
						}
					}
					return out
				}
			}
			return []string{""}
		}
		want := "p"
		if rank["p"] <= rank["0"] || rank["p"] > rank["nlist"] {
			want = "nlist"
		} else if rank["p"] == rank["nlist"] {
			want = "p|nlist"
		}
		outs := map[string]bool{}
		for _, pth := range paths {
			if pth.End != EndStop {
				continue
			}
			for _, sy := range evalSym(bound, pth, 0) {
				outs[sy] = true
			}
		}
		got := strings.Join(sortedStrings(outs), "|")
		okRow := len(outs) > 0
		for o := range outs {
			if !wantAccepts(want, o) {
				okRow = false
			}
		}
		if !okRow {
			bad = append(bad, fmt.Sprintf("%s: probes = %s, specification says %s", orderString(rank, syms), got, want))
		}
	}
	if len(bad) > 0 {
		r.Bad(p+".ORD.probe", k.Name+":table", site, truncList(bad, 4))
	} else {
		r.Ok(p+".ORD.probe", k.Name+":table", site, fmt.Sprintf("%d weak orders of (p,0,nlist>0): effective probes = nlist if p≤0 or p>nlist, else p", rows))
	}
}

// ruleIVFAssign: Add stores the vector in exactly one list, the one FindNearestCentroidIndex selects for the preprocessed
// vector; trained typestate dominates every use of centroids / lists.
func ruleIVFAssign(r *Run, p string, k *vecKind) {
	w := r.W
	fn := k.Add
	name := w.Name(fn)
	r.Analysed(name)
	r.Doc(p+".ASSIGN", "a vector is stored in a cluster other than its nearest one (or in several)")
	r.Doc(p+".TRAINED", "an untrained index is used (nil centroids) instead of failing")
	c := NewCanon(w)
	site := w.Pos(fn.Pos()) + " " + name
	var stores []*ssa.Store
	allInstrs(fn, func(in ssa.Instruction) {
		st, ok := in.(*ssa.Store)
		if !ok || isLocalCell(st.Addr) {
			return
		}
		if strings.HasPrefix(c.S(st.Addr), "P0.lists[") {
			stores = append(stores, st)
		}
	})
	if len(stores) != 1 {
		r.Bad(p+".ASSIGN", k.Name+":one-list", site, fmt.Sprintf("%d stores into inverted lists, expected exactly one", len(stores)))
		return
	}
	st := stores[0]
	addr := c.S(st.Addr)
	wantIdx := "FindNearestCentroidIndex(get:vector(P1),P0.centroids,P0.distance)"
	okIdx := addr == "P0.lists["+wantIdx+"]"
	r.Check(okIdx, p+".ASSIGN", k.Name+":nearest", w.InstrPos(st)+" "+name, "list index = FindNearestCentroidIndex(vector, centroids, distance)", "list index is "+addr)
	// appended onto the current content of that same list, with the argument as element
	okApp := false
	if call, ok := st.Val.(*ssa.Call); ok {
		if b, ok := call.Call.Value.(*ssa.Builtin); ok && b.Name() == "append" {
			base := c.S(call.Call.Args[0])
			elems, _ := appendedElems(call)
			if base == addr && len(elems) == 1 {
				es := c.S(elems[0])
				if es == "P1" {
					okApp = true
				}
				if f, ok := litFields(elems[0]); ok && f["Node"] != nil && c.S(f["Node"]) == "P1" {
					okApp = true
				}
			}
			// the list being extended must be read after any purge (C06.REVIVE): not a stale copy
			if ld, ok := call.Call.Args[0].(*ssa.UnOp); ok {
				body, _ := flushBody(w, k.Flush, k.DelField)
				for _, pc := range callsIn(fn, func(cc *ssa.CallCommon) bool { return staticCallee(cc) == body && body != nil }) {
					if domInstr(ld, pc) || reachAvoid(fn, ld, func(in ssa.Instruction) bool { return in == pc }, nil) != nil {
						r.Bad(p+".ASSIGN", k.Name+":stale-list", w.InstrPos(ld)+" "+name, "the list that is extended was read before the purge of a re-added id: the purged list is overwritten with a stale copy")
					}
				}
			}
		}
	}
	r.Check(okApp, p+".ASSIGN", k.Name+":append", w.InstrPos(st)+" "+name, "lists[c] = append(lists[c], vector)", "the store is not an append of the argument onto that same list")
	// nearest index computed on the preprocessed vector: PreprocessInPlace dominates the call
	var pre, near ssa.Instruction
	allInstrs(fn, func(in ssa.Instruction) {
		if call, ok := in.(*ssa.Call); ok {
			if call.Call.IsInvoke() && call.Call.Method.Name() == "PreprocessInPlace" {
				pre = in
			}
			if strings.HasSuffix(calleeName(call.Common()), ".FindNearestCentroidIndex") {
				near = in
			}
		}
	})
	r.Check(pre != nil && near != nil && domInstr(pre, near), p+".ASSIGN", k.Name+":preprocessed", site, "the nearest centroid is chosen for the preprocessed vector", "the nearest centroid is chosen before the vector is preprocessed")
	// typestate
	for _, f := range []*ssa.Function{k.Add, k.Single} {
		cc := NewCanon(w)
		recv := "P0"
		if f == k.Single {
			recv = "P0." + indexFieldOf(k.SearchT, k.IndexT)
		}
		var test *ssa.If
		allInstrs(f, func(in ssa.Instruction) {
			if iff, ok := in.(*ssa.If); ok {
				cond, _ := stripNot(iff.Cond)
				if cc.S(cond) == recv+".trained" && test == nil {
					test = iff
				}
			}
		})
		fname := w.Name(f)
		if test == nil {
			r.Bad(p+".TRAINED", k.Name+":"+fname, w.Pos(f.Pos())+" "+fname, "no trained test")
			continue
		}
		_, neg := stripNot(test.Cond)
		untrained := test.Block().Succs[1]
		if neg {
			untrained = test.Block().Succs[0]
		}
		okErr := false
		if ret, ok := untrained.Instrs[len(untrained.Instrs)-1].(*ssa.Return); ok && classifyErr(ret) == ErrNonNil {
			okErr = true
		}
		if !okErr {
			// resolved per path (the error may be assigned first and returned after a join), and no use on the way
			okErr = onlyFailsFrom(untrained, func(in ssa.Instruction) bool {
				if u, ok := in.(*ssa.UnOp); ok && u.Op == token.MUL {
					s := cc.S(u.X)
					return s == recv+".centroids" || s == recv+".lists" || s == recv+".codebooks"
				}
				return false
			}) == nil
		}
		okDom := true
		allInstrs(f, func(in ssa.Instruction) {
			if u, ok := in.(*ssa.UnOp); ok && u.Op == token.MUL {
				s := cc.S(u.X)
				if (s == recv+".centroids" || s == recv+".lists" || s == recv+".codebooks") && !domInstr(test, in) {
					okDom = false
				}
			}
		})
		r.Check(okErr && okDom, p+".TRAINED", k.Name+":"+fname, w.InstrPos(test)+" "+fname, "untrained ⇒ error, before any use of centroids / lists / codebooks", fmt.Sprintf("trained test: returns error=%v, dominates all uses=%v", okErr, okDom))
	}
}

// ---------------------------------------------------------------- PQ / IVFPQ

func rulePQ(r *Run, p string) {
	w := r.W
	r.Doc(p+".WIDTH", "codeword indices ≥ 2^bits(code element) are truncated on encode: scores are wrong")
	r.Doc(p+".TRAINSIZE", "Train indexes more centroids than k-means returned: out-of-range panic")
	r.Doc(p+".TABLE", "encode and the distance tables slice the codebooks differently, or the lookup uses another subspace's code")
	r.Doc(p+".RESID", "the residual is taken against one cluster's centroid but the code is stored / scanned in another cluster")
	for _, kn := range []string{"pq", "ivfpq"} {
		k, err := kindByName(w, kn)
		if err != nil {
			r.Unres(p+".WIDTH", kn, err.Error())
			continue
		}
		// encode routine: the method returning []uint8 with an argmin
		var enc *ssa.Function
		for _, fn := range w.Funcs {
			if fn.Signature.Recv() != nil && types.Identical(fn.Signature.Recv().Type(), k.IndexT) && fn.Signature.Results().Len() == 1 &&
				strings.HasPrefix(tstr(fn.Signature.Results().At(0).Type(), nil), "[]uint") && fn.Signature.Params().Len() == 1 {
				enc = fn
			}
		}
		if enc == nil {
			r.Unres(p+".WIDTH", kn+":encode", "encode routine not found by role")
			continue
		}
		r.Analysed(w.Name(enc))
		// code element width from the conversion of the argmin index
		bits := 0
		allInstrs(enc, func(in ssa.Instruction) {
			if cv, ok := in.(*ssa.Convert); ok {
				if bt, ok := cv.Type().Underlying().(*types.Basic); ok {
					switch bt.Kind() {
					case types.Uint8:
						bits = 8
					case types.Uint16:
						bits = 16
					case types.Uint32:
						bits = 32
					}
				}
			}
		})
		// constructor bound
		ctorName := "New" + k.IndexName
		ctor := w.Fn(ctorName)
		if ctor == nil {
			r.Unres(p+".WIDTH", kn+":ctor", ctorName+" not found")
			continue
		}
		r.Analysed(ctorName)
		c := NewCanon(w)
		// the nbits parameter: the one shifted to compute Ksub (1 << nbits)
		nb := ""
		allInstrs(ctor, func(in ssa.Instruction) {
			if bo, ok := in.(*ssa.BinOp); ok && bo.Op == token.SHL && c.S(bo.X) == "c(1)" {
				nb = c.S(stripConvVal(bo.Y))
			}
		})
		maxBits := -1
		allInstrs(ctor, func(in ssa.Instruction) {
			bo, ok := in.(*ssa.BinOp)
			if !ok || nb == "" {
				return
			}
			cmp, neg, ok := normCmp(c, bo)
			if !ok || neg {
				return
			}
			// C < nbits  (nbits > C)  with an error on the true side
			if cmp.Op == token.LSS && cmp.R == nb && strings.HasPrefix(cmp.L, "c(") {
				if v, ok2 := constantIntOf(cmp.L); ok2 {
					for _, ref := range *bo.Referrers() {
						if iff, ok := ref.(*ssa.If); ok {
							if allPathsFail(iff.Block().Succs[0]) {
								maxBits = v
							}
						}
					}
				}
			}
			if cmp.Op == token.LEQ && cmp.R == nb && strings.HasPrefix(cmp.L, "c(") { // nbits >= C ⇒ error
				if v, ok2 := constantIntOf(cmp.L); ok2 {
					maxBits = v - 1
				}
			}
		})
		site := w.Pos(ctor.Pos()) + " " + ctorName
		r.Check(bits > 0 && maxBits > 0 && maxBits <= bits, p+".WIDTH", kn+":nbits", site,
			fmt.Sprintf("largest accepted code size %d bits ≤ %d bits of the code element type", maxBits, bits),
			fmt.Sprintf("constructor accepts up to %d bits but codes are stored in %d-bit elements (%s)", maxBits, bits, w.Name(enc)))
		// TRAINSIZE
		tr := w.Method(k.IndexT, "Train")
		if tr != nil {
			r.Analysed(w.Name(tr))
			ct := NewCanon(w)
			n := 0
			for _, call := range callsIn(tr, func(cc *ssa.CallCommon) bool {
				nm := calleeName(cc)
				return strings.HasSuffix(nm, ".KMeans") || strings.HasSuffix(nm, ".KMeansSubspace")
			}) {
				n++
				K := ct.S(call.Common().Args[1])
				guarded := false
				allInstrs(tr, func(in ssa.Instruction) {
					iff, ok := in.(*ssa.If)
					if !ok || !domInstr(iff, call) {
						return
					}
					bo, ok := iff.Cond.(*ssa.BinOp)
					if !ok {
						return
					}
					cmp, neg, ok := normCmp(ct, bo)
					if !ok || neg || cmp.Op != token.LSS || cmp.L != "len(P1)" {
						return
					}
					if cmp.R == K || strings.HasPrefix(cmp.R, "("+K+"*c(") {
						// the rejection: every way on from the true branch ends in an error return (directly, or through
						// the result variable of an inlined validation helper)
						if allPathsFail(iff.Block().Succs[0]) {
							guarded = true
						}
					}
				})
				r.Check(guarded, p+".TRAINSIZE", fmt.Sprintf("%s:train:%s#%d", kn, K, n), w.InstrPos(call)+" "+w.Name(tr),
					"k-means for K = "+K+" is dominated by `len(vectors) < K ⇒ error` (k-means returns min(K,n) centroids)", "k-means is asked for "+K+" centroids without a dominating `len(vectors) < "+K+"` rejection, and Train indexes all "+K+" of them")
			}
		}
		// TABLE: codebook slicing expressions agree between encode and the table construction
		slices := map[string][]string{}
		collect := func(fn *ssa.Function, recv string) {
			cc := NewCanon(w)
			allInstrs(fn, func(in ssa.Instruction) {
				sl, ok := in.(*ssa.Slice)
				if !ok || sl.Low == nil || sl.High == nil {
					return
				}
				xs := cc.S(sl.X)
				if !strings.HasPrefix(xs, recv+".codebooks[") {
					return
				}
				norm := func(s string) string {
					// loop variables → #
					out := s
					for strings.Contains(out, "phi@") {
						i := strings.Index(out, "phi@")
						j := i
						for j < len(out) && (isIdentChar(out[j]) || out[j] == '@' || out[j] == '.') {
							j++
						}
						out = out[:i] + "#" + out[j:]
					}
					return strings.ReplaceAll(out, recv, "idx")
				}
				side := "search"
				if recv == "P0" {
					side = "encode"
				}
				// the loop's index value is # whether it comes from a counted loop (the phi) or a range loop (phi+1)
				var pr func(v ssa.Value) string
				pr = func(v ssa.Value) string {
					switch x := v.(type) {
					case *ssa.BinOp:
						if isRangeIndex(x) {
							return "#"
						}
						return "(" + pr(x.X) + x.Op.String() + pr(x.Y) + ")"
					case *ssa.Phi:
						return "#"
					case *ssa.Convert:
						return pr(x.X)
					}
					return norm(cc.S(v))
				}
				slices[side] = append(slices[side], pr(sl.Low)+":"+pr(sl.High))
			})
		}
		for _, fn := range sameRecvCallees(w, enc, 2) {
			collect(fn, "P0")
		}
		idxField := indexFieldOf(k.SearchT, k.IndexT)
		for _, fn := range sameRecvCallees(w, k.Single, 2) {
			collect(fn, "P0."+idxField)
		}
		var forms []string
		for _, v := range slices {
			forms = append(forms, v...)
		}
		forms = dedup(forms)
		r.Check(len(slices) >= 2 && len(forms) == 1 && forms[0] == "(#*idx.dsub):((#+c(1))*idx.dsub)", p+".TABLE", kn+":codebook-slices", w.Pos(enc.Pos())+" "+w.Name(enc),
			fmt.Sprintf("codeword k of a subspace is codebooks[m][k·dsub:(k+1)·dsub] in all %d functions", len(slices)), fmt.Sprintf("codebook slicing differs: %v", slices))
		// lookup: Σ_m table[m][code[m]] with one m
		okLook := false
		nLook, partial := 0, ""
		for _, fn := range sameRecvCallees(w, k.Single, 2) {
			cc := NewCanon(w)
			allInstrs(fn, func(in ssa.Instruction) {
				ia, ok := in.(*ssa.IndexAddr)
				if !ok {
					return
				}
				// X[m][int(code[m])] with the very same index value m (counted or range loop)
				if row, isLd := ia.X.(*ssa.UnOp); isLd && row.Op == token.MUL {
					if ria, isIA := row.X.(*ssa.IndexAddr); isIA && tstr(ria.X.Type(), nil) == "[][]float32" {
						var inner ssa.Value = ia.Index
						for {
							if cv, isCv := inner.(*ssa.Convert); isCv {
								inner = cv.X
								continue
							}
							break
						}
						if cld, isCld := inner.(*ssa.UnOp); isCld && cld.Op == token.MUL {
							if cia, isCIA := cld.X.(*ssa.IndexAddr); isCIA && cia.Index == ria.Index {
								if _, isPhi := ria.Index.(*ssa.Phi); isPhi || isRangeIndex(ria.Index) {
									okLook = true
								}
							}
						}
						// every sub-space contributes: the row index is the variable of a loop that visits 0, 1, …, M−1
						// (a range loop, or a count from 0 by 1 up to M / the number of tables / the code length)
						isCodeLookup := false
						if cld, isCld := inner.(*ssa.UnOp); isCld && cld.Op == token.MUL {
							if cia, isCIA := cld.X.(*ssa.IndexAddr); isCIA {
								if ts := tstr(cia.X.Type(), nil); ts == "[]uint8" || ts == "[]byte" {
									isCodeLookup = true
								}
							}
						}
						if !isCodeLookup {
							return
						}
						nLook++
						full := isRangeIndex(ria.Index)
						if ph, isPhi := ria.Index.(*ssa.Phi); isPhi && !full {
							if init, bound, isCounted := countedLoop(ph); isCounted && init == 0 {
								bs := cc.S(bound)
								if strings.HasSuffix(bs, ".M") || strings.HasPrefix(bs, "len(") {
									full = true
								}
							}
						}
						if !full {
							partial = w.InstrPos(ia)
						}
					}
				}
				s := cc.S(ia)
				// X[m][uint8→int(code[m])]
				if i := strings.Index(s, "]["); i > 0 {
					outer := s[:i+1]
					inner := s[i+1:]
					if m, ok := lastIndexExpr(outer); ok && strings.Contains(inner, "["+m+"]") && strings.HasPrefix(m, "phi@") {
						okLook = true
					}
				}
			})
		}
		r.Check(okLook, p+".TABLE", kn+":lookup", w.Pos(k.Single.Pos())+" "+w.Name(k.Single), "distance = Σ_m table[m][code[m]] with the same m", "table lookup does not pair table[m] with code[m]")
		if nLook > 0 {
			r.Check(partial == "", p+".TABLE", kn+":lookup:every-subspace", w.Pos(k.Single.Pos())+" "+w.Name(k.Single), "the lookups are indexed by the variable of a loop over all M sub-spaces",
				"the table lookup at "+partial+" is not indexed by the variable of a loop that counts 0, 1, …, M−1: some sub-space may not contribute to the distance")
		}
	}
	// RESID (ivfpq)
	if k, err := kindByName(w, "ivfpq"); err == nil {
		fn := k.Add
		c := NewCanon(w)
		var near ssa.Value
		allInstrs(fn, func(in ssa.Instruction) {
			if call, ok := in.(*ssa.Call); ok && strings.HasSuffix(calleeName(call.Common()), ".FindNearestCentroidIndex") {
				near = call
			}
		})
		okCent, okList := false, false
		allInstrs(fn, func(in ssa.Instruction) {
			if ia, ok := in.(*ssa.IndexAddr); ok && near != nil && ia.Index == near {
				switch c.S(ia.X) {
				case "P0.centroids":
					okCent = true
				case "P0.lists":
					okList = true
				}
			}
		})
		r.Check(okCent && okList, p+".RESID", "ivfpq:add:same-cluster", w.Pos(fn.Pos())+" "+w.Name(fn), "the residual's centroid and the target list are indexed by the same nearest-centroid value", fmt.Sprintf("centroid by nearest=%v, list by nearest=%v", okCent, okList))
		// search side
		fs := k.Single
		cs := NewCanon(w)
		idx := "P0." + indexFieldOf(k.SearchT, k.IndexT)
		var cent, list []string
		allInstrs(fs, func(in ssa.Instruction) {
			if ia, ok := in.(*ssa.IndexAddr); ok {
				switch cs.S(ia.X) {
				case idx + ".centroids":
					if !isRangeIndex(ia.Index) {
						cent = append(cent, cs.S(ia.Index))
					}
				case idx + ".lists":
					list = append(list, cs.S(ia.Index))
				}
			}
		})
		cent, list = dedup(cent), dedup(list)
		r.Check(len(cent) == 1 && len(list) == 1 && cent[0] == list[0], p+".RESID", "ivfpq:search:same-cluster", w.Pos(fs.Pos())+" "+w.Name(fs), "query residual centroid and scanned list use the same ranked cluster index", fmt.Sprintf("centroid index %v vs list index %v", cent, list))
		// query residual = preprocessed query − centroid, tables built from it
		okRes := false
		allInstrs(fs, func(in ssa.Instruction) {
			if st, ok := in.(*ssa.Store); ok {
				if bo, ok := st.Val.(*ssa.BinOp); ok && bo.Op == token.SUB {
					l, rr := cs.S(bo.X), cs.S(bo.Y)
					if strings.Contains(l, "Distance.Preprocess(") && strings.Contains(rr, idx+".centroids[") {
						okRes = true
					}
				}
			}
		})
		r.Check(okRes, p+".RESID", "ivfpq:search:residual", w.Pos(fs.Pos())+" "+w.Name(fs), "query residual = preprocessed query − cluster centroid", "query residual is not (preprocessed query − centroid)")
	}
}

func stripConvVal(v ssa.Value) ssa.Value {
	for {
		switch x := v.(type) {
		case *ssa.Convert:
			v = x.X
		case *ssa.ChangeType:
			v = x.X
		default:
			return v
		}
	}
}

func constantIntOf(s string) (int, bool) {
	if !strings.HasPrefix(s, "c(") || !strings.HasSuffix(s, ")") {
		return 0, false
	}
	n := 0
	for _, ch := range s[2 : len(s)-1] {
		if ch < '0' || ch > '9' {
			return 0, false
		}
		n = n*10 + int(ch-'0')
	}
	return n, true
}

func sortedFns(w *World, fns []*ssa.Function) []*ssa.Function {
	sort.Slice(fns, func(i, j int) bool { return w.Name(fns[i]) < w.Name(fns[j]) })
	return fns
}

// ruleIVFAssignTrained: the typestate part of ruleIVFAssign for kinds whose Add does not append the bare argument.
func ruleIVFAssignTrained(r *Run, p string, k *vecKind) {
	w := r.W
	r.Doc(p+".TRAINED", "an untrained index is used instead of failing")
	for _, f := range []*ssa.Function{k.Add, k.Single} {
		cc := NewCanon(w)
		recv := "P0"
		if f == k.Single {
			recv = "P0." + indexFieldOf(k.SearchT, k.IndexT)
		}
		var test *ssa.If
		allInstrs(f, func(in ssa.Instruction) {
			if iff, ok := in.(*ssa.If); ok {
				cond, _ := stripNot(iff.Cond)
				if cc.S(cond) == recv+".trained" && test == nil {
					test = iff
				}
			}
		})
		fname := w.Name(f)
		if test == nil {
			r.Bad(p+".TRAINED", k.Name+":"+fname, w.Pos(f.Pos())+" "+fname, "no trained test")
			continue
		}
		_, neg := stripNot(test.Cond)
		untrained := test.Block().Succs[1]
		if neg {
			untrained = test.Block().Succs[0]
		}
		okErr := false
		if ret, ok := untrained.Instrs[len(untrained.Instrs)-1].(*ssa.Return); ok && classifyErr(ret) == ErrNonNil {
			okErr = true
		}
		if !okErr {
			okErr = onlyFailsFrom(untrained, nil) == nil
		}
		r.Check(okErr, p+".TRAINED", k.Name+":"+fname, w.InstrPos(test)+" "+fname, "untrained ⇒ error", "the untrained outcome does not return an error")
	}
}

// ruleHNSWDefaults: for every sign pattern of (M, efConstruction, efSearch) the constructor stores positive values
// (a zero efSearch degenerates the layer search to a beam of width 1).
func ruleHNSWDefaults(r *Run, rule string) {
	w := r.W
	fn := w.Fn("NewHNSWIndex")
	r.Doc(rule, "a defaulted construction parameter stays 0: the search beam degenerates and recall collapses")
	if fn == nil {
		r.Unres(rule, "hnsw:ctor", "NewHNSWIndex not found")
		return
	}
	r.Analysed("NewHNSWIndex")
	site := w.Pos(fn.Pos()) + " NewHNSWIndex"
	// int parameters after dim
	var ps []*ssa.Parameter
	for _, p := range fn.Params[1:] {
		if bt, ok := p.Type().Underlying().(*types.Basic); ok && bt.Kind() == types.Int {
			ps = append(ps, p)
		}
	}
	if len(ps) != 3 {
		r.Und(rule, "hnsw:ctor:params", site, fmt.Sprintf("%d int parameters after dim, expected 3", len(ps)))
		return
	}
	var bad []string
	states := 0
	for mask := 0; mask < 8; mask++ {
		pos := map[ssa.Value]bool{}
		for i, p := range ps {
			pos[p] = mask&(1<<i) != 0
		}
		decide := func(cond ssa.Value, pth *Path) (bool, bool) {
			cnd, neg := stripNot(cond)
			bo, ok := cnd.(*ssa.BinOp)
			if !ok {
				return false, false
			}
			// value of the left operand on this path
			isPos, known := false, false
			var val func(v ssa.Value, d int) (bool, bool)
			val = func(v ssa.Value, d int) (bool, bool) {
				if d > 6 {
					return false, false
				}
				if p, ok := pos[v]; ok {
					return p, true
				}
				switch x := v.(type) {
				case *ssa.Const:
					if x.Value != nil {
						if s := x.Value.ExactString(); s != "" {
							return !strings.HasPrefix(s, "-") && s != "0", true
						}
					}
				case *ssa.Phi:
					at := -1
					for j, bb := range pth.Blocks {
						if bb == x.Block() {
							at = j
						}
					}
					if at >= 0 {
						if e := pth.PhiEdgeAt(x, at); e != nil {
							return val(e, d+1)
						}
					}
				}
				return false, false
			}
			isPos, known = val(bo.X, 0)
			if !known || !isZeroConst(bo.Y) {
				return false, false
			}
			var v bool
			switch bo.Op {
			case token.LEQ:
				v = !isPos
			case token.GTR:
				v = isPos
			case token.LSS:
				v = false
				if !isPos {
					return false, false // ≤0: could be 0 or negative
				}
			default:
				return false, false
			}
			return v != neg, true
		}
		paths, _ := enumPaths(fn.Blocks[0], walkCfg{Decide: decide, MaxVisits: 1, MaxPaths: 400})
		for _, pth := range paths {
			if pth.End != EndReturn || classifyErr(pth.Ret) != ErrNil {
				continue
			}
			states++
			// the literal's fields
			v := resultValue(pth.Ret, 0)
			fields, ok := litFields(v)
			if !ok {
				bad = append(bad, "constructor result is not a struct literal")
				continue
			}
			for _, f := range []string{"M", "efConstruction", "efSearch"} {
				fv := fields[f]
				var val func(v ssa.Value, d int) (bool, bool)
				val = func(v ssa.Value, d int) (bool, bool) {
					if d > 6 || v == nil {
						return false, false
					}
					if p, ok := pos[v]; ok {
						return p, true
					}
					switch x := v.(type) {
					case *ssa.Const:
						if x.Value != nil {
							s := x.Value.ExactString()
							return !strings.HasPrefix(s, "-") && s != "0", true
						}
					case *ssa.Phi:
						at := -1
						for j, bb := range pth.Blocks {
							if bb == x.Block() {
								at = j
							}
						}
						if at >= 0 {
							if e := pth.PhiEdgeAt(x, at); e != nil {
								return val(e, d+1)
							}
						}
					}
					return false, false
				}
				p, known := val(fv, 0)
				if !known || !p {
					bad = append(bad, fmt.Sprintf("M>0:%v efConstruction>0:%v efSearch>0:%v ⇒ stored %s is not provably positive", mask&1 != 0, mask&2 != 0, mask&4 != 0, f))
				}
			}
		}
	}
	bad = dedup(bad)
	if len(bad) > 0 {
		r.Bad(rule, "hnsw:ctor:defaults", site, truncList(bad, 4))
	} else {
		r.Ok(rule, "hnsw:ctor:defaults", site, fmt.Sprintf("%d (sign pattern, path) states: stored M, efConstruction and efSearch are positive in all of them", states))
	}
}

// ruleSubspaceKernel: the per-subspace distance that PQ / IVFPQ use — when choosing a codeword (encode) and when filling the
// query's distance tables — is the squared L2 distance of the two sub-vectors, written as one accumulator over a range of
// the sub-vector, acc ← acc + (x−y)², or a call to a package function that is exactly that. An unrolled or otherwise
// restructured kernel is not recognised (undecided): the rule prefers to fail over accepting arithmetic it cannot read.
func ruleSubspaceKernel(r *Run, rule string) {
	w := r.W
	r.Doc(rule, "codeword choice or table entries are not the squared L2 distance of the sub-vectors: ranks by something else than the asymmetric distance")
	isKernelFn := func(g *ssa.Function) bool {
		if g == nil || g.Pkg != w.SPkg || g.Signature.Results().Len() != 1 || !isFloat32(g.Signature.Results().At(0).Type()) {
			return false
		}
		// a plain function of the two vectors, or a method of a distance implementation (receiver first)
		names := map[int]string{0: "x", 1: "y"}
		switch {
		case len(g.Params) == 2 && g.Signature.Recv() == nil:
		case len(g.Params) == 3 && g.Signature.Recv() != nil:
			names = map[int]string{1: "x", 2: "y"}
		default:
			return false
		}
		accs := accumulators(w, g, names)
		if len(accs) != 1 || accs[0].Init != "0" || accs[0].Update != eAdd("acc", eMul(eSub("x", "y"), eSub("x", "y"))) {
			return false
		}
		for _, ret := range returnsOf(g) {
			if ret.Results[0] != ssa.Value(accs[0].Phi) {
				return false
			}
		}
		return sameIndexOperands(w, g, accs[0].Phi)
	}
	isSqL2 := func(fn *ssa.Function, v ssa.Value) (bool, string) {
		for {
			if cv, ok := v.(*ssa.Convert); ok {
				v = cv.X
				continue
			}
			break
		}
		if call, ok := v.(*ssa.Call); ok {
			if g := staticCallee(call.Common()); g != nil && isKernelFn(g) {
				r.Analysed(w.Name(g))
				return true, "call of " + w.Name(g) + " (Σ (x−y)², checked)"
			}
			return false, "call of " + shortCallee(call.Common())
		}
		ph, ok := v.(*ssa.Phi)
		if !ok {
			return false, NewCanon(w).S(v)
		}
		// loop accumulator: init 0, update acc + (a−b)² with a, b element loads
		var back, init ssa.Value
		for i, e := range ph.Edges {
			if ph.Block().Dominates(ph.Block().Preds[i]) {
				back = e
			} else {
				init = e
			}
		}
		if back == nil || init == nil {
			return false, "not a loop accumulator"
		}
		ex := NewExpr(w)
		cn := NewCanon(w)
		ex.Leaf = func(x ssa.Value) (string, bool) {
			if x == ssa.Value(ph) {
				return "acc", true
			}
			if u, ok := x.(*ssa.UnOp); ok && u.Op == token.MUL {
				if ia, ok := u.X.(*ssa.IndexAddr); ok {
					return "e:" + cn.S(ia.X) + "@" + cn.S(ia.Index), true
				}
			}
			return "", false
		}
		upd, in0 := ex.S(back), ex.S(init)
		if in0 != "0" {
			return false, "accumulator starts at " + in0
		}
		// add(acc,mul(sub(A,B),sub(A,B))) with A, B elements at the same index of two different slices
		const pre = "add(acc,mul(sub("
		if !strings.HasPrefix(upd, pre) {
			return false, upd
		}
		rest := strings.TrimSuffix(strings.TrimPrefix(upd, "add(acc,mul("), "))")
		parts := strings.SplitN(rest, "),sub(", 2)
		if len(parts) != 2 || strings.TrimPrefix(parts[0], "sub(") != strings.TrimSuffix(parts[1], ")") {
			return false, upd
		}
		ab := strings.SplitN(strings.TrimPrefix(parts[0], "sub("), ",e:", 2)
		if len(ab) != 2 {
			return false, upd
		}
		a, b := strings.TrimPrefix(ab[0], "e:"), ab[1]
		ai, bi := strings.LastIndex(a, "@"), strings.LastIndex(b, "@")
		if ai < 0 || bi < 0 || a[ai:] != b[bi:] || a[:ai] == b[:bi] {
			return false, upd + " (operands are not elements at one index of two slices)"
		}
		return true, "Σ (a[i]−b[i])²"
	}
	n := 0
	check := func(fn *ssa.Function, v ssa.Value, at ssa.Instruction, what string) {
		n++
		ok, how := isSqL2(fn, v)
		key := fmt.Sprintf("kernel:%s:%s", what, w.Name(fn))
		site := w.InstrPos(at) + " " + w.Name(fn)
		if ok {
			r.Ok(rule, key, site, what+" distance is the squared L2 of the sub-vectors: "+how)
		} else {
			r.Und(rule, key, site, what+" distance is not recognised as the squared L2 of the two sub-vectors: "+short(how, 140))
		}
	}
	// encode: the value compared with the running minimum
	for _, fn := range annEncodeFns(w) {
		for _, M := range argminHeaders(fn) {
			for _, ref := range *M.Referrers() {
				bo, ok := ref.(*ssa.BinOp)
				if !ok {
					continue
				}
				var d ssa.Value
				switch {
				case bo.Y == ssa.Value(M) && (bo.Op == token.LSS || bo.Op == token.LEQ):
					d = bo.X
				case bo.X == ssa.Value(M) && (bo.Op == token.GTR || bo.Op == token.GEQ):
					d = bo.Y
				}
				if d != nil {
					check(fn, d, bo, "encode")
				}
			}
		}
	}
	// tables: float32 stores into a two-level indexed local table in the per-query routines
	for _, kn := range []string{"pq", "ivfpq"} {
		k, err := kindByName(w, kn)
		if err != nil {
			continue
		}
		for _, fn := range sameRecvCallees(w, k.Single, 2) {
			allInstrs(fn, func(in ssa.Instruction) {
				st, ok := in.(*ssa.Store)
				if !ok || !isFloat32(st.Val.Type()) {
					return
				}
				ia, ok := st.Addr.(*ssa.IndexAddr)
				if !ok {
					return
				}
				if !isTableRow(ia.X) {
					return
				}
				check(fn, st.Val, in, "table")
			})
		}
	}
	if n < 4 {
		r.add(rule, "kernel:floor", "-", fmt.Sprintf("%d sub-space distance sites found, floor is 4 (encode and table of PQ and IVFPQ)", n), Floor)
	}
}

// isTableRow: v is a row of a local two-level table: tables[m] loaded from a [][]float32, or a []float32 made in place and
// stored into an element of a [][]float32 (`row := make([]float32, K); tables[m] = row; row[k] = d`).
func isTableRow(v ssa.Value) bool {
	if ld, ok := v.(*ssa.UnOp); ok && ld.Op == token.MUL {
		if ia, ok := ld.X.(*ssa.IndexAddr); ok && tstr(ia.X.Type(), nil) == "[][]float32" {
			return true
		}
		return false
	}
	if _, isSl := v.(*ssa.Slice); isSl {
		// a row carved out of one backing array
		if v.Referrers() != nil {
			for _, ref := range *v.Referrers() {
				if st, ok := ref.(*ssa.Store); ok && st.Val == v {
					if ia, ok := st.Addr.(*ssa.IndexAddr); ok && tstr(ia.X.Type(), nil) == "[][]float32" {
						return true
					}
				}
			}
		}
		return false
	}
	if mk, ok := v.(*ssa.MakeSlice); ok && mk.Referrers() != nil {
		for _, ref := range *mk.Referrers() {
			if st, ok := ref.(*ssa.Store); ok && st.Val == ssa.Value(mk) {
				if ia, ok := st.Addr.(*ssa.IndexAddr); ok && tstr(ia.X.Type(), nil) == "[][]float32" {
					return true
				}
			}
		}
	}
	return false
}

// liveGuardedPhi: every operand of ph that is not a zero constant (the "nothing found yet" value) or ph itself comes from a
// block on the not-deleted side of a test Contains(del, operand).
func liveGuardedPhi(c *Canon, ph *ssa.Phi, del string, depth int, seen map[*ssa.Phi]bool) bool {
	if seen[ph] {
		return true
	}
	seen[ph] = true
	if depth > 4 {
		return false
	}
	some := false
	for i, e := range ph.Edges {
		if e == ssa.Value(ph) || isZeroConst(e) {
			continue
		}
		if inner, isPhi := e.(*ssa.Phi); isPhi {
			if !liveGuardedPhi(c, inner, del, depth+1, seen) {
				return false
			}
			some = true
			continue
		}
		val := c.S(e)
		pred := ph.Block().Preds[i]
		guarded := false
		for b := pred; b != nil && !guarded; b = b.Idom() {
			d := b.Idom()
			if d == nil {
				break
			}
			iff, isIf := d.Instrs[len(d.Instrs)-1].(*ssa.If)
			if !isIf {
				continue
			}
			cond, neg := stripNot(iff.Cond)
			call, isCall := cond.(*ssa.Call)
			if !isCall || calleeName(call.Common()) != roaringBitmap+"Contains" || c.S(call.Call.Args[0]) != del || c.S(call.Call.Args[1]) != val {
				continue
			}
			live := d.Succs[1]
			if neg {
				live = d.Succs[0]
			}
			if (live == b || live.Dominates(b)) && len(live.Preds) == 1 {
				guarded = true
			}
		}
		if !guarded {
			return false
		}
		some = true
	}
	return some
}

// blockReaches: to is reachable from from in the control-flow graph.
func blockReaches(from, to *ssa.BasicBlock) bool {
	seen := map[*ssa.BasicBlock]bool{}
	stack := []*ssa.BasicBlock{from}
	for len(stack) > 0 {
		b := stack[len(stack)-1]
		stack = stack[:len(stack)-1]
		if b == to {
			return true
		}
		if seen[b] {
			continue
		}
		seen[b] = true
		stack = append(stack, b.Succs...)
	}
	return false
}

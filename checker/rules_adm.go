package main

// rules_adm.go — admission analysis of candidate loops (engine ADM, DESIGN 3.2).
// The loop body is evaluated under every state of (DEL, SKIP, weak order of {0, thr, dist});
// since the body touches these quantities only through the recognised tests, the table is
// exhaustive for all inputs.

import (
	"fmt"
	"go/constant"
	"go/token"
	"go/types"
	"regexp"
	"sort"
	"strings"

	"golang.org/x/tools/go/ssa"
)

type admSpec struct {
	DEL, SKIP, THR bool // which atoms the kind must apply in this loop
}

// builderField finds the field of the search-builder struct that method `with` stores its argument into.
func builderField(w *World, searchT types.Type, with string) string {
	fn := w.Method(searchT, with)
	if fn == nil {
		return ""
	}
	name := ""
	allInstrs(fn, func(in ssa.Instruction) {
		if st, ok := in.(*ssa.Store); ok {
			// the stored field, possibly promoted through embedded structs: P0.f or P0.embedded.f
			var path []string
			var v ssa.Value = st.Addr
			for {
				fa, ok := v.(*ssa.FieldAddr)
				if !ok {
					break
				}
				path = append([]string{fieldName(fa.X.Type(), fa.Field)}, path...)
				v = fa.X
			}
			if len(path) > 0 && v == ssa.Value(fn.Params[0]) {
				name = strings.Join(path, ".")
			}
		}
	})
	return name
}

// indexFieldOf finds the field of the search struct that holds the index (by type).
func indexFieldOf(searchT, indexT types.Type) string {
	p, ok := searchT.(*types.Pointer)
	if !ok {
		return ""
	}
	st, ok := p.Elem().Underlying().(*types.Struct)
	if !ok {
		return ""
	}
	for i := 0; i < st.NumFields(); i++ {
		if types.Identical(st.Field(i).Type(), indexT) {
			return roleFieldName(p.Elem(), st.Field(i).Name())
		}
	}
	return ""
}

type scanSink struct {
	Call  *ssa.Call
	Elem  ssa.Value // VectorNode-typed field value of the appended literal
	Dist  ssa.Value // float32-typed field value
	ElemF string
	DistF string
}

// findScanSinks finds `append(results, T{vector: e, distance: d})` sites.
func findScanSinks(fn *ssa.Function) []scanSink {
	var out []scanSink
	// admissions inside function literals of the routine (a callback handed to an iterator, a goroutine) count too: a
	// second admission path the rules cannot follow must not go unnoticed behind a well-formed first one
	var fns []*ssa.Function
	var collect func(f *ssa.Function)
	collect = func(f *ssa.Function) {
		fns = append(fns, f)
		for _, af := range f.AnonFuncs {
			collect(af)
		}
	}
	collect(fn)
	for _, f := range fns {
		findScanSinksIn(f, &out)
	}
	return dropCopySinks(out)
}

func findScanSinksIn(fn *ssa.Function, outp *[]scanSink) {
	out := *outp
	defer func() { *outp = out }()
	allInstrs(fn, func(in ssa.Instruction) {
		c, ok := isBuiltinCall(in, "append")
		if !ok {
			return
		}
		elems, ok := appendedElems(c)
		if !ok || len(elems) != 1 {
			return
		}
		fields, ok := litFields(elems[0])
		if !ok {
			return
		}
		s := scanSink{Call: c}
		for name, v := range fields {
			switch {
			case namedTypeName(v.Type()) == "VectorNode":
				s.Elem, s.ElemF = v, name
			case isFloat32(v.Type()):
				s.Dist, s.DistF = v, name
			}
		}
		if s.Elem != nil && s.Dist != nil {
			out = append(out, s)
		}
	})
}

func dropCopySinks(out []scanSink) []scanSink {
	if len(out) > 1 {
		// a loop that copies the admitted candidates into the result type with append (`for _, r := range results[:k] {
		// final = append(final, VectorResult{Node: r.vector, Score: r.distance}) }`) is not an admission: its element is
		// read from the slice another sink fills
		var keep []scanSink
		for i, b := range out {
			copyOf := false
			base := elemBaseOf(b.Elem)
			for j, a := range out {
				if i == j || base == nil {
					continue
				}
				if cell := sinkCell(a); cell != nil && cellOf(base) == cell {
					copyOf = true
				}
				if derivesFromValue(base, a.Call, 0) {
					copyOf = true
				}
			}
			if !copyOf {
				keep = append(keep, b)
			}
		}
		if len(keep) > 0 {
			out = keep
		}
	}
	return out
}

// elemBaseOf: v is X[i].f / X[a:b][i].f (or X[i]); returns X.
func elemBaseOf(v ssa.Value) ssa.Value {
	for d := 0; d < 8; d++ {
		switch x := v.(type) {
		case *ssa.UnOp:
			if x.Op != token.MUL {
				return nil
			}
			if a, ok := x.X.(*ssa.Alloc); ok {
				// a copy of the element in an addressable local (r := results[i])
				if sv := singleStore(a); sv != nil {
					v = sv
					continue
				}
				return nil
			}
			v = x.X
		case *ssa.Alloc:
			sv := singleStore(x)
			if sv == nil {
				return nil
			}
			v = sv
		case *ssa.FieldAddr:
			v = x.X
		case *ssa.Field:
			v = x.X
		case *ssa.IndexAddr:
			b := x.X
			if sl, ok := b.(*ssa.Slice); ok {
				b = sl.X
			}
			return b
		case *ssa.Index:
			return x.X
		default:
			return nil
		}
	}
	return nil
}

// derivesFromValue: v is from, or a phi / re-slice of it.
func derivesFromValue(v, from ssa.Value, depth int) bool {
	if v == from {
		return true
	}
	if depth > 6 {
		return false
	}
	switch x := v.(type) {
	case *ssa.Phi:
		for _, e := range x.Edges {
			if e != v && derivesFromValue(e, from, depth+1) {
				return true
			}
		}
	case *ssa.Slice:
		return derivesFromValue(x.X, from, depth+1)
	}
	return false
}

func isZeroConst(v ssa.Value) bool {
	c, ok := v.(*ssa.Const)
	if !ok || c.Value == nil {
		return false
	}
	switch c.Value.Kind() {
	case constant.Int, constant.Float:
		return constant.Sign(c.Value) == 0
	}
	return false
}

// ruleScanADM checks the admission table of the candidate loop of a per-query search routine.
func ruleScanADM(r *Run, rule string, k *vecKind, spec admSpec) {
	w := r.W
	fn := k.Single
	name := w.Name(fn)
	r.Analysed(name)
	r.Doc(rule, "a deleted / filtered-out / over-threshold vector is returned, or an eligible one is dropped")
	sinks := findScanSinks(fn)
	if len(sinks) != 1 {
		r.Unres(rule, k.Name+":sink", fmt.Sprintf("%s: expected exactly one admission sink append(results, {node, distance}), found %d", name, len(sinks)))
		return
	}
	sink := sinks[0]
	loops := loopsOf(fn)
	loop := innermostLoop(loops, sink.Call.Block())
	site := w.InstrPos(sink.Call) + " " + name
	if loop == nil {
		r.Bad(rule, k.Name+":loop", site, "admission sink is not inside a candidate loop")
		return
	}
	idxField := indexFieldOf(k.SearchT, k.IndexT)
	docField := builderField(w, k.SearchT, "WithDocumentIDs")
	thrField := builderField(w, k.SearchT, "WithThreshold")
	if idxField == "" || docField == "" || thrField == "" {
		r.Unres(rule, k.Name+":fields", fmt.Sprintf("%s: builder fields unresolved (index=%q docIDs=%q threshold=%q)", k.SearchName, idxField, docField, thrField))
		return
	}
	delCanon := "P0." + idxField + "." + k.DelField
	filterCanon := "NewDocumentFilter(P0." + docField + ")"
	thrCanon := "P0." + thrField

	c := NewCanon(w)
	elemC := c.S(sink.Elem)
	distC := c.S(sink.Dist)
	// ids that denote "the admitted element"
	ids := map[string]bool{"get:id(" + elemC + ")": true}
	if strings.HasSuffix(elemC, "].VectorNode") { // nodes[X].VectorNode — X is the id
		if x, ok := lastIndexExpr(strings.TrimSuffix(elemC, ".VectorNode")); ok {
			ids[x] = true
		}
	}
	// embedded: get:id on the embedding struct (cv.Node.ID() / node.VectorNode.ID())
	isElemID := func(s string) bool {
		if ids[s] {
			return true
		}
		return false
	}

	type atomKind int
	const (
		aUnknown atomKind = iota
		aDEL
		aSKIP
		aCMP
		aEMPTY // the soft-delete bitmap is empty (⇒ no element is soft-deleted)
	)
	type atom struct {
		kind atomKind
		neg  bool
		cmp  Cmp
		note string
	}
	var problems []string
	var classifyWith func(cond ssa.Value, S func(ssa.Value) string) atom
	classify := func(cond ssa.Value) atom { return classifyWith(cond, c.S) }
	classifyWith = func(cond ssa.Value, S func(ssa.Value) string) atom {
		neg := false
		for {
			u, ok := cond.(*ssa.UnOp)
			if !ok || u.Op != token.NOT {
				break
			}
			neg = !neg
			cond = u.X
		}
		switch x := cond.(type) {
		case *ssa.Call:
			cc := x.Common()
			switch calleeName(cc) {
			case roaringBitmap + "IsEmpty":
				// evaluated while the index lock is held (or by a routine whose caller holds it): the answer stays true
				// for the whole scan
				if S(cc.Args[0]) == delCanon && emptyUnderLock(w, fn, x) {
					return atom{kind: aEMPTY, neg: neg}
				}
			case roaringBitmap + "Contains":
				recv, arg := S(cc.Args[0]), S(cc.Args[1])
				if recv == delCanon {
					if !isElemID(arg) {
						problems = append(problems, fmt.Sprintf("soft-delete test at %s is applied to %s, not to the id of the admitted element %s", w.InstrPos(x), arg, elemC))
						return atom{kind: aUnknown}
					}
					return atom{kind: aDEL, neg: neg}
				}
			case cometPath + ".(*DocumentFilter).ShouldSkip", "(*" + cometPath + ".DocumentFilter).ShouldSkip",
				"(*" + cometPath + ".DocumentFilter).IsEligible":
				recv, arg := S(cc.Args[0]), S(cc.Args[1])
				if recv != filterCanon {
					problems = append(problems, fmt.Sprintf("document filter at %s is %s, not %s", w.InstrPos(x), recv, filterCanon))
					return atom{kind: aUnknown}
				}
				if !isElemID(arg) {
					problems = append(problems, fmt.Sprintf("document filter at %s is applied to %s, not to the id of the admitted element %s", w.InstrPos(x), arg, elemC))
					return atom{kind: aUnknown}
				}
				if strings.HasSuffix(calleeName(cc), "IsEligible") {
					neg = !neg
				}
				return atom{kind: aSKIP, neg: neg}
			}
		case *ssa.BinOp:
			sym := func(v ssa.Value) string {
				if isZeroConst(v) {
					return "0"
				}
				s := S(v)
				if v == sink.Dist || s == distC {
					return "dist"
				}
				if s == thrCanon {
					return "thr"
				}
				return ""
			}
			l, rr := sym(x.X), sym(x.Y)
			if l != "" && rr != "" {
				var cmp Cmp
				n2 := false
				switch x.Op {
				case token.LSS:
					cmp = Cmp{l, rr, token.LSS}
				case token.LEQ:
					cmp = Cmp{l, rr, token.LEQ}
				case token.GTR:
					cmp = Cmp{rr, l, token.LSS}
				case token.GEQ:
					cmp = Cmp{rr, l, token.LEQ}
				case token.EQL:
					cmp = Cmp{l, rr, token.EQL}
				case token.NEQ:
					cmp = Cmp{l, rr, token.EQL}
					n2 = true
				default:
					return atom{kind: aUnknown}
				}
				return atom{kind: aCMP, neg: neg != n2, cmp: cmp}
			}
		}
		return atom{kind: aUnknown}
	}

	paths, trunc := enumPaths(loop.Header, walkCfg{
		Stop:      func(b *ssa.BasicBlock) bool { return b == loop.Header || !loop.Blocks[b] },
		MaxVisits: 2, MaxPaths: 5000,
	})
	if trunc {
		r.Und(rule, k.Name+":paths", site, "candidate loop has too many paths to enumerate")
		return
	}
	// keep iterations that enter the body: drop the path that leaves the loop at the header
	type pinfo struct {
		p        *Path
		admitted bool
		atoms    []atom
		takens   []bool
	}
	var infos []pinfo
	earlyExit := ""
	sawDEL, sawSKIP, sawTHR := false, false, false
	for _, p := range paths {
		if p.End == EndCycle {
			continue
		}
		if p.End == EndStop && len(p.Blocks) == 2 && !loop.Blocks[p.Blocks[1]] {
			continue // loop exit from the header
		}
		// an iteration that leaves the loop from inside the body ends the scan: every later candidate is dropped
		// unseen (a `break` where a `continue` belongs). Leaving with an error return is a different matter.
		if p.End == EndStop && !loop.Blocks[p.Blocks[len(p.Blocks)-1]] {
			earlyExit = w.InstrPos(p.Blocks[len(p.Blocks)-2].Instrs[len(p.Blocks[len(p.Blocks)-2].Instrs)-1])
			continue
		}
		if p.End == EndReturn && p.Ret != nil && errIndex(fn) >= 0 && pathErrClass(p) != ErrNonNil {
			earlyExit = w.InstrPos(p.Ret)
			continue
		}
		// variants: a decision on a call to a pure predicate of the package (s.skipCandidate(filter, &v)) is replaced by
		// the decisions of each of the predicate's own paths that yields the taken outcome
		variants := []pinfo{{p: p, admitted: p.Has(sink.Call)}}
		infeasible := false
		for _, d := range p.Decisions {
			// a condition computed earlier and kept in a variable (`beyond := thr > 0 && dist > thr; if !beyond`) is the
			// operand the phi received on this path
			if rc, rneg, isConst, cv, ok := condOnPath(p, d); ok {
				if isConst {
					if cv != d.Taken {
						infeasible = true
					}
					continue
				}
				d.Cond = rc
				if rneg {
					d.Taken = !d.Taken
				}
			}
			a := classify(d.Cond)
			var inner []predPath
			if a.kind == aUnknown {
				inner = expandPredicate(w, c, d.Cond, func(cond ssa.Value, S func(ssa.Value) string) (bool, bool, bool) {
					ia := classifyWith(cond, S)
					return ia.kind != aUnknown, false, false
				})
			}
			if inner == nil {
				for i := range variants {
					variants[i].atoms = append(variants[i].atoms, a)
					variants[i].takens = append(variants[i].takens, d.Taken)
				}
				continue
			}
			var next []pinfo
			for _, v := range variants {
				for _, ip := range inner {
					if ip.result != d.Taken {
						continue
					}
					nv := pinfo{p: v.p, admitted: v.admitted}
					nv.atoms = append(append([]atom{}, v.atoms...), make([]atom, 0, len(ip.conds))...)
					nv.takens = append([]bool{}, v.takens...)
					for j, cnd := range ip.conds {
						nv.atoms = append(nv.atoms, classifyWith(cnd, ip.S))
						nv.takens = append(nv.takens, ip.takens[j])
					}
					next = append(next, nv)
				}
			}
			variants = next
		}
		if infeasible {
			continue
		}
		for _, pi := range variants {
			for _, a := range pi.atoms {
				switch a.kind {
				case aDEL:
					sawDEL = true
				case aSKIP:
					sawSKIP = true
				case aCMP:
					if a.cmp.L == "dist" || a.cmp.R == "dist" {
						sawTHR = true
					}
				}
			}
			infos = append(infos, pi)
		}
	}
	r.Check(earlyExit == "", rule, k.Name+":scan-complete", site, "no iteration of the candidate loop ends the scan (only the loop condition does)",
		"an iteration of the candidate loop leaves the loop at "+earlyExit+": the candidates after it are never examined")
	if len(problems) > 0 {
		sort.Strings(problems)
		r.Bad(rule, k.Name+":atoms", site, strings.Join(dedup(problems), "; "))
		return
	}
	if len(infos) == 0 {
		r.Und(rule, k.Name+":paths", site, "no path through the candidate loop body found")
		return
	}
	syms := []string{"0", "thr", "dist"}
	orders := weakOrders(3)
	rows, bad := 0, []string{}
	for del := 0; del < 2; del++ {
		if !spec.DEL && del == 1 {
			continue
		}
		for skip := 0; skip < 2; skip++ {
			if !spec.SKIP && skip == 1 {
				continue
			}
			for _, ord := range orders {
				rank := map[string]int{}
				for i, s := range syms {
					rank[s] = ord[i]
				}
				if rank["thr"] < rank["0"] {
					continue // the property quantifies over thresholds >= 0
				}
				rows++
				want := del == 0 && skip == 0
				if spec.THR {
					want = want && (rank["thr"] <= rank["0"] || rank["dist"] <= rank["thr"])
				}
				// consistent paths (the bitmap may be empty only when the element is not soft-deleted)
				outcomes := map[bool]int{}
				for _, pi := range infos {
					for empty := 0; empty < 2; empty++ {
						if empty == 1 && del == 1 {
							continue
						}
						usesEmpty := false
						for _, a := range pi.atoms {
							if a.kind == aEMPTY {
								usesEmpty = true
							}
						}
						if !usesEmpty && empty == 1 {
							continue
						}
						ok := true
						for i, a := range pi.atoms {
							var val bool
							switch a.kind {
							case aEMPTY:
								val = empty == 1
							case aDEL:
								val = del == 1
							case aSKIP:
								val = skip == 1
							case aCMP:
								val = evalCmp(a.cmp, relOf(rank[a.cmp.L], rank[a.cmp.R]))
							default:
								continue
							}
							if a.neg {
								val = !val
							}
							if val != pi.takens[i] {
								ok = false
								break
							}
						}
						if ok {
							outcomes[pi.admitted]++
						}
					}
				}
				state := fmt.Sprintf("DEL=%d SKIP=%d order(0,thr,dist)=%v", del, skip, ord)
				switch {
				case len(outcomes) == 0:
					bad = append(bad, state+": no path")
				case len(outcomes) == 2:
					bad = append(bad, state+": admission depends on a condition the rule does not recognise")
				case outcomes[true] > 0 != want:
					bad = append(bad, fmt.Sprintf("%s: admitted=%v, specification says %v", state, outcomes[true] > 0, want))
				}
			}
		}
	}
	missing := []string{}
	if spec.DEL && !sawDEL {
		missing = append(missing, "soft-delete test")
	}
	if spec.SKIP && !sawSKIP {
		missing = append(missing, "document-filter test")
	}
	if spec.THR && !sawTHR {
		missing = append(missing, "threshold test")
	}
	r.Sites(len(infos))
	detail := fmt.Sprintf("%d loop-body paths, %d states (DEL×SKIP×weak orders of 0,thr,dist with thr>=0); element=%s dist=%s", len(infos), rows, elemC, distC)
	if len(bad) > 0 || len(missing) > 0 {
		msg := detail
		if len(missing) > 0 {
			msg += "; missing: " + strings.Join(missing, ", ")
		}
		if len(bad) > 0 {
			if len(bad) > 4 {
				bad = append(bad[:4], fmt.Sprintf("… %d more rows", len(bad)-4))
			}
			msg += "; rows: " + strings.Join(bad, " | ")
		}
		r.Bad(rule, k.Name+":table", site, msg)
		return
	}
	r.Ok(rule, k.Name+":table", site, detail+": admitted ⇔ ¬DEL ∧ ¬SKIP ∧ (thr ≤ 0 ∨ dist ≤ thr) in every state")
}

// emptyUnderLock: the IsEmpty call happens after fn took a lock (and before releasing it), or fn takes no lock at all (its
// callers hold it).
func emptyUnderLock(w *World, fn *ssa.Function, call *ssa.Call) bool {
	if call.Parent() != fn {
		return false
	}
	var locks, unlocks []ssa.Instruction
	allInstrs(fn, func(in ssa.Instruction) {
		if c, ok := in.(*ssa.Call); ok {
			switch calleeName(c.Common()) {
			case "(*sync.RWMutex).RLock", "(*sync.RWMutex).Lock", "(*sync.Mutex).Lock":
				locks = append(locks, in)
			case "(*sync.RWMutex).RUnlock", "(*sync.RWMutex).Unlock", "(*sync.Mutex).Unlock":
				unlocks = append(unlocks, in)
			}
		}
	})
	if len(locks) == 0 {
		return true
	}
	for _, l := range locks {
		if !domInstr(l, call) {
			continue
		}
		held := true
		for _, u := range unlocks {
			if domInstr(l, u) && domInstr(u, call) {
				held = false
			}
		}
		if held {
			return true
		}
	}
	return false
}

// predPath is one path through a pure boolean helper: the branch conditions met (with the rendering function that
// translates the helper's canonical names to the caller's), the outcomes taken, and the value returned.
type predPath struct {
	conds  []ssa.Value
	takens []bool
	result bool
	S      func(ssa.Value) string
}

var paramTok = regexp.MustCompile(`\bP(\d+)\b`)

// expandPredicate: cond is (possibly negated) a static call to a loop-free comet function with a single bool result
// whose instructions are loads, calls in branch conditions, branches and returns of constants / conditions. Returns
// its paths, or nil when the callee is not of that shape. known tells whether a condition is one the caller's table
// recognises (so that unrecognised helper bodies are not expanded into noise).
func expandPredicate(w *World, c *Canon, cond ssa.Value, known func(cond ssa.Value, S func(ssa.Value) string) (bool, bool, bool)) []predPath {
	neg := false
	for {
		u, ok := cond.(*ssa.UnOp)
		if !ok || u.Op != token.NOT {
			break
		}
		neg = !neg
		cond = u.X
	}
	call, ok := cond.(*ssa.Call)
	if !ok {
		return nil
	}
	g := staticCallee(call.Common())
	if g == nil || g.Pkg != w.SPkg || len(g.Blocks) == 0 || len(loopsOf(g)) > 0 {
		return nil
	}
	res := g.Signature.Results()
	if res.Len() != 1 || tstr(res.At(0).Type(), nil) != "bool" {
		return nil
	}
	// no effects: no stores, map updates, sends, defers, go
	pure := true
	allInstrs(g, func(in ssa.Instruction) {
		switch in.(type) {
		case *ssa.Store, *ssa.MapUpdate, *ssa.Send, *ssa.Defer, *ssa.Go, *ssa.Panic:
			pure = false
		}
	})
	if !pure {
		return nil
	}
	var args []string
	for _, a := range call.Call.Args {
		args = append(args, c.S(a))
	}
	cg := NewCanon(w)
	S := func(v ssa.Value) string {
		return paramTok.ReplaceAllStringFunc(cg.S(v), func(m string) string {
			n := 0
			fmt.Sscanf(m, "P%d", &n)
			if n < len(args) {
				return args[n]
			}
			return m
		})
	}
	paths, trunc := enumPaths(g.Blocks[0], walkCfg{MaxVisits: 1, MaxPaths: 200})
	if trunc {
		return nil
	}
	var out []predPath
	anyKnown := false
	for _, p := range paths {
		if p.End != EndReturn || !p.Feasible() {
			continue
		}
		pp := predPath{S: S}
		for _, d := range p.Decisions {
			pp.conds = append(pp.conds, d.Cond)
			pp.takens = append(pp.takens, d.Taken)
			if k, _, _ := known(d.Cond, S); k {
				anyKnown = true
			}
		}
		rv := resolveOnPath(p, p.Ret.Results[0])
		if k, ok := rv.(*ssa.Const); ok && k.Value != nil && k.Value.Kind() == constant.Bool {
			pp.result = constant.BoolVal(k.Value) != neg
			out = append(out, pp)
			continue
		}
		// returned condition: both outcomes
		if k, _, _ := known(rv, S); k {
			anyKnown = true
		}
		for _, tv := range []bool{true, false} {
			q := predPath{S: S, conds: append(append([]ssa.Value{}, pp.conds...), rv), takens: append(append([]bool{}, pp.takens...), tv), result: tv != neg}
			out = append(out, q)
		}
	}
	if !anyKnown || len(out) == 0 {
		return nil
	}
	return out
}

func dedup(s []string) []string {
	var out []string
	seen := map[string]bool{}
	for _, x := range s {
		if !seen[x] {
			seen[x] = true
			out = append(out, x)
		}
	}
	return out
}

// lastIndexExpr returns X for a canonical string of the form base[X] (balanced brackets).
func lastIndexExpr(s string) (string, bool) {
	if !strings.HasSuffix(s, "]") {
		return "", false
	}
	depth := 0
	for i := len(s) - 1; i >= 0; i-- {
		switch s[i] {
		case ']':
			depth++
		case '[':
			depth--
			if depth == 0 {
				return s[i+1 : len(s)-1], true
			}
		}
	}
	return "", false
}

// condOnPath: the branch condition of decision d is (a negation of) a boolean phi; returns the operand the phi received
// on the path — a constant (isConst, cv) or another condition (rc, to be negated when rneg).
func condOnPath(p *Path, d Decision) (rc ssa.Value, rneg, isConst, cv, ok bool) {
	cond := d.Cond
	neg := false
	changed := false
	for i := 0; i < 8; i++ {
		if u, isU := cond.(*ssa.UnOp); isU && u.Op == token.NOT {
			neg = !neg
			cond = u.X
			continue
		}
		ph, isPhi := cond.(*ssa.Phi)
		if !isPhi {
			break
		}
		e := p.PhiEdgeAt(ph, d.At)
		if e == nil {
			break
		}
		cond = e
		changed = true
	}
	if !changed {
		return nil, false, false, false, false
	}
	if k, isK := cond.(*ssa.Const); isK && k.Value != nil && k.Value.Kind() == constant.Bool {
		return nil, false, true, constant.BoolVal(k.Value) != neg, true
	}
	return cond, neg, false, false, true
}

package main

// rules_vec2.go — Flush retention, Remove marks, Add ordering, pools (C01, C02, C06).

import (
	"fmt"
	"go/token"
	"go/types"
	"strings"

	"golang.org/x/tools/go/ssa"
)

// sameRecvCallees returns fn plus the functions it calls (statically, to the given depth) that are
// methods of the same receiver type and receive the same receiver.
func sameRecvCallees(w *World, fn *ssa.Function, depth int) []*ssa.Function {
	out := []*ssa.Function{fn}
	seen := map[*ssa.Function]bool{fn: true}
	var visit func(f *ssa.Function, d int)
	visit = func(f *ssa.Function, d int) {
		if d >= depth {
			return
		}
		for _, call := range callsIn(f, func(c *ssa.CallCommon) bool { return staticCallee(c) != nil }) {
			g := staticCallee(call.Common())
			if g.Pkg != w.SPkg || seen[g] || g.Signature.Recv() == nil || f.Signature.Recv() == nil {
				continue
			}
			if !types.Identical(g.Signature.Recv().Type(), f.Signature.Recv().Type()) {
				continue
			}
			if len(call.Common().Args) == 0 || call.Common().Args[0] != ssa.Value(f.Params[0]) {
				continue
			}
			seen[g] = true
			out = append(out, g)
			visit(g, d+1)
		}
	}
	visit(fn, 0)
	return out
}

// flushBody finds the function below Flush (same receiver) that clears the soft-delete bitmap.
func flushBody(w *World, flush *ssa.Function, delField string) (*ssa.Function, *ssa.Call) {
	for _, f := range sameRecvCallees(w, flush, 3) {
		c := NewCanon(w)
		for _, call := range callsIn(f, func(cc *ssa.CallCommon) bool { return calleeName(cc) == roaringBitmap+"Clear" }) {
			if cv, ok := call.(*ssa.Call); ok && c.S(cv.Call.Args[0]) == "P0."+delField {
				return f, cv
			}
		}
	}
	return nil, nil
}

// ruleFlushRetention: in the flush body every retention append is executed ⇔ ¬DEL(id of the ranged element);
// parallel containers are filtered by the same guard; the filtered containers are stored before Clear().
func ruleFlushRetention(r *Run, rule string, k *vecKind) {
	w := r.W
	r.Doc(rule, "removed vectors resurrect, or live ones vanish, after a flush")
	body, clear := flushBody(w, k.Flush, k.DelField)
	if body == nil {
		r.Bad(rule, k.Name+":clear", w.Pos(k.Flush.Pos())+" "+w.Name(k.Flush), "Flush never clears the soft-delete bitmap "+k.DelField)
		return
	}
	name := w.Name(body)
	r.Analysed(name, w.Name(k.Flush))
	c := NewCanon(w)
	delCanon := "P0." + k.DelField
	loops := loopsOf(body)
	type sinkT struct {
		call *ssa.Call
		loop *Loop
		via  *ssa.Call // call site in the flush body when the retention loop lives in a same-receiver helper
	}
	var sinks []sinkT
	allInstrs(body, func(in ssa.Instruction) {
		if call, ok := isBuiltinCall(in, "append"); ok {
			if l := innermostLoop(loops, call.Block()); l != nil {
				sinks = append(sinks, sinkT{call, l, nil})
			}
		}
	})
	// retention loops extracted into a helper method called on the same receiver (filtered := idx.liveEdgesLocked(edges))
	helperLoops := map[*ssa.Function][]*Loop{}
	for _, via := range callsIn(body, func(cc *ssa.CallCommon) bool {
		g := staticCallee(cc)
		return g != nil && g != body && g.Pkg == w.SPkg && g.Signature.Recv() != nil && len(cc.Args) > 0 && c.S(cc.Args[0]) == "P0" &&
			types.Identical(g.Signature.Recv().Type(), body.Signature.Recv().Type())
	}) {
		g := staticCallee(via.Common())
		vc, ok := via.(*ssa.Call)
		if !ok {
			continue
		}
		if _, done := helperLoops[g]; !done {
			helperLoops[g] = loopsOf(g)
		}
		allInstrs(g, func(in ssa.Instruction) {
			if call, ok := isBuiltinCall(in, "append"); ok {
				if l := innermostLoop(helperLoops[g], call.Block()); l != nil {
					sinks = append(sinks, sinkT{call, l, vc})
					r.Analysed(w.Name(g))
				}
			}
		})
	}
	if k.Name == "hnsw" {
		ruleHNSWFlushNodes(r, rule, k, body, clear)
	}
	// Add relies on the flush body to purge a re-added id (C06.REVIVE): only then is a lazy early exit a defect
	addRelies := false
	for _, call := range callsIn(k.Add, func(cc *ssa.CallCommon) bool { return staticCallee(cc) == body }) {
		_ = call
		addRelies = true
	}
	if addRelies {
		ruleFlushAlwaysClears(r, rule, k.Name, body, clear, delCanon)
	}
	if len(sinks) == 0 {
		if k.Name != "hnsw" {
			r.Bad(rule, k.Name+":retain", w.Pos(body.Pos())+" "+name, "flush body has no retention loop")
		}
		return
	}
	byLoop := map[*Loop][]*ssa.Call{}
	viaOf := map[*Loop]*ssa.Call{}
	var order []*Loop
	for _, s := range sinks {
		if byLoop[s.loop] == nil {
			order = append(order, s.loop)
		}
		byLoop[s.loop] = append(byLoop[s.loop], s.call)
		viaOf[s.loop] = s.via
	}
	for li, loop := range order {
		calls := byLoop[loop]
		via := viaOf[loop]
		site := w.InstrPos(calls[0]) + " " + w.Name(calls[0].Parent())
		key := fmt.Sprintf("%s:retain#%d", k.Name, li)
		paths, trunc := enumPaths(loop.Header, walkCfg{
			Stop:      func(b *ssa.BasicBlock) bool { return b == loop.Header || !loop.Blocks[b] },
			MaxVisits: 2, MaxPaths: 2000,
		})
		if trunc {
			r.Und(rule, key, site, "too many paths in the retention loop")
			continue
		}
		var problems []string
		rows := map[bool]map[bool]int{false: {}, true: {}} // DEL -> kept -> count
		for _, p := range paths {
			if p.End == EndCycle {
				continue
			}
			if p.End == EndStop && len(p.Blocks) == 2 && !loop.Blocks[p.Blocks[1]] {
				continue
			}
			kept := 0
			for _, call := range calls {
				if p.Has(call) {
					kept++
				}
			}
			if kept != 0 && kept != len(calls) {
				problems = append(problems, "parallel containers are not filtered by the same guard")
			}
			del, known := false, false
			for _, d := range p.Decisions {
				cond := d.Cond
				neg := false
				for {
					u, ok := cond.(*ssa.UnOp)
					if !ok || u.Op != token.NOT {
						break
					}
					neg = !neg
					cond = u.X
				}
				call, ok := cond.(*ssa.Call)
				if !ok || calleeName(call.Common()) != roaringBitmap+"Contains" || c.S(call.Call.Args[0]) != delCanon {
					continue
				}
				arg := c.S(call.Call.Args[1])
				// the tested id must be the id of the ranged element (or the ranged value itself for id lists)
				if !(strings.Contains(arg, "[range]") || strings.Contains(arg, "next(")) {
					problems = append(problems, "soft-delete test is applied to "+arg+", not to the element of the retention loop")
					continue
				}
				known = true
				del = d.Taken != neg
			}
			if !known {
				// a path with no soft-delete decision that keeps or drops elements: unguarded
				if kept > 0 {
					problems = append(problems, "an element is retained on a path that never tests the soft-delete bitmap")
				}
				continue
			}
			rows[del][kept > 0]++
		}
		// every appended element must come from the same range position as the tested element
		for _, call := range calls {
			elems, ok := appendedElems(call)
			if !ok {
				continue
			}
			for _, e := range elems {
				s := c.S(e)
				if !(strings.Contains(s, "[range]") || strings.Contains(s, "next(")) {
					problems = append(problems, "retained element "+s+" is not the ranged element")
				}
			}
		}
		if rows[true][true] > 0 {
			problems = append(problems, "a soft-deleted element is retained")
		}
		if rows[false][false] > 0 {
			problems = append(problems, "a live element is dropped")
		}
		if rows[false][true] == 0 {
			problems = append(problems, "no path retains a live element")
		}
		if len(problems) > 0 {
			r.Bad(rule, key, site, strings.Join(dedup(problems), "; "))
		} else {
			r.Ok(rule, key, site, fmt.Sprintf("retained ⇔ ¬DEL(element) on all %d body paths; %d parallel appends share the guard", len(paths), len(calls)))
		}
		// ordering: the retention loop completes before Clear()
		precedes := false
		if via == nil {
			outer := loop
			for _, l := range loops { // outermost enclosing loop that does not contain the Clear
				if l.Blocks[loop.Header] && !l.Blocks[clear.Block()] && len(l.Blocks) > len(outer.Blocks) {
					outer = l
				}
			}
			precedes = outer.Header.Dominates(clear.Block()) && !outer.Blocks[clear.Block()]
		} else {
			// the helper is called before Clear(): straight-line, or from a loop that completes before it
			precedes = domInstr(via, clear)
			for _, l := range loops {
				if l.Blocks[via.Block()] && !l.Blocks[clear.Block()] && l.Header.Dominates(clear.Block()) {
					precedes = true
				}
			}
		}
		r.Check(precedes, rule, key+":before-clear", site,
			"retention loop precedes the Clear() of the soft-delete bitmap", "the soft-delete bitmap is cleared before (or inside) the retention loop")
		// the filtered slice is stored back into index state
		stored := false
		starts := []ssa.Value{}
		if via == nil {
			for _, call := range calls {
				starts = append(starts, call)
			}
		} else {
			// the helper must hand the filtered slice back, and the call's result is what gets stored
			returned := false
			for _, ret := range returnsOf(via.Common().StaticCallee()) {
				for _, res := range ret.Results {
					for _, call := range calls {
						if flowsTo(call, res, 6) {
							returned = true
						}
					}
				}
			}
			if returned {
				starts = append(starts, via)
			}
		}
		for _, call := range starts {
			seen := map[ssa.Value]bool{}
			var follow func(v ssa.Value, d int)
			follow = func(v ssa.Value, d int) {
				if seen[v] || d > 6 || stored {
					return
				}
				seen[v] = true
				refs := v.Referrers()
				if refs == nil {
					return
				}
				for _, ref := range *refs {
					switch x := ref.(type) {
					case *ssa.Phi:
						follow(x, d+1)
					case *ssa.Store:
						if x.Val != v {
							continue
						}
						if strings.Contains(c.S(x.Addr), "P0.") {
							inLoop := false
							for _, l := range loops {
								if l.Blocks[x.Block()] && !l.Blocks[clear.Block()] && l.Header.Dominates(clear.Block()) {
									inLoop = true
								}
							}
							if domInstr(x, clear) || inLoop {
								stored = true
							}
						} else if a, ok := x.Addr.(*ssa.Alloc); ok {
							for _, rr := range *a.Referrers() {
								if ld, ok := rr.(*ssa.UnOp); ok && ld.Op == token.MUL {
									follow(ld, d+1)
								}
							}
						}
					}
				}
			}
			follow(call, 0)
		}
		r.Check(stored, rule, key+":stored", site, "the filtered container replaces the index's container before Clear()",
			"the filtered container is never stored back into the index before Clear()")
	}
}

// flowsTo: to is from, or a phi / extract of it (bounded).
func flowsTo(from, to ssa.Value, depth int) bool {
	if from == to {
		return true
	}
	if depth == 0 {
		return false
	}
	switch x := to.(type) {
	case *ssa.Phi:
		for _, e := range x.Edges {
			if e != to && flowsTo(from, e, depth-1) {
				return true
			}
		}
	case *ssa.Extract:
		return flowsTo(from, x.Tuple, depth-1)
	case *ssa.ChangeType:
		return flowsTo(from, x.X, depth-1)
	}
	return false
}

// ruleHNSWFlushNodes: every soft-deleted id is deleted from the node map before Clear().
func ruleHNSWFlushNodes(r *Run, rule string, k *vecKind, body *ssa.Function, clear *ssa.Call) {
	w := r.W
	name := w.Name(body)
	c := NewCanon(w)
	found := false
	allInstrs(body, func(in ssa.Instruction) {
		call, ok := isBuiltinCall(in, "delete")
		if !ok {
			return
		}
		m, key := c.S(call.Call.Args[0]), c.S(call.Call.Args[1])
		site := w.InstrPos(call) + " " + name
		if !strings.HasPrefix(m, "P0.") {
			return
		}
		found = true
		// key must come from iterating the soft-delete bitmap
		fromDel := strings.Contains(key, "Iterator(P0."+k.DelField+")") || strings.Contains(key, "ToArray(P0."+k.DelField+")")
		r.Check(fromDel, rule, "hnsw:nodes:delete", site, "delete(nodes, id) for every id of the soft-delete bitmap", "deleted key "+key+" does not come from the soft-delete bitmap")
		loops := loopsOf(body)
		l := innermostLoop(loops, call.Block())
		r.Check(l != nil && l.Header.Dominates(clear.Block()) && !l.Blocks[clear.Block()], rule, "hnsw:nodes:before-clear", site,
			"node deletion loop precedes Clear()", "soft-delete bitmap cleared before nodes are deleted")
	})
	if !found {
		r.Bad(rule, "hnsw:nodes:delete", w.Pos(body.Pos())+" "+name, "flush never deletes soft-deleted nodes from the node map")
	}
}

// ruleRemoveMarks: every success path of Remove adds the id of the argument to the soft-delete bitmap.
func ruleRemoveMarks(r *Run, rule string, k *vecKind) {
	w := r.W
	fn := k.Remove
	name := w.Name(fn)
	r.Analysed(name)
	r.Doc(rule, "a removed vector keeps appearing in results")
	c := NewCanon(w)
	isMark := func(in ssa.Instruction) bool {
		call, ok := in.(*ssa.Call)
		if !ok || calleeName(call.Common()) != roaringBitmap+"Add" {
			return false
		}
		return c.S(call.Call.Args[0]) == "P0."+k.DelField && c.S(call.Call.Args[1]) == "get:id(P1)"
	}
	isSuccess := func(in ssa.Instruction) bool {
		ret, ok := in.(*ssa.Return)
		return ok && classifyErr(ret) != ErrNonNil
	}
	_ = isSuccess
	esc := successEscapes(fn, isMark, nil)
	site := w.Pos(fn.Pos()) + " " + name
	if esc != nil {
		r.Bad(rule, k.Name+":mark", w.InstrPos(esc)+" "+name, "a success return of Remove is reachable without "+k.DelField+".Add(id of the argument)")
		return
	}
	n := 0
	allInstrs(fn, func(in ssa.Instruction) {
		if isMark(in) {
			n++
		}
	})
	r.Check(n > 0, rule, k.Name+":mark", site, "every success path marks the argument's id in "+k.DelField, "Remove never marks the id")
	// unknown / already deleted ⇒ error: at least two provably non-nil error returns
	nerr := errorOrigins(fn)
	r.Check(nerr >= 2, rule, k.Name+":errors", site, fmt.Sprintf("%d error returns (not found / already deleted)", nerr),
		fmt.Sprintf("Remove has %d error returns; unknown and already-removed ids must both fail", nerr))
}

// ruleAddPreprocess (flat): the stored element is the argument, stored after the dimension test and after
// PreprocessInPlace of its vector, exactly once on the success path.
func ruleAddPreprocess(r *Run, rule string, k *vecKind) {
	w := r.W
	fn := k.Add
	name := w.Name(fn)
	r.Analysed(name)
	r.Doc(rule, "unnormalised or wrongly sized vectors are stored")
	c := NewCanon(w)
	var pre *ssa.Call
	allInstrs(fn, func(in ssa.Instruction) {
		if call, ok := in.(*ssa.Call); ok && call.Call.IsInvoke() && call.Call.Method.Name() == "PreprocessInPlace" {
			if c.S(call.Call.Args[0]) == "get:vector(P1)" {
				pre = call
			}
		}
	})
	site := w.Pos(fn.Pos()) + " " + name
	if pre == nil {
		r.Bad(rule, k.Name+":preprocess", site, "Add does not call PreprocessInPlace on the argument's vector")
		return
	}
	// error of PreprocessInPlace is checked: an If on (pre != nil)
	checked := false
	for _, ref := range *pre.Referrers() {
		if bo, ok := ref.(*ssa.BinOp); ok && (bo.Op == token.NEQ || bo.Op == token.EQL) {
			checked = true
		}
	}
	r.Check(checked, rule, k.Name+":preprocess:err", w.InstrPos(pre)+" "+name, "PreprocessInPlace error is tested", "PreprocessInPlace error is ignored (zero vectors stored under cosine)")
	// dimension check dominates
	var dimIf ssa.Instruction
	allInstrs(fn, func(in ssa.Instruction) {
		if bo, ok := in.(*ssa.BinOp); ok && (bo.Op == token.NEQ || bo.Op == token.EQL) {
			l, rr := c.S(bo.X), c.S(bo.Y)
			if (l == "len(get:vector(P1))" && rr == "P0.dim") || (rr == "len(get:vector(P1))" && l == "P0.dim") {
				dimIf = in
			}
		}
	})
	stores := 0
	allInstrs(fn, func(in ssa.Instruction) {
		call, ok := isBuiltinCall(in, "append")
		if !ok {
			return
		}
		if !strings.HasPrefix(c.S(call.Call.Args[0]), "P0.") {
			return
		}
		stores++
		ssite := w.InstrPos(call) + " " + name
		r.Check(domInstr(pre, call), rule, k.Name+":store:after-preprocess", ssite, "store follows PreprocessInPlace", "vector stored before it is preprocessed")
		r.Check(dimIf != nil && domInstr(dimIf, call), rule, k.Name+":store:after-dim", ssite, "store follows the dimension test", "vector stored without a dimension test")
		elems, _ := appendedElems(call)
		okElem := len(elems) == 1 && c.S(elems[0]) == "P1"
		r.Check(okElem, rule, k.Name+":store:elem", ssite, "the stored element is the argument", "the stored element is not the argument")
	})
	r.Check(stores == 1, rule, k.Name+":store:once", site, "exactly one append to index storage", fmt.Sprintf("%d appends to index storage", stores))
}

func ruleHNSWResultGate(r *Run, rule string) {
	ruleHNSWLayerSearch(r, rule, false)
}

// rulePools: LCK4 — objects from sync.Pool are reset before reuse (right after Get, or before every Put).
func rulePools(r *Run, rule string) {
	w := r.W
	r.Doc(rule, "stale state from a previous search leaks into this one (wrong filter / stale heap entries)")
	pools := 0
	for _, fn := range w.Funcs {
		var puts []*ssa.Call
		allInstrs(fn, func(in ssa.Instruction) {
			if call, ok := in.(*ssa.Call); ok && calleeName(call.Common()) == "(*sync.Pool).Put" {
				puts = append(puts, call)
			}
		})
		for _, put := range puts {
			pools++
			name := w.Name(fn)
			site := w.InstrPos(put) + " " + name
			r.Analysed(name)
			c := NewCanon(w)
			obj := put.Call.Args[1]
			if mi, ok := obj.(*ssa.MakeInterface); ok {
				obj = mi.X
			}
			objC := c.S(obj)
			reset := resetBefore(w, fn, objC, func(in ssa.Instruction) bool { return domInstr(in, put) })
			atGet, nGet := poolResetAtGet(w, c.S(put.Call.Args[0]))
			r.Check(reset || atGet, rule, name+":reset", site,
				fmt.Sprintf("pooled object %s is reset before Put (%v) or right after each of the %d Get sites (%v)", objC, reset, nGet, atGet),
				"pooled object "+objC+" is neither reset before Put nor after every Get of this pool")
		}
	}
	if pools < 3 {
		r.add(rule, "floor", "-", fmt.Sprintf("only %d sync.Pool.Put sites found, floor is 3", pools), Floor)
	}
}

// resetBefore: fn contains a store through objC (or a field of it), or a Clear/Reset/clear() on it, at a point accepted by ok.
func resetBefore(w *World, fn *ssa.Function, objC string, ok func(ssa.Instruction) bool) bool {
	c := NewCanon(w)
	rooted := func(s string) bool { return s == objC || strings.HasPrefix(s, objC+".") }
	found := false
	allInstrs(fn, func(in ssa.Instruction) {
		if found || !ok(in) {
			return
		}
		switch x := in.(type) {
		case *ssa.Store:
			if rooted(c.S(x.Addr)) {
				found = true
			}
		case *ssa.Call:
			if len(x.Call.Args) > 0 && rooted(c.S(x.Call.Args[0])) {
				n := calleeName(x.Common())
				if strings.HasSuffix(n, ".Clear") || strings.HasSuffix(n, ".Reset") || n == "builtin:clear" {
					found = true
				}
			}
		}
	})
	return found
}

// poolResetAtGet: every Get of the pool is followed (dominated) by a reset of the asserted object.
func poolResetAtGet(w *World, poolC string) (bool, int) {
	all := true
	n := 0
	for _, fn := range w.Funcs {
		c := NewCanon(w)
		allInstrs(fn, func(in ssa.Instruction) {
			call, isCall := in.(*ssa.Call)
			if !isCall || calleeName(call.Common()) != "(*sync.Pool).Get" || c.S(call.Call.Args[0]) != poolC {
				return
			}
			n++
			ok := false
			for _, ref := range *call.Referrers() {
				if ta, isTA := ref.(*ssa.TypeAssert); isTA {
					if resetBefore(w, fn, c.S(ta), func(x ssa.Instruction) bool { return domInstr(call, x) }) {
						ok = true
					}
				}
			}
			if !ok {
				all = false
			}
		})
	}
	return n > 0 && all, n
}

// ruleFlushAlwaysClears: the flush body reaches a success return without Clear() only when the soft-delete
// bitmap is empty (Add relies on the flush body to purge a re-added id; a lazy early exit breaks that).
func ruleFlushAlwaysClears(r *Run, rule, kind string, body *ssa.Function, clear *ssa.Call, delCanon string) {
	w := r.W
	c := NewCanon(w)
	name := w.Name(body)
	for i, ret := range returnsOf(body) {
		if classifyErr(ret) == ErrNonNil {
			continue
		}
		site := w.InstrPos(ret) + " " + name
		key := fmt.Sprintf("%s:always-clears#%d", kind, i)
		if domInstr(clear, ret) {
			r.Ok(rule, key, site, "return follows Clear()")
			continue
		}
		// must be guarded by "bitmap is empty"
		guarded := false
		for b := ret.Block(); b != nil; b = b.Idom() {
			d := b.Idom()
			if d == nil {
				break
			}
			iff, ok := d.Instrs[len(d.Instrs)-1].(*ssa.If)
			if !ok {
				continue
			}
			cond, neg := stripNot(iff.Cond)
			empty := false // does the true branch mean "empty"?
			known := false
			switch x := cond.(type) {
			case *ssa.BinOp:
				l, rr := c.S(x.X), c.S(x.Y)
				isCard := func(s string) bool { return strings.Contains(s, "GetCardinality("+delCanon+")") }
				if (isCard(l) && isZeroConst(x.Y)) || (isCard(rr) && isZeroConst(x.X)) {
					switch x.Op {
					case token.EQL:
						empty, known = true, true
					case token.NEQ, token.GTR:
						empty, known = false, true
					case token.LEQ:
						empty, known = isCard(l), isCard(l)
					}
				}
			case *ssa.Call:
				if calleeName(x.Common()) == roaringBitmap+"IsEmpty" && c.S(x.Call.Args[0]) == delCanon {
					empty, known = true, true
				}
			}
			if !known {
				continue
			}
			if neg {
				empty = !empty
			}
			succ := d.Succs[1]
			if empty {
				succ = d.Succs[0]
			}
			if len(succ.Preds) == 1 && (succ == b || succ.Dominates(b)) {
				guarded = true
			}
			break
		}
		r.Check(guarded, rule, key, site, "early return only when the soft-delete bitmap is empty",
			"the flush body can return without purging although soft-deleted entries are pending (Add relies on it to purge a re-added id)")
	}
}

// ruleCtorDistance: the index constructor stores the calculator NewDistance returns for its own distanceKind parameter.
func ruleCtorDistance(r *Run, rule string, k *vecKind) {
	w := r.W
	r.Doc(rule, "the index ranks with another metric's calculator than the kind it reports")
	ctor := w.Fn("New" + k.IndexName)
	if ctor == nil {
		r.Unres(rule, k.Name+":ctor", "constructor New"+k.IndexName+" not found")
		return
	}
	r.Analysed(w.Name(ctor))
	c := NewCanon(w)
	ok := false
	detail := "constructor result is not a literal"
	for _, ret := range returnsOf(ctor) {
		if classifyErr(ret) != ErrNil {
			continue
		}
		f, isLit := litFields(resultValue(ret, 0))
		if !isLit {
			continue
		}
		d, dk := "", ""
		if f["distance"] != nil {
			d = c.S(f["distance"])
		}
		if f["distanceKind"] != nil {
			dk = c.S(f["distanceKind"])
		}
		detail = "distance=" + d + " distanceKind=" + dk
		ok = strings.HasPrefix(dk, "P") && d == "NewDistance("+dk+")#0"
	}
	r.Check(ok, rule, k.Name+":ctor:distance", w.Pos(ctor.Pos())+" "+w.Name(ctor), "distance = NewDistance(distanceKind) for the constructor's own kind parameter", "constructor stores "+detail)
}

// ruleDocumentFilter: the id restriction: nil filter ⇔ empty id list (no restriction); the filter holds exactly the given
// ids; eligible ⇔ nil ∨ contains; skip = ¬eligible.
func ruleDocumentFilter(r *Run, rule string) {
	w := r.W
	r.Doc(rule, "the document-id restriction admits ids outside the list or drops listed ones")
	nf, el, sk := w.Fn("NewDocumentFilter"), w.Fn("(*DocumentFilter).IsEligible"), w.Fn("(*DocumentFilter).ShouldSkip")
	if nf == nil || el == nil || sk == nil {
		r.Unres(rule, "filter:functions", "NewDocumentFilter / IsEligible / ShouldSkip not found")
		return
	}
	r.Analysed(w.Name(nf), w.Name(el), w.Name(sk))
	c := NewCanon(w)
	// constructor: returns nil exactly when len(ids) == 0
	nilOK, addAll, cleared := false, false, false
	for _, ret := range returnsOf(nf) {
		if cst, ok := ret.Results[0].(*ssa.Const); ok && cst.Value == nil {
			nilOK = guardedBy(c, ret, func(cmp Cmp, neg bool) (bool, bool) {
				if cmp.Op == token.EQL && (cmp.L == "len(P0)" || cmp.R == "len(P0)") && (cmp.L == "c(0)" || cmp.R == "c(0)") {
					return !neg, true
				}
				return false, false
			})
		}
	}
	var foreign []string // any other in-place operation on the filter's bitmap
	var addSite ssa.Instruction
	allInstrs(nf, func(in ssa.Instruction) {
		if call, ok := in.(*ssa.Call); ok {
			n := calleeName(call.Common())
			switch n {
			case roaringBitmap + "Add":
				if c.S(call.Call.Args[1]) == "P0[range]" {
					addAll = true
					addSite = in
				} else {
					foreign = append(foreign, "Add("+c.S(call.Call.Args[1])+") at "+w.InstrPos(in))
				}
			case roaringBitmap + "AddMany":
				if c.S(call.Call.Args[1]) == "P0" {
					addAll = true
					addSite = in
				} else {
					foreign = append(foreign, "AddMany("+c.S(call.Call.Args[1])+") at "+w.InstrPos(in))
				}
			case roaringBitmap + "Clear":
				cleared = true
			default:
				if strings.HasPrefix(n, roaringBitmap) && roaringMutators[strings.TrimPrefix(n, roaringBitmap)] {
					foreign = append(foreign, strings.TrimPrefix(n, roaringBitmap)+" at "+w.InstrPos(in))
				}
			}
		}
	})
	// the bitmap holds the listed ids and nothing else: no other insertion (a range insert covers ids that were never
	// listed), and every filter handed out went through the insertion of all ids
	r.Check(len(foreign) == 0, rule, "filter:only-listed", w.Pos(nf.Pos())+" NewDocumentFilter", "the bitmap is only cleared and given the listed ids one by one (or all at once)",
		"the filter's bitmap is also modified by "+strings.Join(foreign, ", ")+": ids outside the list may become eligible")
	if addSite != nil {
		skipped := ""
		var gate *ssa.BasicBlock = addSite.Block()
		if l := innermostLoop(loopsOf(nf), addSite.Block()); l != nil {
			gate = l.Header
		}
		for _, ret := range returnsOf(nf) {
			if cst, ok := ret.Results[0].(*ssa.Const); ok && cst.Value == nil {
				continue
			}
			if !(gate == ret.Block() || gate.Dominates(ret.Block())) {
				skipped = w.InstrPos(ret)
			}
		}
		r.Check(skipped == "", rule, "filter:every-return-filled", w.Pos(nf.Pos())+" NewDocumentFilter", "every filter returned has been through the insertion of all listed ids",
			"the filter returned at "+skipped+" did not go through the insertion of the listed ids")
	}
	site := w.Pos(nf.Pos()) + " NewDocumentFilter"
	r.Check(nilOK, rule, "filter:nil-iff-empty", site, "no filter (nil) ⇔ the id list is empty", "the nil filter is not returned exactly for an empty id list")
	r.Check(addAll && cleared, rule, "filter:holds-ids", site, "the (reset) bitmap receives every listed id", fmt.Sprintf("bitmap reset=%v, every id added=%v", cleared, addAll))
	// IsEligible ⇔ filter is nil ∨ bitmap.Contains(id); ShouldSkip ⇔ ¬IsEligible — decided by evaluating both (loop-free,
	// effect-free) bodies under the three states of (NIL, IN), however they are spelled
	predVal := func(fn *ssa.Function, isNil, in bool) func(ssa.Value) (bool, bool) {
		cc := NewCanon(w)
		return func(v ssa.Value) (bool, bool) {
			switch x := v.(type) {
			case *ssa.BinOp:
				l, rr := cc.S(x.X), cc.S(x.Y)
				if (l == "P0" && rr == "nil") || (l == "nil" && rr == "P0") {
					switch x.Op {
					case token.EQL:
						return isNil, true
					case token.NEQ:
						return !isNil, true
					}
				}
			case *ssa.Call:
				switch cc.S(x) {
				case roaringBitmap + "Contains(P0.bitmap,P1)":
					if isNil {
						return false, false // dereference of a nil filter
					}
					return in, true
				case "(*DocumentFilter).IsEligible(P0,P1)":
					return isNil || in, true
				case "(*DocumentFilter).ShouldSkip(P0,P1)":
					return !(isNil || in), true
				}
			}
			return false, false
		}
	}
	type st3 struct{ isNil, in bool }
	states := []st3{{true, false}, {false, true}, {false, false}}
	okEl, okSkip := true, true
	var badEl, badSk []string
	for _, st := range states {
		got, ok := evalBoolFn(el, predVal(el, st.isNil, st.in))
		if !ok || got != (st.isNil || st.in) {
			okEl = false
			badEl = append(badEl, fmt.Sprintf("nil=%v listed=%v: %v (decided=%v)", st.isNil, st.in, got, ok))
		}
		got, ok = evalBoolFn(sk, predVal(sk, st.isNil, st.in))
		if !ok || got != !(st.isNil || st.in) {
			okSkip = false
			badSk = append(badSk, fmt.Sprintf("nil=%v listed=%v: %v (decided=%v)", st.isNil, st.in, got, ok))
		}
	}
	r.Check(okEl, rule, "filter:eligible", w.Pos(el.Pos())+" "+w.Name(el), "eligible ⇔ filter is nil ∨ bitmap.Contains(id) in all 3 states", "IsEligible differs from nil ∨ Contains(bitmap,id): "+strings.Join(badEl, "; "))
	r.Check(okSkip, rule, "filter:skip", w.Pos(sk.Pos())+" "+w.Name(sk), "skip ⇔ ¬(nil ∨ listed) in all 3 states", "ShouldSkip is not the negation of IsEligible for the same id: "+strings.Join(badSk, "; "))
}

// ruleQueryPreprocessed: in the per-query routine the raw query parameter is used only for its length and as the argument
// of the metric's Preprocess; every other use (indexing, slicing, distance evaluation) must go through the preprocessed
// copy — whoever the query came from (direct vector or the stored vector of a node id).
func ruleQueryPreprocessed(r *Run, rule string, k *vecKind) {
	w := r.W
	fn := k.Single
	name := w.Name(fn)
	r.Doc(rule, "a query vector reaches the distance computation without the metric's preprocessing (cosine: un-normalised): wrong scores for node-id or direct queries")
	if len(fn.Params) < 2 {
		r.Unres(rule, k.Name+":query-param", "per-query routine has no query parameter")
		return
	}
	bad := ""
	pre := 0
	var check func(g *ssa.Function, p *ssa.Parameter, depth int)
	check = func(g *ssa.Function, p *ssa.Parameter, depth int) {
		refs := p.Referrers()
		if refs == nil {
			return
		}
		for _, ref := range *refs {
			switch x := ref.(type) {
			case *ssa.DebugRef:
			case *ssa.Call:
				if b, ok := x.Call.Value.(*ssa.Builtin); ok && b.Name() == "len" {
					continue
				}
				if x.Call.IsInvoke() && x.Call.Method.Name() == "Preprocess" {
					pre++
					continue
				}
				// handed to a method of the same search object: the same rule for its parameter
				if h := staticCallee(x.Common()); h != nil && h.Pkg == w.SPkg && depth < 2 {
					for i, a := range x.Call.Args {
						if a == ssa.Value(p) && i < len(h.Params) {
							check(h, h.Params[i], depth+1)
						}
					}
					continue
				}
				bad = w.InstrPos(ref)
			default:
				bad = w.InstrPos(ref)
			}
		}
	}
	check(fn, fn.Params[1], 0)
	site := w.Pos(fn.Pos()) + " " + name
	r.Check(bad == "" && pre > 0, rule, k.Name+":query-preprocessed", site, "the raw query is only measured (len) and preprocessed; all computation uses the preprocessed vector",
		fmt.Sprintf("the raw query is used at %s without preprocessing (Preprocess calls on it: %d)", bad, pre))
}

package main

import (
	"go/types"

	"golang.org/x/tools/go/ssa"
)

func annEncodeFns(w *World) []*ssa.Function {
	var out []*ssa.Function
	for _, kn := range []string{"pq", "ivfpq"} {
		if k, err := kindByName(w, kn); err == nil {
			for _, fn := range w.Funcs {
				if fn.Signature.Recv() != nil && types.Identical(fn.Signature.Recv().Type(), k.IndexT) && fn.Signature.Results().Len() == 1 && fn.Signature.Params().Len() == 1 {
					if s := fn.Signature.Results().At(0).Type().String(); s == "[]uint8" {
						// the encoder and the same-receiver helpers it delegates the codeword search to
						for _, g := range sameRecvCallees(w, fn, 2) {
							dup := false
							for _, o := range out {
								if o == g {
									dup = true
								}
							}
							if !dup {
								out = append(out, g)
							}
						}
					}
				}
			}
		}
	}
	return out
}

func init() {
	register("C12", propMeta{
		Explanation: "Structural preconditions of 'HNSW never hides live vectors': in the layer search, pushes onto the exploration heap do not depend on the soft-delete state while pushes onto the result heap are gated by ¬DEL of the pushed id; the comparison shapes of termination / admission / eviction; the node is registered before it is linked (or pruning does not skip unknown ids); a node inserted without any layer-0 link becomes the entry point, unconditionally; neighbour selection and pruning keep the ascending prefix; heap orders; Flush filters edges by ¬DEL(target) before deleting nodes, re-elects a non-deleted entry point and always clears; the empty answer is given only for an empty index; re-add purges before any write (C06.REVIVE for hnsw); the edge budget handed to neighbour selection and pruning is decided per iteration of the layer loop: 2·M exactly when that loop's own layer counter is 0, M above (BUDGET).",
		NotDecided:  "exactness for ≤ 2M vectors and bottom-layer reachability as graph properties of concrete histories (observed: 'keep the M nearest' pruning and Flush can disconnect vertices — DESIGN section 5); only their structural preconditions are decided.",
		Assumptions: []string{"container/heap keeps the Less-minimum at index 0", "roaring.Bitmap contracts"},
	}, func(r *Run) {
		ruleErrProp(r, "C12.ERRPROP", "hnsw_index")
		k, err := kindByName(r.W, "hnsw")
		if err != nil {
			r.Unres("C12.KIND", "hnsw", err.Error())
			return
		}
		ruleHNSWLayerSearch(r, "C12.FRONTIER", true)
		ruleHNSWNeighbourTable(r, "C12.ORD")
		ruleHNSWEdgeBudget(r, "C12.BUDGET")
		ruleHNSWLinkEntry(r, "C12")
		ruleHNSWOrder(r, "C12")
		ruleFlushRetention(r, "C12.FLUSH", k)
		ruleHNSWEmpty(r, "C12.EMPTY")
		ruleHNSWDefaults(r, "C12.DEFAULTS")
		ruleVecAtomicAndRevive(r, k)
		ruleScanADM(r, "C12.ADM", k, admSpec{SKIP: true, THR: true})
		ruleProvenance(r, "C12.PROV", k)
		r.FloorCheck("C12.FRONTIER", 4)
		r.FloorCheck("C12.ORD", 7)
		r.FloorCheck("C12.FLUSH", 5)
		r.FloorCheck("C12.ENTRY", 2)
	})

	register("C13", propMeta{
		Explanation: "Structural conditions of 'IVF is exact at full probe; fewer probes search the nearest clusters exactly': admission table of the list scan; the effective-probe table over all weak orders of (p,0,nlist); the probe loop is a plain count over ranks 0..p-1 and scans lists[ranked[i].index] in every iteration; centroids ranked ascending by true distance of the preprocessed query; scores are true distances of the same element; Add appends the argument to exactly one list, the one FindNearestCentroidIndex (an argmin) selects for the preprocessed vector, never onto a stale copy; untrained ⇒ error before any use; k-means output does not alias training input (a later in-place normalisation must not move a centroid); Flush retention per list; re-add purge.",
		NotDecided:  "rank-wise monotonicity in p as a numeric statement (follows from the prefix structure); empty clusters' effect on recall.",
		Assumptions: []string{"C18 (distances), C20 (k-means) hold", "sort.Slice orders by less"},
	}, func(r *Run) {
		ruleErrProp(r, "C13.ERRPROP", "ivf_index")
		w := r.W
		k, err := kindByName(w, "ivf")
		if err != nil {
			r.Unres("C13.KIND", "ivf", err.Error())
			return
		}
		ruleScanADM(r, "C13.ADM", k, admSpec{DEL: true, SKIP: true, THR: true})
		ruleResultOrder(r, "C13.ORD.less", k)
		ruleTopK(r, "C13.TOPK", k)
		ruleProvenance(r, "C13.PROV", k)
		ruleProbes(r, "C13", k)
		ruleBuilders(r, "C13.BLD", k.SearchT)
		ruleIVFAssign(r, "C13", k)
		n := ruleArgmins(r, "C13.ARGMIN", []*ssa.Function{w.Fn("FindNearestCentroidIndex"), w.Fn("kmeansInternal")})
		if n < 2 {
			r.add("C13.ARGMIN", "argmin:floor", "-", "fewer than 2 argmin loops", Floor)
		}
		ruleNoAlias(r, "C13.IMM", []*ssa.Function{w.Fn("kmeansInternal"), w.Method(k.IndexT, "Train"), w.Fn("FindNearestCentroidIndex")})
		ruleFlushRetention(r, "C13.FLUSH", k)
		ruleVecAtomicAndRevive(r, k)
		ruleDistance(r, "C13.DIST")
		ruleKMeansShape(r, "C13")
		ruleKMeansUpdate(r, "C13.UPDATE")
		r.FloorCheck("C13.ORD.probe", 5)
		r.FloorCheck("C13.ASSIGN", 3)
		r.FloorCheck("C13.TRAINED", 2)
	})

	register("C14", propMeta{
		Explanation: "Structural conditions of 'PQ / IVFPQ rank by exact asymmetric distance': the largest code size the constructors accept fits the code element type; k-means for K codewords is dominated by a `len(vectors) < K` rejection in both Train functions; encode / encodeResidual are argmins over all Ksub codewords; encode and the distance tables slice the codebooks identically and the lookup pairs table[m] with code[m]; IVFPQ uses one cluster index for the residual's centroid and for the list (Add and search); admission tables (threshold on the final distance), ascending order, truncation, score of the same element; IVFPQ probe table and loop; parallel containers filtered together on Flush; re-add purges before any write to codes / nodes; k-means output does not alias its input.",
		NotDecided:  "the quantisation error bound, codebook quality.",
		Assumptions: []string{"C18, C20 hold"},
	}, func(r *Run) {
		ruleErrProp(r, "C14.ERRPROP", "pq_index", "ivfpq_index")
		w := r.W
		rulePQ(r, "C14")
		ruleSubspaceKernel(r, "C14.KERNEL")
		n := ruleArgmins(r, "C14.ARGMIN", annEncodeFns(w))
		if n < 2 {
			r.add("C14.ARGMIN", "argmin:floor", "-", "fewer than 2 encode argmin loops", Floor)
		}
		for _, kn := range []string{"pq", "ivfpq"} {
			k, err := kindByName(w, kn)
			if err != nil {
				continue
			}
			ruleBuilders(r, "C14.BLD", k.SearchT)
			ruleScanADM(r, "C14.ADM", k, admSpec{DEL: true, SKIP: true, THR: true})
			ruleResultOrder(r, "C14.ORD.less", k)
			ruleTopK(r, "C14.TOPK", k)
			ruleProvenance(r, "C14.PROV", k)
			ruleQueryPreprocessed(r, "C14.QUERY", k)
			ruleFlushRetention(r, "C14.FLUSH", k)
			ruleVecAtomicAndRevive(r, k)
			if kn == "ivfpq" {
				ruleProbes(r, "C14", k)
				ruleIVFAssignTrained(r, "C14", k)
			}
		}
		ruleNoAlias(r, "C14.IMM", []*ssa.Function{w.Fn("kmeansInternal")})
		ruleKMeansShape(r, "C14")
		ruleKMeansUpdate(r, "C14.UPDATE")
		r.FloorCheck("C14.WIDTH", 2)
		r.FloorCheck("C14.TRAINSIZE", 3)
		r.FloorCheck("C14.TABLE", 4)
		r.FloorCheck("C14.RESID", 3)
	})
}

func init() {
	register("C15", propMeta{
		Explanation: "Recall is a statistical runtime quantity: the floors themselves are NOT decided. Decided is the conjunction of the structural necessary conditions whose violation produces the regressions the property names: HNSW new vertices receive incoming links, an isolated vertex becomes entry point, frontier not gated by deletions, nearest (not farthest) neighbours kept, layer-search comparison shapes, constructor defaults positive in every sign pattern; IVF / IVFPQ probe the p nearest clusters and scan each one's list; PQ / IVFPQ encode by argmin, slice codebooks identically, pair table[m] with code[m], use one cluster index for residual centroid and list (per probe); k-means: argmin assignment, no aliasing of training data, fresh accumulators, deterministic; exact scan admission for the probed lists.",
		NotDecided:  "every recall figure of the statement (0.9 / 0.4 / 1.0 / 0.5 / 85% / insertion-order independence within 0.1): no recall value is measured by this family.",
		Assumptions: []string{"C12, C13, C14, C18, C20 rule sets"},
	}, func(r *Run) {
		w := r.W
		ruleHNSWLayerSearch(r, "C15.FRONTIER", true)
		ruleHNSWNeighbourTable(r, "C15.ORD")
		ruleHNSWEdgeBudget(r, "C15.BUDGET")
		ruleHNSWOrder(r, "C15")
		ruleHNSWDefaults(r, "C15.DEFAULTS")
		for _, kn := range []string{"ivf", "ivfpq"} {
			if k, err := kindByName(w, kn); err == nil {
				ruleProbes(r, "C15", k)
			}
		}
		if k, err := kindByName(w, "ivf"); err == nil {
			ruleIVFAssign(r, "C15", k)
		}
		rulePQ(r, "C15")
		ruleSubspaceKernel(r, "C15.KERNEL")
		fns := append(annEncodeFns(w), w.Fn("FindNearestCentroidIndex"), w.Fn("kmeansInternal"))
		n := ruleArgmins(r, "C15.ARGMIN", fns)
		if n < 4 {
			r.add("C15.ARGMIN", "argmin:floor", "-", "fewer than 4 argmin loops", Floor)
		}
		ruleNoAlias(r, "C15.IMM", []*ssa.Function{w.Fn("kmeansInternal")})
		ruleKMeansShape(r, "C15")
		ruleKMeansUpdate(r, "C15.UPDATE")
		ruleDeterminism(r, "C15.DET", trainRoots(w))
		for _, kn := range []string{"ivf", "pq", "ivfpq", "hnsw"} {
			if k, err := kindByName(w, kn); err == nil {
				spec := admSpec{DEL: true, SKIP: true, THR: true}
				if kn == "hnsw" {
					spec.DEL = false
				}
				ruleScanADM(r, "C15.ADM", k, spec)
				ruleResultOrder(r, "C15.ORD.less", k)
			}
		}
		r.FloorCheck("C15.ORD", 7)
		r.FloorCheck("C15.ORD.probe", 10)
		r.FloorCheck("C15.TABLE", 4)
	})
}
